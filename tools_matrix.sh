#!/bin/bash
# runs every seeded change against the check of the property it breaks (scratch worktrees, 4 at a time);
# writes seeded/MATRIX.txt.  /repo is not touched.
cd /verif
: > /tmp/matrix_raw.txt
ls seeded | grep -E '^C[0-9]+-a[0-9]+$' | xargs -P 4 -I{} sh -c 'n={}; ./tools_seedwt.sh $n ${n%%-*} >> /tmp/matrix_raw.txt 2>&1'
sort /tmp/matrix_raw.txt > seeded/MATRIX.txt
cat seeded/MATRIX.txt | cut -c1-200
