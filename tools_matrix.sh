#!/bin/bash
# runs every seeded change against the check of the property it breaks; writes seeded/MATRIX.txt
cd /verif
claimed=$(python3 -c "import json; print(' '.join(c['property_id'] for c in json.load(open('MANIFEST.json'))['checks']))")
: > seeded/MATRIX.txt
for d in seeded/*/; do
  name=$(basename $d); prop=${name%%-*}
  if ! echo " $claimed " | grep -q " $prop "; then echo "$name $prop not-claimed" | tee -a seeded/MATRIX.txt; continue; fi
  (cd /repo && git apply /verif/$d/patch.diff) || { echo "$name patch-does-not-apply" | tee -a seeded/MATRIX.txt; continue; }
  out=$(./check $prop --tier quick 2>&1); rc=$?
  git -C /repo checkout -- .
  line=$(echo "$out" | grep -E "^VIOLATION|^UNDECIDED|CHECKER" | head -1 | cut -c1-140)
  echo "$name $prop exit=$rc $line" | tee -a seeded/MATRIX.txt
done
