#!/bin/bash
# re-run every claimed check on the clean tree so that the committed evidence files and baseline are current
cd /verif
git -C /repo diff --quiet || { echo "/repo has uncommitted changes"; exit 1; }
for p in $(python3 -c "import json; print(' '.join(c['property_id'] for c in json.load(open('MANIFEST.json'))['checks']))"); do
  PYVC_WRITE_BASELINE=1 PYVC_WRITE_LOCALS=1 ./check $p --tier quick 2>&1 | tail -1
done
rm -f invariant_locals.json.lock
python3-vt - <<'PY'
import json, jsonschema, glob
man = json.load(open('/verif/MANIFEST.json'))
jsonschema.validate(man, json.load(open('/root/.vp/MANIFEST.schema.json')))
sch = json.load(open('/root/.vp/EVIDENCE.schema.json'))
for c in man['checks']:
    e = json.load(open(c['evidence_file']))
    jsonschema.validate(e, sch)
    if e['level'] == 'proof':
        assert e['coverage']['obligations'] == e['coverage']['discharged'] > 0, c['property_id']
    else:
        assert e['coverage']['evaluations'] > 0 and e['coverage']['failing_cases'] == 0, c['property_id']
    assert e['violations'] == 0, c['property_id']
print('manifest + evidence valid for', len(man['checks']), 'checks')
PY
