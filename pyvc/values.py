"""Executor-level values and state (DESIGN §2.4 / §2.8, as built)."""
from __future__ import annotations

from dataclasses import dataclass, field, replace
from typing import Any, Dict, List, Optional, Tuple

import z3

from . import model as M


class Unsupported(Exception):
    """A construct outside the supported subset: every obligation of the function becomes
    UNDECIDED (never a violation)."""


# ----------------------------------------------------------------------------- values
@dataclass(frozen=True)
class T:
    """A symbolic (immutable or frozen) Python object: a z3 term of sort Obj plus a *static* class
    hint used for method dispatch (the matching `rcls` fact is in the path condition)."""
    z: Any
    hint: Optional[str] = None

    def __repr__(self) -> str:
        return f"T({self.z}{':' + self.hint if self.hint else ''})"


@dataclass(frozen=True)
class CellRef:
    id: int


@dataclass(frozen=True)
class Cls:
    name: str


@dataclass(frozen=True)
class Fn:
    info: Any                      # source.FuncInfo
    bound: Any = None              # receiver value or None
    via_cls: Optional[str] = None  # class the lookup started from (for super())


@dataclass(frozen=True)
class Builtin:
    name: str
    bound: Any = None


@dataclass(frozen=True)
class Tup:
    items: Tuple[Any, ...]


@dataclass(frozen=True)
class Mod:
    name: str


@dataclass(frozen=True)
class Kw:
    """`**kwargs` that is only forwarded: an opaque immutable mapping."""
    z: Any


@dataclass(frozen=True)
class KwD:
    """`**kwargs` that captured explicit keywords: an executor-level mapping (+ an opaque rest)."""
    items: Tuple[Tuple[str, Any], ...]
    rest: Any = None


@dataclass(frozen=True)
class Lam:
    node: Any
    env: Any


# ----------------------------------------------------------------------------- cells
@dataclass(frozen=True)
class ListC:
    snap: Any
    frozen: bool = False


@dataclass(frozen=True)
class DictC:
    snap: Any
    frozen: bool = False


@dataclass(frozen=True)
class ObjC:
    cls: str
    attrs: Tuple[Tuple[str, Any], ...]
    ident: Any
    frozen: bool = False

    def get(self, name: str) -> Any:
        for k, v in self.attrs:
            if k == name:
                return v
        return None

    def set(self, name: str, v: Any) -> "ObjC":
        d = [(k, x) for k, x in self.attrs if k != name] + [(name, v)]
        return replace(self, attrs=tuple(d))


# ----------------------------------------------------------------------------- outcomes
@dataclass
class Raised:
    cls: str
    exc: Any          # value of the exception object (CellRef / T) or None
    origin: str = ""  # where (for reports)


@dataclass
class Ret:
    val: Any


class Brk:
    pass


class Cont:
    pass


NORMAL = None


# ----------------------------------------------------------------------------- state
class State:
    __slots__ = ("env", "pc", "cells", "ph", "alloc", "notes")

    def __init__(self) -> None:
        self.env: Dict[str, Any] = {}
        self.pc: List[Any] = []
        self.cells: Dict[int, Any] = {}
        self.ph: Any = None      # z3 Array Obj -> Seq(Obj): PathHolder contents
        self.alloc: Any = None   # z3 Int: next PathHolder allocation id
        self.notes: Tuple[str, ...] = ()

    def fork(self) -> "State":
        s = State()
        s.env = dict(self.env)
        s.pc = list(self.pc)
        s.cells = dict(self.cells)
        s.ph = self.ph
        s.alloc = self.alloc
        s.notes = self.notes
        return s

    def assume(self, *facts: Any) -> "State":
        for f in facts:
            if f is True or (z3.is_expr(f) and z3.is_true(f)):
                continue
            self.pc.append(f)
        return self


@dataclass
class Obligation:
    name: str
    kind: str                  # ensures | raises | requires | frame | escape | assert | inv-init | inv-step | cover
    assumptions: List[Any]
    goal: Any                  # z3 Bool that must follow from the assumptions
    prop_ids: Tuple[str, ...] = ()
    where: str = ""
    text: str = ""
    inputs: Dict[str, Any] = field(default_factory=dict)   # name -> z3 term (for concretisation)
    state: Any = None
    meta: Dict[str, Any] = field(default_factory=dict)
