"""SMT object model for Python values (DESIGN §2.4, as built).

One algebraic sort `Obj`: scalars are constructor terms (so they are injective and can be read back
from a model directly); every heap object (list, tuple, dict, set, schema, props, error, UUID, ...) is
`Ref(rid)` with total, uninterpreted observer functions (`rcls`, `llen/lat`, `has/dget/klen/kat`,
`attr_<name>`).  Mutation of a locally built list / dict creates a new snapshot constant related to the
previous one by update axioms; PathHolder contents live in an explicit heap `Array(Obj -> Seq(Obj))`.

Semantics assumed (also listed in every evidence file):
  * int = mathematical integer; bool is a subclass of int;
  * float = real + {+inf, -inf, nan}, IEEE comparison rules for the specials, no rounding error;
  * str / bytes = SMT-LIB strings;
  * instances of plain subclasses of built-in scalars/containers behave as the built-in kind.
"""
from __future__ import annotations

from typing import Dict, Iterable, List, Optional, Sequence

import z3

# ----------------------------------------------------------------------------- sort
_Obj = z3.Datatype("Obj")
_Obj.declare("NoneV")
_Obj.declare("NilV")
_Obj.declare("EllV")
_Obj.declare("BoolV", ("bval", z3.BoolSort()))
_Obj.declare("IntV", ("ival", z3.IntSort()))
_Obj.declare("FloatV", ("fval", z3.RealSort()))
_Obj.declare("FInfV", ("fneg", z3.BoolSort()))
_Obj.declare("FNanV")
_Obj.declare("StrV", ("sval", z3.StringSort()))
_Obj.declare("BytesV", ("bsval", z3.StringSort()))
_Obj.declare("ClsV", ("cid", z3.IntSort()))
_Obj.declare("Ref", ("rid", z3.IntSort()))
Obj = _Obj.create()

NoneV, NilV, EllV, FNanV = Obj.NoneV, Obj.NilV, Obj.EllV, Obj.FNanV
BoolV, IntV, FloatV, FInfV, StrV, BytesV, ClsV, Ref = (
    Obj.BoolV, Obj.IntV, Obj.FloatV, Obj.FInfV, Obj.StrV, Obj.BytesV, Obj.ClsV, Obj.Ref)
is_NoneV, is_NilV, is_EllV, is_BoolV, is_IntV, is_FloatV, is_FInfV, is_FNanV = (
    Obj.is_NoneV, Obj.is_NilV, Obj.is_EllV, Obj.is_BoolV, Obj.is_IntV, Obj.is_FloatV,
    Obj.is_FInfV, Obj.is_FNanV)
is_StrV, is_BytesV, is_ClsV, is_Ref = Obj.is_StrV, Obj.is_BytesV, Obj.is_ClsV, Obj.is_Ref
bval, ival, fval, fneg, sval, bsval, cid, rid = (
    Obj.bval, Obj.ival, Obj.fval, Obj.fneg, Obj.sval, Obj.bsval, Obj.cid, Obj.rid)

I, B, R, S = z3.IntSort(), z3.BoolSort(), z3.RealSort(), z3.StringSort()
SeqObj = z3.SeqSort(Obj)

# ----------------------------------------------------------------------------- observers
rcls = z3.Function("rcls", Obj, I)
llen = z3.Function("llen", Obj, I)
lat = z3.Function("lat", Obj, I, Obj)
has = z3.Function("has", Obj, Obj, B)
dget = z3.Function("dget", Obj, Obj, Obj)
klen = z3.Function("klen", Obj, I)
kat = z3.Function("kat", Obj, I, Obj)
kidx = z3.Function("kidx", Obj, Obj, I)
ref_eq = z3.Function("ref_eq", Obj, Obj, B)       # Python == between two heap objects
custom_eq = z3.Function("custom_eq", Obj, B)      # a heap object whose class may define its own __eq__ (schemas, user classes, Decimal, ...)
mixed_eq = z3.Function("mixed_eq", Obj, Obj, B)   # == between such an object and a scalar: whatever that __eq__ answers
repr_s = z3.Function("repr_s", Obj, S)            # repr(x) / str(x) text (uninterpreted)
str_s = z3.Function("str_s", Obj, S)
pow10 = z3.Function("pow10", I, I)
rnd = z3.Function("rnd", R, I)                    # round-half-even to integer (axiomatised loosely)
trunc = z3.Function("trunc", R, I)                # int(x) truncation toward zero
re_ok = z3.Function("re_ok", S, B)                # pattern compiles
re_search = z3.Function("re_search", S, S, B)     # re.search(p, s) is not None
setord = z3.Function("setord", I, Obj, I, Obj)    # hashseed, set, position -> element  (C17)
list_of_seq = z3.Function("list_of_seq", SeqObj, Obj)   # the list holding exactly the items of a sequence
seq_of_list = z3.Function("seq_of_list", Obj, SeqObj)
nonell_count = z3.Function("nonell_count", Obj, I)   # number of non-Ellipsis items of a list
conforms = z3.Function("conforms", Obj, Obj, B)     # C02: value conforms to schema (spec relation)
winok = z3.Function("winok", Obj, I, I, Obj, I, B)  # forall j<k. conforms(E[eoff+j], v[voff+j])
winwit = z3.Function("winwit", Obj, I, I, Obj, I, I)
inp = z3.Function("inp", Obj, B)                    # input object: floats reachable from it are in range
gen_eq = z3.Function("gen_eq", Obj, Obj, B)         # Python == with d42's Schema.__eq__ override in force
struct_eq = z3.Function("struct_eq", Obj, Obj, B)   # structural equality of two schemas (C15)
props_eq = z3.Function("props_eq", Obj, Obj, B)     # Props.__eq__
subcls = z3.Function("subcls", I, I, B)             # class id a is a subclass of class id b
anyok = z3.Function("anyok", Obj, I, Obj, B)        # exists j < n. conforms(L[j], v)
anywit = z3.Function("anywit", Obj, I, Obj, I)
propf = z3.Function("propf", Obj, Obj, Obj)         # schema.props.get(name): registry.get(name, Nil)
setidx = z3.Function("setidx", I, Obj, Obj, I)    # position of a member in the set's iteration order
all_in = z3.Function("all_in", S, S, B)           # every character of the 1st string occurs in the 2nd
all_in_wit = z3.Function("all_in_wit", S, S, I)
joined = z3.Function("joined", S, Obj, S)         # sep.join(list of str)
srep = z3.Function("srep", S, I, S)               # s * n (n copies of s; '' for n <= 0)
join_wit = z3.Function("join_wit", S, Obj, S, I)
# chin(s, c): c is a single character occurring in s  (== len(c) == 1 and c in s).  Proofs about character sets go
# through this symbol and E-matching hints; z3's sequence solver spins on negative Contains literals otherwise.
chin = z3.Function("chin", S, S, B)
cidx = z3.Function("cidx", S, S, I)                      # an index at which the character occurs

_attr_funcs: Dict[str, z3.FuncDeclRef] = {}


def attr(name: str) -> z3.FuncDeclRef:
    f = _attr_funcs.get(name)
    if f is None:
        f = z3.Function("attr_" + name, Obj, Obj)
        _attr_funcs[name] = f
    return f


_ctr = [0]


def fresh(prefix: str, sort: z3.SortRef = Obj) -> z3.ExprRef:
    _ctr[0] += 1
    return z3.Const(f"{prefix}!{_ctr[0]}", sort)


# ----------------------------------------------------------------------------- class ids
BUILTIN_CLASSES: Dict[str, List[str]] = {
    # name -> bases
    "object": [], "type": ["object"], "NoneType": ["object"], "ellipsis": ["object"],
    "NilType": ["object"], "int": ["object"], "bool": ["int"], "float": ["object"],
    "str": ["object"], "bytes": ["object"], "bytearray": ["object"], "list": ["object"],
    "tuple": ["object"], "dict": ["object"], "set": ["object"], "frozenset": ["object"],
    "complex": ["object"], "Decimal": ["object"], "Fraction": ["object"],
    "date": ["object"], "datetime": ["date"], "timedelta": ["object"], "UUID": ["object"],
    "PathHolder": ["object"], "Opaque": ["object"], "function": ["object"],
    "ABC": ["object"], "Generic": ["object"],
    "BaseException": ["object"], "Exception": ["BaseException"],
    "ValueError": ["Exception"], "TypeError": ["Exception"], "KeyError": ["LookupError"],
    "IndexError": ["LookupError"], "LookupError": ["Exception"], "AttributeError": ["Exception"],
    "NotImplementedError": ["RuntimeError"], "RuntimeError": ["Exception"],
    "AssertionError": ["Exception"], "OverflowError": ["ArithmeticError"],
    "ZeroDivisionError": ["ArithmeticError"], "ArithmeticError": ["Exception"],
    "re.error": ["Exception"], "RecursionError": ["RuntimeError"],
    "StopIteration": ["Exception"],
    # a dict subclass whose subscript read has a side effect (__missing__ inserts the key): stands for every such class
    "defaultdict": ["dict"],
}


class ClassTable:
    """Class ids and the (finite) subclass relation: built-ins above + every class of the repo."""

    def __init__(self, repo) -> None:
        self.repo = repo
        self.ids: Dict[str, int] = {}
        self.bases: Dict[str, List[str]] = {}
        for n, b in BUILTIN_CLASSES.items():
            self._add(n, b)
        for n, ci in sorted(repo.classes.items()):
            self._add(n, [b for b in ci.bases] or ["object"])
        # a user-defined custom type (C16) and a user-defined opaque class
        self._add("UserCustomSchema", ["CustomSchema"])
        self.names = {v: k for k, v in self.ids.items()}

    def _add(self, n: str, b: List[str]) -> None:
        if n not in self.ids:
            self.ids[n] = len(self.ids)
        self.bases[n] = b

    def mro(self, n: str) -> List[str]:
        out: List[str] = []

        def go(x: str) -> None:
            if x in out:
                return
            out.append(x)
            for b in self.bases.get(x, []):
                go(b)
        go(n)
        if "object" not in out:
            out.append("object")
        return out

    def id(self, n: str) -> int:
        return self.ids[n]

    def subclasses(self, base: str) -> List[str]:
        return [n for n in self.ids if base in self.mro(n)]

    def is_sub(self, n: str, base: str) -> bool:
        return base in self.mro(n)

    def sub_formula(self, c: z3.ArithRef, base: str) -> z3.BoolRef:
        subs = self.subclasses(base)
        if base == "object":
            return z3.BoolVal(True)
        return z3.Or([c == self.ids[s] for s in subs]) if subs else z3.BoolVal(False)


SCALAR_ISINSTANCE = {
    "bool": lambda o: is_BoolV(o),
    "int": lambda o: z3.Or(is_IntV(o), is_BoolV(o)),
    "float": lambda o: z3.Or(is_FloatV(o), is_FInfV(o), is_FNanV(o)),
    "str": lambda o: is_StrV(o),
    "bytes": lambda o: is_BytesV(o),
    "NoneType": lambda o: is_NoneV(o),
    "ellipsis": lambda o: is_EllV(o),
    "NilType": lambda o: is_NilV(o),
    "type": lambda o: is_ClsV(o),
    "object": lambda o: z3.BoolVal(True),
}


def isinstance_f(ct: ClassTable, o: z3.ExprRef, cname: str) -> z3.BoolRef:
    f = SCALAR_ISINSTANCE.get(cname)
    if f is not None:
        return f(o)
    return z3.And(is_Ref(o), ct.sub_formula(rcls(o), cname))


def type_id(ct: ClassTable, o: z3.ExprRef) -> z3.ArithRef:
    """Class id of type(o)."""
    return z3.If(is_Ref(o), rcls(o),
           z3.If(is_BoolV(o), ct.id("bool"),
           z3.If(is_IntV(o), ct.id("int"),
           z3.If(z3.Or(is_FloatV(o), is_FInfV(o), is_FNanV(o)), ct.id("float"),
           z3.If(is_StrV(o), ct.id("str"),
           z3.If(is_BytesV(o), ct.id("bytes"),
           z3.If(is_NoneV(o), ct.id("NoneType"),
           z3.If(is_EllV(o), ct.id("ellipsis"),
           z3.If(is_NilV(o), ct.id("NilType"), ct.id("type"))))))))))


# ----------------------------------------------------------------------------- numerics
def is_num(o):
    return z3.Or(is_BoolV(o), is_IntV(o), is_FloatV(o), is_FInfV(o), is_FNanV(o))


def is_intlike(o):
    return z3.Or(is_BoolV(o), is_IntV(o))


def is_floatk(o):
    return z3.Or(is_FloatV(o), is_FInfV(o), is_FNanV(o))


def int_of(o):
    """Integer value of a bool/int object."""
    return z3.If(is_BoolV(o), z3.If(bval(o), 1, 0), ival(o))


def real_of(o):
    """Real value of a *finite* number."""
    return z3.If(is_BoolV(o), z3.If(bval(o), z3.RealVal(1), z3.RealVal(0)),
                 z3.If(is_IntV(o), z3.ToReal(ival(o)), fval(o)))


def is_finite(o):
    return z3.Or(is_BoolV(o), is_IntV(o), is_FloatV(o))


def num_lt(a, b):
    """a < b for numbers with IEEE rules for nan / infinities."""
    return z3.If(z3.Or(is_FNanV(a), is_FNanV(b)), False,
           z3.If(is_FInfV(a), z3.And(fneg(a), z3.Not(z3.And(is_FInfV(b), fneg(b)))),
           z3.If(is_FInfV(b), z3.Not(fneg(b)), real_of(a) < real_of(b))))


def num_le(a, b):
    return z3.If(z3.Or(is_FNanV(a), is_FNanV(b)), False, z3.Not(num_lt(b, a)))


def num_eq(a, b):
    return z3.If(z3.Or(is_FNanV(a), is_FNanV(b)), False,
           z3.If(z3.Or(is_FInfV(a), is_FInfV(b)),
                 z3.And(is_FInfV(a), is_FInfV(b), fneg(a) == fneg(b)),
                 real_of(a) == real_of(b)))


def py_eq(a, b):
    """Python `a == b` for the modelled kinds (False for unrelated kinds; heap objects via ref_eq)."""
    return z3.If(z3.And(is_num(a), is_num(b)), num_eq(a, b),
           z3.If(z3.And(is_StrV(a), is_StrV(b)), sval(a) == sval(b),
           z3.If(z3.And(is_BytesV(a), is_BytesV(b)), bsval(a) == bsval(b),
           z3.If(z3.Or(custom_eq(a), custom_eq(b)), mixed_eq(a, b),
           z3.If(z3.And(is_Ref(a), is_Ref(b)), ref_eq(a, b),
           z3.If(z3.Or(is_num(a), is_num(b), is_StrV(a), is_StrV(b), is_BytesV(a), is_BytesV(b),
                       is_Ref(a), is_Ref(b)), False, a == b))))))


DBL_MAX = z3.RealVal("179769313486231570814527423731704356798070567525844996598917476803157260780028538760589558632766878171540458953514382464234321326889464182768467546703537516986049910576551282076245490090389328944075868508455133942304583236903222948165808559332123348274797826204144723168738177180919299881250404026184124858368")


def float_from_real(r):
    """A float result of a real-valued computation: overflows to +-inf beyond DBL_MAX."""
    return z3.If(r > DBL_MAX, FInfV(False), z3.If(r < -DBL_MAX, FInfV(True), FloatV(r)))


def isclose_f(a, b, rel=None, abs_=None):
    """math.isclose(a, b, rel_tol=1e-9, abs_tol=0.0) over reals + specials."""
    rel = z3.RealVal("1/1000000000") if rel is None else rel
    abs_ = z3.RealVal(0) if abs_ is None else abs_
    ra, rb = real_of(a), real_of(b)
    d = z3.If(ra - rb >= 0, ra - rb, rb - ra)
    aa = z3.If(ra >= 0, ra, -ra)
    ab = z3.If(rb >= 0, rb, -rb)
    mx = z3.If(aa >= ab, aa, ab)
    return z3.If(z3.Or(is_FNanV(a), is_FNanV(b)), False,
           z3.If(z3.Or(is_FInfV(a), is_FInfV(b)),
                 z3.And(is_FInfV(a), is_FInfV(b), fneg(a) == fneg(b)),
                 z3.Or(ra == rb, d <= rel * mx, d <= abs_)))


# ----------------------------------------------------------------------------- global axioms
def base_axioms() -> List[z3.BoolRef]:
    o, k = z3.Consts("o k", Obj)
    j = z3.Int("j")
    x = z3.Real("x")
    ax = [
        z3.ForAll([o], llen(o) >= 0, patterns=[llen(o)]),
        z3.ForAll([o], klen(o) >= 0, patterns=[klen(o)]),
        z3.ForAll([o, j], z3.Implies(z3.And(0 <= j, j < klen(o)),
                                     z3.And(has(o, kat(o, j)), kidx(o, kat(o, j)) == j)),
                  patterns=[kat(o, j)]),
        z3.ForAll([o, k], z3.Implies(has(o, k),
                                     z3.And(0 <= kidx(o, k), kidx(o, k) < klen(o),
                                            kat(o, kidx(o, k)) == k)),
                  patterns=[has(o, k)]),
        # rounding / truncation (mathematical; DESIGN §6 item 4)
        z3.ForAll([x], z3.And(z3.ToReal(rnd(x)) - x <= z3.RealVal("1/2"),
                              x - z3.ToReal(rnd(x)) <= z3.RealVal("1/2")), patterns=[rnd(x)]),
        z3.ForAll([x], z3.If(x >= 0,
                             z3.And(z3.ToReal(trunc(x)) <= x, x < z3.ToReal(trunc(x)) + 1),
                             z3.And(z3.ToReal(trunc(x)) >= x, x > z3.ToReal(trunc(x)) - 1)),
                  patterns=[trunc(x)]),
    ]
    for e in range(0, 19):
        ax.append(pow10(z3.IntVal(e)) == 10 ** e)
    # a string contains each of its characters (theorem of the string theory, given as a hint)
    ss = z3.Const("hs", S)
    ax.append(z3.ForAll([ss, j], z3.Implies(z3.And(0 <= j, j < z3.Length(ss)),
                                            z3.Contains(ss, z3.SubString(ss, j, 1))),
                        patterns=[z3.SubString(ss, j, 1)]))
    # theorems about all_in, given as hints: a character of a string is all_in that string; every
    # character of sep.join(xs) comes from sep or from one of the xs
    ax.append(z3.ForAll([ss, j], z3.Implies(z3.And(0 <= j, j < z3.Length(ss)), all_in(z3.SubString(ss, j, 1), ss)),
                        patterns=[z3.SubString(ss, j, 1)]))
    # all_in is closed under taking substrings
    sz, spart, sa2 = z3.Consts("cz cp ca", S)
    ax.append(z3.ForAll([sz, spart, sa2], z3.Implies(z3.And(all_in(sz, sa2), z3.Contains(sz, spart)), all_in(spart, sa2)),
                        patterns=[z3.MultiPattern(all_in(sz, sa2), z3.Contains(sz, spart))]))
    sp, al = z3.Consts("jsep jal", S)
    jl = z3.Const("jlst", Obj)
    jw_ = join_wit(sp, jl, al)
    ax.append(z3.ForAll([sp, jl, al], z3.Implies(
        z3.Not(all_in(joined(sp, jl), al)),
        z3.Or(z3.And(llen(jl) > 1, z3.Not(all_in(sp, al))),
              z3.And(0 <= jw_, jw_ < llen(jl), z3.Not(all_in(sval(lat(jl, jw_)), al))))),
        patterns=[all_in(joined(sp, jl), al)]))
    # chin: definition (unfolded only where the Contains term already exists), and theorems given as hints
    cs, cc = z3.Consts("chs chc", S)
    ax.append(z3.ForAll([cs, cc], chin(cs, cc) == z3.And(z3.Length(cc) == 1, z3.Contains(cs, cc)),
                        patterns=[z3.MultiPattern(chin(cs, cc), z3.Contains(cs, cc))]))
    ax.append(z3.ForAll([cs, cc], z3.Implies(chin(cs, cc), z3.Length(cc) == 1), patterns=[chin(cs, cc)]))
    ax.append(z3.ForAll([cs], z3.Implies(z3.Length(cs) == 1, chin(cs, cs)), patterns=[chin(cs, cs)]))
    ax.append(z3.ForAll([cs, cc], z3.Implies(chin(cs, cc), z3.And(0 <= cidx(cs, cc), cidx(cs, cc) < z3.Length(cs),
                                                                  z3.SubString(cs, cidx(cs, cc), 1) == cc)),
                        patterns=[chin(cs, cc)]))
    ax.append(z3.ForAll([sp, jl, j], z3.Implies(z3.And(0 <= j, j < llen(jl), is_StrV(lat(jl, j)),
                                                       z3.Length(sval(lat(jl, j))) == 1),
                                                chin(joined(sp, jl), sval(lat(jl, j)))),
                        patterns=[z3.MultiPattern(joined(sp, jl), lat(jl, j))]))
    # sep.join(xs) contains every xs[j] (semantics of str.join)
    ax.append(z3.ForAll([sp, jl, j], z3.Implies(z3.And(0 <= j, j < llen(jl), is_StrV(lat(jl, j))),
                                                z3.Contains(joined(sp, jl), sval(lat(jl, j)))),
                        patterns=[z3.MultiPattern(joined(sp, jl), lat(jl, j))]))
    # representation invariant of the float model: a finite float lies within +-DBL_MAX (every FloatV the
    # executor builds goes through float_from_real or lies between two finite floats)
    # (stated for *input* objects only -- `inp` -- and what is reachable from them: an unconditional
    # axiom would also constrain the FloatV(r) terms inside float_from_real and hide every overflow path)
    ax.append(z3.ForAll([o], z3.Implies(z3.And(inp(o), is_FloatV(o)),
                                        z3.And(fval(o) <= DBL_MAX, fval(o) >= -DBL_MAX)), patterns=[inp(o)]))
    ax.append(z3.ForAll([o, j], z3.Implies(inp(o), inp(lat(o, j))), patterns=[z3.MultiPattern(inp(o), lat(o, j))]))
    ax.append(z3.ForAll([o, k], z3.Implies(inp(o), inp(dget(o, k))), patterns=[z3.MultiPattern(inp(o), dget(o, k))]))
    ax.append(z3.ForAll([o, k], z3.Implies(inp(o), inp(propf(o, k))), patterns=[z3.MultiPattern(inp(o), propf(o, k))]))
    # str(x) of a str is the str itself
    ax.append(z3.ForAll([o], z3.Implies(is_StrV(o), str_s(o) == sval(o)), patterns=[str_s(o)]))
    # list <-> sequence views (PathHolder contents): round trip, length and items
    sq = z3.Const("sq", SeqObj)
    ax.append(z3.ForAll([sq], z3.And(seq_of_list(list_of_seq(sq)) == sq, llen(list_of_seq(sq)) == z3.Length(sq),
                                     is_Ref(list_of_seq(sq))),
                        patterns=[list_of_seq(sq)]))
    ax.append(z3.ForAll([sq, j], z3.Implies(z3.And(0 <= j, j < z3.Length(sq)), lat(list_of_seq(sq), j) == sq[j]),
                        patterns=[lat(list_of_seq(sq), j)]))
    # propf(S, k) is Props.get(k) on S's props:  registry.get(k, Nil)   (definition)
    reg = attr("_registry")(attr("_props")(o))
    ax.append(z3.ForAll([o, k], propf(o, k) == z3.If(has(reg, k), dget(reg, k), NilV), patterns=[propf(o, k)]))
    # winok(E, eo, k, v, vo)  <=>  forall j<k. conforms(E[eo+j], v[vo+j])     (definition, two halves)
    E_, v_ = z3.Consts("wE wv", Obj)
    eo, kk, vo, ix = z3.Ints("weo wk wvo wix")
    ww = winwit(E_, eo, kk, v_, vo)
    ax.append(z3.ForAll([E_, eo, kk, v_, vo, ix],
                        z3.Implies(z3.And(winok(E_, eo, kk, v_, vo), eo <= ix, ix < eo + kk),
                                   conforms(lat(E_, ix), lat(v_, vo + (ix - eo)))),
                        patterns=[z3.MultiPattern(winok(E_, eo, kk, v_, vo), lat(E_, ix))]))
    # (the same elimination, triggered from the value side)
    ax.append(z3.ForAll([E_, eo, kk, v_, vo, ix],
                        z3.Implies(z3.And(winok(E_, eo, kk, v_, vo), vo <= ix, ix < vo + kk),
                                   conforms(lat(E_, eo + (ix - vo)), lat(v_, ix))),
                        patterns=[z3.MultiPattern(winok(E_, eo, kk, v_, vo), lat(v_, ix))]))
    ax.append(z3.ForAll([E_, eo, kk, v_, vo],
                        z3.Implies(z3.Not(winok(E_, eo, kk, v_, vo)),
                                   z3.And(eo <= ww, ww < eo + kk,
                                          z3.Not(conforms(lat(E_, ww), lat(v_, vo + (ww - eo)))))),
                        patterns=[winok(E_, eo, kk, v_, vo)]))
    # nonell_count: bounds, `all kept` characterisation, and its value when `...` occurs only at the
    # ends (the only placement the DSL admits) -- spec-level lemma, trusted (DESIGN section 6)
    nE = z3.Const("nE", Obj)
    nj = z3.Int("nj")
    mid_free = z3.ForAll([nj], z3.Implies(z3.And(0 < nj, nj < llen(nE) - 1), lat(nE, nj) != EllV), patterns=[lat(nE, nj)])
    all_kept = z3.ForAll([nj], z3.Implies(z3.And(0 <= nj, nj < llen(nE)), lat(nE, nj) != EllV), patterns=[lat(nE, nj)])
    ends = z3.If(z3.And(llen(nE) > 0, lat(nE, 0) == EllV), 1, 0) + \
        z3.If(z3.And(llen(nE) > 1, lat(nE, llen(nE) - 1) == EllV), 1, 0)
    ax.append(z3.ForAll([nE], z3.And(0 <= nonell_count(nE), nonell_count(nE) <= llen(nE),
                                     (nonell_count(nE) == llen(nE)) == all_kept,
                                     z3.Implies(mid_free, nonell_count(nE) == llen(nE) - ends)),
                        patterns=[nonell_count(nE)]))
    # satisfiable(S) := exists w. conforms(S, w)     (introduction direction)
    satisfiable_ = z3.Function("satisfiable", Obj, B)
    ax.append(z3.ForAll([o, o2_ := z3.Const("sw", Obj)], z3.Implies(conforms(o, o2_), satisfiable_(o)),
                        patterns=[conforms(o, o2_)]))
    # anyok(L, n, v)  <=>  exists j < n. conforms(L[j], v)      (definition, two halves)
    aL, av = z3.Consts("aL av", Obj)
    an, aj = z3.Ints("an aj")
    aw_ = anywit(aL, an, av)
    ax.append(z3.ForAll([aL, an, av], z3.Implies(anyok(aL, an, av),
                                                 z3.And(0 <= aw_, aw_ < an, conforms(lat(aL, aw_), av))),
                        patterns=[anyok(aL, an, av)]))
    ax.append(z3.ForAll([aL, an, av, aj], z3.Implies(z3.And(0 <= aj, aj < an, conforms(lat(aL, aj), av)),
                                                     anyok(aL, an, av)),
                        patterns=[z3.MultiPattern(anyok(aL, an, av), lat(aL, aj))]))
    # iteration order of a set: a bijection between positions 0..klen-1 and the members
    hs = z3.Int("hs")
    ax.append(z3.ForAll([hs, o, j], z3.Implies(z3.And(0 <= j, j < klen(o)),
                                               z3.And(has(o, setord(hs, o, j)), setidx(hs, o, setord(hs, o, j)) == j)),
                        patterns=[setord(hs, o, j)]))
    ax.append(z3.ForAll([hs, o, k], z3.Implies(has(o, k),
                                               z3.And(0 <= setidx(hs, o, k), setidx(hs, o, k) < klen(o),
                                                      setord(hs, o, setidx(hs, o, k)) == k)),
                        patterns=[setidx(hs, o, k)]))
    # only objects of these built-in classes are known to be unequal to every scalar (None, ..., numbers, strings);
    # a schema (Schema.__eq__ = eq validates the other operand), a user object, a Decimal or a bytearray may answer
    # anything (mixed_eq is uninterpreted)
    plain = [list(BUILTIN_CLASSES).index(n) for n in BUILTIN_CLASSES
             if n in ("list", "tuple", "dict", "set", "frozenset", "date", "datetime", "timedelta", "UUID", "function")
             or n.endswith("Error") or n.endswith("Exception") or n in ("StopIteration",)]
    ax.append(z3.ForAll([o], custom_eq(o) == z3.And(is_Ref(o), z3.Not(z3.Or(*[rcls(o) == k_ for k_ in plain]))),
                        patterns=[custom_eq(o)]))
    # == between heap objects of standard data (UUID, datetime, lists of such, ...) is an equivalence
    o2 = z3.Const("o2", Obj)
    ax.append(z3.ForAll([o], ref_eq(o, o), patterns=[ref_eq(o, o)]))
    ax.append(z3.ForAll([o, o2], ref_eq(o, o2) == ref_eq(o2, o), patterns=[ref_eq(o, o2)]))
    o3 = z3.Const("o3", Obj)
    ax.append(z3.ForAll([o, o2, o3], z3.Implies(z3.And(ref_eq(o, o2), ref_eq(o2, o3)), ref_eq(o, o3)),
                        patterns=[z3.MultiPattern(ref_eq(o, o2), ref_eq(o2, o3))]))
    # all_in(v, a)  <=>  forall i < |v|. a contains v[i]      (definition, split into its two halves)
    v, a = z3.Consts("av aa", S)
    i = z3.Int("ai")
    w = all_in_wit(v, a)
    ax.append(z3.ForAll([v, a, i], z3.Implies(z3.And(all_in(v, a), 0 <= i, i < z3.Length(v)),
                                             z3.Contains(a, z3.SubString(v, i, 1))),
                        patterns=[z3.MultiPattern(all_in(v, a), z3.SubString(v, i, 1))]))
    ax.append(z3.ForAll([v, a], z3.Implies(z3.Not(all_in(v, a)),
                                          z3.And(0 <= w, w < z3.Length(v),
                                                 z3.Not(z3.Contains(a, z3.SubString(v, w, 1))))),
                        patterns=[all_in(v, a)]))
    return ax


def pow10_def(e: z3.ArithRef) -> z3.BoolRef:
    """Instantiated definition of 10**e for 0 <= e <= 18, positivity otherwise."""
    cases = [z3.Implies(e == v, pow10(e) == 10 ** v) for v in range(0, 19)]
    return z3.And(*cases, pow10(e) >= 1 if True else True)


def mk_str(s: str) -> z3.ExprRef:
    return StrV(z3.StringVal(s))


def mk_int(i: int) -> z3.ExprRef:
    return IntV(z3.IntVal(i))


def mk_bool(b: bool) -> z3.ExprRef:
    return BoolV(z3.BoolVal(b))


def mk_float(x: float) -> z3.ExprRef:
    import math
    if math.isnan(x):
        return FNanV
    if math.isinf(x):
        return FInfV(z3.BoolVal(x < 0))
    from fractions import Fraction
    fr = Fraction(x)
    return FloatV(z3.RealVal(f"{fr.numerator}/{fr.denominator}"))
