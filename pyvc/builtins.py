"""Assumed contracts of Python builtins, the stdlib and the two dependencies (`th`, `niltype`)
(DESIGN §2.5).  Every model used by a run is recorded in `ex.used_assumptions` and ends up in the
evidence file's trusted base.
"""
from __future__ import annotations

from typing import Any, Dict, List, Optional, Tuple

import z3

from . import model as M
from .model import Obj
from .values import (Builtin, CellRef, Cls, DictC, Fn, Kw, Lam, ListC, Mod, ObjC, Raised, State, T,
                     Tup, Unsupported)


def _trust(ex, what: str) -> None:
    ex.used_assumptions.add("builtin: " + what)


def cls_names(ex, v: Any, st: State) -> List[str]:
    if isinstance(v, Cls):
        return [v.name]
    if isinstance(v, Tup):
        out: List[str] = []
        for x in v.items:
            out += cls_names(ex, x, st)
        return out
    raise Unsupported(f"class expected, got {v!r}")


def call_builtin(ex, f: Builtin, pos: List[Any], kws: Dict[str, Any], kwrest: Optional[Kw],
                 st: State, node: Any) -> List[Tuple[State, Any]]:
    n = f.name
    fn = globals().get("b_" + n.replace(".", "_"))
    if fn is None:
        raise Unsupported(f"builtin {n}")
    if f.bound is not None:
        return fn(ex, f.bound, pos, kws, st)
    return fn(ex, pos, kws, st)


# ----------------------------------------------------------------------------- type predicates
def b_isinstance(ex, pos, kws, st):
    v, c = pos
    if isinstance(c, T) and c.hint == "type":
        # isinstance(v, <class of a symbolic object>): the finite subclass table (model.subcls)
        z = ex.term(v, st)
        return [(st, T(M.BoolV(z3.And(M.is_Ref(z), M.subcls(M.rcls(z), M.cid(c.z)))), "bool"))]
    names = cls_names(ex, c, st)
    if isinstance(v, (Cls,)):
        return [(st, ex.const("type" in names or "object" in names))]
    if isinstance(v, CellRef):
        h = ex.hint_of(v, st)
        return [(st, ex.const(any(ex.ct.is_sub(h, x) for x in names)))]
    if isinstance(v, Tup):
        return [(st, ex.const(any(x in ("tuple", "object") for x in names)))]
    z = ex.term(v, st)
    return [(st, T(M.BoolV(z3.Or([M.isinstance_f(ex.ct, z, x) for x in names])), "bool"))]


def b_issubclass(ex, pos, kws, st):
    a, b = pos
    if isinstance(a, Cls):
        return [(st, ex.const(any(ex.ct.is_sub(a.name, x) for x in cls_names(ex, b, st))))]
    raise Unsupported("issubclass of symbolic class")


def b_type(ex, pos, kws, st):
    (v,) = pos
    h = ex.hint_of(v, st) if not isinstance(v, T) or v.hint else None
    if isinstance(v, T):
        z = z3.simplify(v.z)
        if z3.is_app(z) and z.decl().kind() == z3.Z3_OP_DT_CONSTRUCTOR:
            h = ex.hint_of(T(z), st)
    if h:
        return [(st, Cls(h))]
    z = ex.term(v, st)
    return [(st, T(M.ClsV(M.type_id(ex.ct, z)), "type"))]


def b_callable(ex, pos, kws, st):
    (v,) = pos
    return [(st, ex.const(isinstance(v, (Fn, Builtin, Cls, Lam))))]


def b_cast(ex, pos, kws, st):
    return [(st, pos[1])]


def b_typing_any(ex, pos, kws, st):
    raise Unsupported("typing construct called")


# ----------------------------------------------------------------------------- len / getattr
def b_len(ex, pos, kws, st):
    (v,) = pos
    if isinstance(v, Tup):
        return [(st, ex.const(len(v.items)))]
    h = ex.hint_of(v, st)
    if isinstance(v, CellRef):
        c = st.cells[v.id]
        if isinstance(c, ListC):
            return [(st, T(M.IntV(M.llen(c.snap)), "int"))]
        if isinstance(c, DictC):
            return [(st, T(M.IntV(M.klen(c.snap)), "int"))]
        fi = ex.repo.lookup_method(c.cls, "__len__")
        if fi is None:
            return [(st, Raised("TypeError", None, "object has no len()"))]
        return ex.call_fn(Fn(fi, v, c.cls), [], {}, None, st)
    z = ex.term(v, st)
    if h == "str":
        return [(st, T(M.IntV(z3.Length(M.sval(z))), "int"))]
    if h == "bytes":
        return [(st, T(M.IntV(z3.Length(M.bsval(z))), "int"))]
    if h in ("list", "tuple"):
        return [(st, T(M.IntV(M.llen(z)), "int"))]
    if h in ("dict", "set"):
        return [(st, T(M.IntV(M.klen(z)), "int"))]
    if h == "PathHolder":
        return [(st, T(M.IntV(z3.Length(z3.Select(st.ph, z))), "int"))]
    # unknown kind: sized iff str/bytes/list/tuple/dict/set/PathHolder
    ct = ex.ct
    seqk = z3.And(M.is_Ref(z), z3.Or(ct.sub_formula(M.rcls(z), "list"), ct.sub_formula(M.rcls(z), "tuple")))
    mapk = z3.And(M.is_Ref(z), z3.Or(ct.sub_formula(M.rcls(z), "dict"), ct.sub_formula(M.rcls(z), "set"),
                                     ct.sub_formula(M.rcls(z), "frozenset")))
    pathk = z3.And(M.is_Ref(z), M.rcls(z) == ct.id("PathHolder"))
    sized = z3.Or(M.is_StrV(z), M.is_BytesV(z), seqk, mapk, pathk)
    out = []
    for s, ok in ex.branch(st, sized, "TypeError", "len()"):
        if not ok:
            out.append((s, Raised("TypeError", None, "object has no len()")))
        else:
            r = z3.If(M.is_StrV(z), z3.Length(M.sval(z)),
                z3.If(M.is_BytesV(z), z3.Length(M.bsval(z)),
                z3.If(seqk, M.llen(z), z3.If(mapk, M.klen(z), z3.Length(z3.Select(s.ph, z))))))
            out.append((s, T(M.IntV(r), "int")))
    return out


def b_getattr(ex, pos, kws, st):
    obj, name = pos[0], pos[1]
    default = pos[2] if len(pos) > 2 else None
    nz = z3.simplify(ex.term(name, st))
    if not (z3.is_app(nz) and nz.decl().name() == "StrV" and z3.is_string_value(nz.arg(0))):
        raise Unsupported("getattr with symbolic name")
    nm = nz.arg(0).as_string()
    if isinstance(obj, Cls):
        if nm == "__name__":
            return [(st, ex.const(obj.name))]
        raise Unsupported(f"getattr on class {obj.name}.{nm}")
    if isinstance(obj, T) and obj.hint == "type":
        if nm == "__name__":
            _trust(ex, "type.__name__ is a str (uninterpreted text)")
            return [(st, T(M.StrV(M.str_s(obj.z)), "str"))]
    h = ex.hint_of(obj, st)
    if h is None:
        raise Unsupported(f"getattr on {obj!r}")
    look = "CustomSchema" if h == "UserCustomSchema" else h
    if look in ex.repo.classes:
        if h == "UserCustomSchema" and nm in ("__validate__", "__generate__", "__represent__", "__substitute__"):
            return [(st, Builtin("userhook." + nm, obj))]
        fi = ex.repo.lookup_method(look, nm)
        if fi is not None:
            return [(st, Fn(fi, obj, look))]
        if isinstance(obj, CellRef):
            a = st.cells[obj.id].get(nm)
            if a is not None:
                return [(st, a)]
        if default is not None:
            return [(st, default)]
        return [(st, Raised("AttributeError", None, f"{h}.{nm}"))]
    raise Unsupported(f"getattr on {h}")


# ----------------------------------------------------------------------------- copy / math
def b_deepcopy(ex, pos, kws, st):
    (v,) = pos
    h = ex.hint_of(v, st)
    if h == "PathHolder":
        _trust(ex, "copy.deepcopy(PathHolder): fresh object, equal content, never raises")
        z = ex.term(v, st)
        return [(st, ex.alloc_path(st, z3.Select(st.ph, z)))]
    raise Unsupported(f"deepcopy of {v!r}")


def b_copy(ex, pos, kws, st):
    (v,) = pos
    if ex.hint_of(v, st) == "PathHolder":
        _trust(ex, "copy.copy(PathHolder) shares the underlying operator list (th.PathHolder.__copy__): "
                   "modelled as an alias of the same heap cell")
        return [(st, v)]
    raise Unsupported(f"copy of {v!r}")


def b_isclose(ex, pos, kws, st):
    a, b = pos
    za, zb = ex.term(a, st), ex.term(b, st)
    rel = kws.get("rel_tol")
    abs_ = kws.get("abs_tol")
    relz = M.real_of(ex.term(rel, st)) if rel is not None else None
    absz = M.real_of(ex.term(abs_, st)) if abs_ is not None else None
    _trust(ex, "math.isclose over reals + IEEE specials (rel_tol 1e-9, abs_tol 0 by default)")
    out = []
    for s, ok in ex.branch(st, z3.And(M.is_num(za), M.is_num(zb)), "TypeError", "isclose"):
        if not ok:
            out.append((s, Raised("TypeError", None, "isclose needs real numbers")))
        else:
            out.append((s, T(M.BoolV(M.isclose_f(za, zb, relz, absz)), "bool")))
    return out


def _fpred(ex, pos, st, name, pred):
    z = ex.term(pos[0], st)
    _trust(ex, f"math.{name}: IEEE classification of a real number")
    out = []
    for s, ok in ex.branch(st, M.is_num(z), "TypeError", f"math.{name}"):
        if not ok:
            out.append((s, Raised("TypeError", None, f"math.{name} of a non-number")))
        else:
            out.append((s, T(M.BoolV(pred(z)), "bool")))
    return out


def b_isfinite(ex, pos, kws, st):
    return _fpred(ex, pos, st, "isfinite", M.is_finite)


def b_isnan(ex, pos, kws, st):
    return _fpred(ex, pos, st, "isnan", M.is_FNanV)


def b_isinf(ex, pos, kws, st):
    return _fpred(ex, pos, st, "isinf", M.is_FInfV)


def b_max(ex, pos, kws, st):
    return _minmax(ex, pos, kws, st, True)


def b_min(ex, pos, kws, st):
    return _minmax(ex, pos, kws, st, False)


def _minmax(ex, pos, kws, st, is_max):
    if len(pos) != 2 or kws:
        raise Unsupported("max/min form")
    za, zb = ex.term(pos[0], st), ex.term(pos[1], st)
    out = []
    for s, ok in ex.branch(st, z3.And(M.is_num(za), M.is_num(zb))):
        if not ok:
            raise Unsupported("max/min of non-numbers")
        # max(a, b): b if b > a else a
        c = M.num_lt(za, zb) if is_max else M.num_lt(zb, za)
        ha, hb = ex.hint_of(pos[0], s), ex.hint_of(pos[1], s)
        out.append((s, T(z3.If(c, zb, za), ha if ha == hb else None)))
    return out


def b_round(ex, pos, kws, st):
    _trust(ex, "round(): mathematical rounding to nearest (|round(x)-x| <= 1/2), no binary rounding error")
    z = ex.term(pos[0], st)
    if len(pos) == 1:
        out = []
        for s, ok in ex.branch(st, M.is_num(z), "TypeError", "round()"):
            if not ok:
                out.append((s, Raised("TypeError", None, "round of non-number")))
                continue
            for s2, isint in ex.branch(s, M.is_intlike(z)):
                if isint:
                    out.append((s2, T(M.IntV(M.int_of(z)), "int")))
                    continue
                for s3, fin in ex.branch(s2, M.is_FloatV(z), "OverflowError/ValueError", "round() of a float"):
                    if fin:
                        out.append((s3, T(M.IntV(M.rnd(M.fval(z))), "int")))
                        continue
                    for s4, nan in ex.branch(s3, M.is_FNanV(z)):
                        if nan:
                            out.append((s4, Raised("ValueError", None, "cannot convert float NaN to integer")))
                        else:
                            out.append((s4, Raised("OverflowError", None, "cannot convert float infinity to integer")))
        return out
    # round(x, ndigits) on floats: result within half a unit of the last place
    nd = M.int_of(ex.term(pos[1], st))
    out = []
    for s, ok in ex.branch(st, M.is_FloatV(z)):
        if not ok:
            raise Unsupported("round(x, n) of non-finite / non-float")
        s.assume(M.pow10_def(nd))
        r = M.fresh("rnd", M.R)
        sc = z3.ToReal(M.pow10(nd))
        # r is the multiple of 10^-nd nearest to x
        k = M.fresh("rk", M.I)
        s.assume(r * sc == z3.ToReal(k), (r - M.fval(z)) * sc <= z3.RealVal("1/2"),
                 (M.fval(z) - r) * sc <= z3.RealVal("1/2"))
        out.append((s, T(M.float_from_real(r), "float")))
    return out


def b_int(ex, pos, kws, st):
    (v,) = pos
    z = ex.term(v, st)
    _trust(ex, "int(float): truncation toward zero over the reals")
    out = []
    for s, ok in ex.branch(st, M.is_intlike(z)):
        if ok:
            out.append((s, T(M.IntV(M.int_of(z)), "int")))
            continue
        for s2, fin in ex.branch(s, M.is_FloatV(z)):
            if fin:
                out.append((s2, T(M.IntV(M.trunc(M.fval(z))), "int")))
                continue
            for s3, nan in ex.branch(s2, M.is_FNanV(z)):
                if nan:
                    out.append((s3, Raised("ValueError", None, "cannot convert float NaN to integer")))
                    continue
                for s4, inf in ex.branch(s3, M.is_FInfV(z)):
                    if inf:
                        out.append((s4, Raised("OverflowError", None, "cannot convert float infinity to integer")))
                    else:
                        raise Unsupported("int() of non-number")
    return out


def b_float(ex, pos, kws, st):
    (v,) = pos
    z = ex.term(v, st)
    out = []
    for s, ok in ex.branch(st, M.is_intlike(z)):
        if ok:
            out.append((s, T(M.float_from_real(z3.ToReal(M.int_of(z))), "float")))
        else:
            for s2, f in ex.branch(s, M.is_floatk(z)):
                if f:
                    out.append((s2, T(z, "float")))
                else:
                    raise Unsupported("float() of non-number")
    return out


fmt_path = z3.Function("fmt_path", M.S, M.SeqObj, M.S)     # str(PathHolder(name, keys))


def b_str(ex, pos, kws, st):
    (v,) = pos
    if ex.hint_of(v, st) == "PathHolder":
        z = ex.term(v, st)
        _trust(ex, "str(PathHolder) is a function of its name and operator sequence (fmt_path)")
        return [(st, T(M.StrV(fmt_path(M.sval(M.attr("pname")(z)), z3.Select(st.ph, z))), "str"))]
    return [(st, T(M.StrV(ex.to_text(v, st, "s")), "str"))]


def b_repr(ex, pos, kws, st):
    (v,) = pos
    h = ex.hint_of(v, st)
    if h and h in ex.repo.classes and ex.repo.is_subclass(h, "Schema"):
        # Schema.__override__("__repr__", represent)
        fi = ex.repo.modules["d42.representation"].funcs["represent"]
        return ex.call_fn(Fn(fi), [v], {}, None, st)
    return [(st, T(M.StrV(ex.to_text(v, st, "r")), "str"))]


def b_chr(ex, pos, kws, st):
    (v,) = pos
    z = ex.term(v, st)
    i = M.int_of(z)
    _trust(ex, "chr(i) for 0 <= i < 0x110000 is the one-character string of code point i")
    out = []
    for s, ok in ex.branch(st, z3.And(0 <= i, i < 0x110000), "ValueError", "chr()"):
        if ok:
            out.append((s, T(M.StrV(z3.StrFromCode(i)), "str")))
        else:
            out.append((s, Raised("ValueError", None, "chr() arg not in range")))
    return out


def b_hash(ex, pos, kws, st):
    (v,) = pos
    z = ex.term(v, st)
    h = z3.Function("py_hash", Obj, M.I)
    hs = z3.Function("py_hash_seeded", M.I, Obj, M.I)
    _trust(ex, "hash() is a total function of the (hashable) value -- and, except for numbers, None and tuples of such, "
               "of the interpreter's hash seed (str / bytes hashing is randomised per process)")
    stable = z3.Or(M.is_num(z), M.is_NoneV(z))
    return [(st, T(M.IntV(z3.If(stable, h(z), hs(ex.hashseed, z))), "int"))]


def b_print(ex, pos, kws, st):
    return [(st, ex.const(None))]


def b_tuple(ex, pos, kws, st):
    (v,) = pos
    if isinstance(v, Tup):
        return [(st, v)]
    z = ex.seq_snap(v, st)
    h = ex.hint_of(v, st)
    if h in ("list", "tuple"):
        r = M.fresh("tup")
        j = z3.Int("j")
        st.assume(M.is_Ref(r), M.rcls(r) == ex.ct.id("tuple"), M.llen(r) == M.llen(z),
                  z3.ForAll([j], M.lat(r, j) == M.lat(z, j), patterns=[M.lat(r, j), M.lat(z, j)]))
        return [(st, T(r, "tuple"))]
    raise Unsupported("tuple() of non-sequence")


def b_sorted(ex, pos, kws, st):
    (v,) = pos
    h = ex.hint_of(v, st)
    z = ex.term(v, st) if not isinstance(v, CellRef) else (ex.seq_snap(v, st) if h == "list" else ex.dict_snap(v, st))
    r = M.fresh("sorted")
    n = M.llen(z) if h in ("list", "tuple") else M.klen(z)
    j = z3.Int("j")
    _trust(ex, "sorted(xs): a list with the same number of elements, each a member of xs (order not modelled)")
    st.assume(M.is_Ref(r), M.rcls(r) == ex.ct.id("list"), M.llen(r) == n)
    if h in ("set", "dict", "frozenset"):
        st.assume(z3.ForAll([j], z3.Implies(z3.And(0 <= j, j < n), M.has(z, M.lat(r, j))),
                            patterns=[M.lat(r, j)]))
    return [(st, T(r, "list"))]


def b_set(ex, pos, kws, st):
    if not pos:
        return [(st, ex.new_cell(st, DictC(ex.empty_dict_term(st, "S"))))]
    (v,) = pos
    h = ex.hint_of(v, st)
    if h is None and isinstance(v, T):
        h = ex.refine_hint(v, st, ("str", "list", "tuple", "dict", "set"))
    z = ex.seq_snap(v, st) if h in ("list", "tuple") else ex.term(v, st) if not isinstance(v, CellRef) else ex.dict_snap(v, st)
    r = M.fresh("set")
    x = z3.Const("x", Obj)
    st.assume(M.is_Ref(r), M.rcls(r) == ex.ct.id("set"))
    _trust(ex, "set(iterable): membership = membership in the iterable")
    if h == "str":
        st.assume(z3.ForAll([x], M.has(r, x) == z3.And(M.is_StrV(x), z3.Length(M.sval(x)) == 1,
                                                        z3.Contains(M.sval(z), M.sval(x))),
                            patterns=[M.has(r, x)]))
        return [(st, T(r, "set"))]
    if h in ("dict", "set"):
        st.assume(z3.ForAll([x], M.has(r, x) == M.has(z, x), patterns=[M.has(r, x), M.has(z, x)]),
                  M.klen(r) == M.klen(z))
        return [(st, T(r, "set"))]
    if h in ("list", "tuple"):
        j = z3.Int("j")
        st.assume(z3.ForAll([j], z3.Implies(z3.And(0 <= j, j < M.llen(z)), M.has(r, M.lat(z, j))),
                            patterns=[M.lat(z, j)]),
                  z3.ForAll([x], z3.Implies(M.has(r, x), z3.And(0 <= M.kidx(r, x), M.kidx(r, x) < M.llen(z) + 0)),
                            patterns=[M.has(r, x)]))
        return [(st, T(r, "set"))]
    raise Unsupported(f"set() of {v!r}")


# ----------------------------------------------------------------------------- re
sre_tree = z3.Function("sre_tree", M.S, Obj)       # re._parser.parse(pattern): the parse tree (a list of (op, av))


def b_sre_parse(ex, pos, kws, st):
    (p,) = pos
    z = ex.term(p, st)
    _trust(ex, "re._parser.parse(p) returns the parse tree the specification inL is defined on (re.error when the "
               "pattern does not compile)")
    out = []
    for s, ok in ex.branch(st, M.re_ok(M.sval(z))):
        if ok:
            out.append((s, T(sre_tree(M.sval(z)), "list")))
        else:
            out.append((s, Raised("re.error", T(M.fresh("reerr"), "re.error"), "sre.parse")))
    return out


def b_re_compile(ex, pos, kws, st):
    (p,) = pos
    z = ex.term(p, st)
    _trust(ex, "re.compile(p): raises re.error iff the pattern does not compile (uninterpreted re_ok)")
    out = []
    for s, ok in ex.branch(st, M.re_ok(M.sval(z))):
        if ok:
            out.append((s, T(M.fresh("pat"), None)))
        else:
            out.append((s, Raised("re.error", T(M.fresh("reerr"), "re.error"), "re.compile")))
    return out


def b_re_search(ex, pos, kws, st):
    p, sv = pos
    zp, zs = ex.term(p, st), ex.term(sv, st)
    _trust(ex, "re.search(p, s): uninterpreted predicate re_search shared by code and specification; "
               "raises re.error iff not re_ok(p); TypeError unless s is a str")
    out = []
    for s, ok in ex.branch(st, z3.And(M.is_StrV(zp), M.is_StrV(zs)), "TypeError", "re.search"):
        if not ok:
            out.append((s, Raised("TypeError", None, "re.search operands")))
            continue
        for s2, comp in ex.branch(s, M.re_ok(M.sval(zp)), "re.error", "re.search"):
            if not comp:
                out.append((s2, Raised("re.error", T(M.fresh("reerr"), "re.error"), "re.search")))
            else:
                m = M.fresh("match")
                s2.assume(z3.If(M.re_search(M.sval(zp), M.sval(zs)), M.is_Ref(m), m == M.NoneV))
                out.append((s2, T(m, None)))
    return out


# ----------------------------------------------------------------------------- list / dict / str methods
def _list_cell(ex, recv, st) -> ListC:
    if not isinstance(recv, CellRef) or not isinstance(st.cells[recv.id], ListC):
        raise Unsupported("list mutator on a non-local list")
    c = st.cells[recv.id]
    if c.frozen:
        raise Unsupported("mutation of a list after it escaped")
    return c


def b_list_append(ex, recv, pos, kws, st):
    if isinstance(recv, T):
        # mutation of a list that was not built in this activation (C07 frame)
        ex.oblige(st, "frame:list.append", "frame", z3.BoolVal(False), ("C07",),
                  text="append on a list that existed before the call", where=ex.where())
        raise Unsupported("append on a non-local list")
    c = _list_cell(ex, recv, st)
    st.cells[recv.id] = ListC(ex.list_append(st, c.snap, ex.term(pos[0], st)))
    return [(st, ex.const(None))]


def b_list_extend(ex, recv, pos, kws, st):
    c = _list_cell(ex, recv, st)
    st.cells[recv.id] = ListC(ex.list_concat(st, c.snap, ex.seq_snap(pos[0], st)))
    return [(st, ex.const(None))]


def b_list_insert(ex, recv, pos, kws, st):
    c = _list_cell(ex, recv, st)
    l0 = c.snap
    idx = M.int_of(ex.term(pos[0], st))
    x = ex.term(pos[1], st)
    n = M.llen(l0)
    i = z3.If(idx < 0, z3.If(idx + n < 0, 0, idx + n), z3.If(idx > n, n, idx))
    l1 = M.fresh("L")
    j = z3.Int("j")
    _trust(ex, "list.insert(i, x): index clamped to [0, len]")
    st.assume(M.is_Ref(l1), M.rcls(l1) == M.rcls(l0), M.llen(l1) == n + 1, M.lat(l1, i) == x,
              z3.ForAll([j], z3.Implies(z3.And(0 <= j, j < i), M.lat(l1, j) == M.lat(l0, j)),
                        patterns=[M.lat(l1, j)]),
              z3.ForAll([j], z3.Implies(z3.And(i <= j, j < n), M.lat(l1, j + 1) == M.lat(l0, j)),
                        patterns=[M.lat(l0, j)]),
              z3.ForAll([j], z3.Implies(z3.And(i < j, j <= n), M.lat(l1, j) == M.lat(l0, j - 1)),
                        patterns=[M.lat(l1, j)]))
    st.cells[recv.id] = ListC(l1)
    return [(st, ex.const(None))]


def b_list_sort(ex, recv, pos, kws, st):
    c = _list_cell(ex, recv, st)
    key = kws.get("key")
    if not (isinstance(key, Builtin) and key.name == "len"):
        raise Unsupported("sort key")
    l0 = c.snap
    l1 = M.fresh("L")
    j = z3.Int("j")
    perm = z3.Function(f"perm!{l1}", M.I, M.I)
    _trust(ex, "list.sort(key=len): result is a permutation; element 0 has minimal len")
    st.assume(M.is_Ref(l1), M.rcls(l1) == M.rcls(l0), M.llen(l1) == M.llen(l0),
              z3.ForAll([j], z3.Implies(z3.And(0 <= j, j < M.llen(l0)),
                                        z3.And(0 <= perm(j), perm(j) < M.llen(l0),
                                               M.lat(l1, j) == M.lat(l0, perm(j)))),
                        patterns=[M.lat(l1, j)]),
              z3.ForAll([j], z3.Implies(z3.And(0 <= j, j < M.llen(l0)),
                                        M.llen(M.lat(l1, 0)) <= M.llen(M.lat(l0, j))),
                        patterns=[M.lat(l0, j)]))
    st.cells[recv.id] = ListC(l1)
    return [(st, ex.const(None))]


def b_dict_get(ex, recv, pos, kws, st):
    d = ex.dict_snap(recv, st)
    k = ex.term(pos[0], st)
    default = ex.term(pos[1], st) if len(pos) > 1 else M.NoneV
    r = M.fresh("get")      # named: ite terms may not occur inside quantifier patterns
    st.assume(r == z3.If(M.has(d, k), M.dget(d, k), default))
    return [(st, T(r, None))]


def b_dict_keys(ex, recv, pos, kws, st):
    d = ex.dict_snap(recv, st)
    r = M.fresh("keys")
    x = z3.Const("x", Obj)
    j = z3.Int("j")
    _trust(ex, "dict.keys(): a set-like view with the dict's keys in insertion order")
    st.assume(M.is_Ref(r), M.rcls(r) == ex.ct.id("set"), M.klen(r) == M.klen(d),
              z3.ForAll([x], M.has(r, x) == M.has(d, x), patterns=[M.has(r, x)]),
              z3.ForAll([j], M.kat(r, j) == M.kat(d, j), patterns=[M.kat(r, j)]))
    return [(st, T(r, "set"))]


def b_dict_items(ex, recv, pos, kws, st):
    return [(st, Builtin("dict_items_view", recv))]


def b_dict_update(ex, recv, pos, kws, st):
    if not isinstance(recv, CellRef) or not isinstance(st.cells[recv.id], DictC):
        raise Unsupported("dict.update on non-local dict")
    c = st.cells[recv.id]
    if c.frozen:
        raise Unsupported("mutation of a dict after it escaped")
    other = ex.dict_snap(pos[0], st)
    st.cells[recv.id] = DictC(ex.dict_merge(st, c.snap, other))
    return [(st, ex.const(None))]


def b_str_join(ex, recv, pos, kws, st):
    from . import loops
    return loops.str_join(ex, recv, pos[0], st)


def b_str_format(ex, recv, pos, kws, st):
    import string as _string
    z = z3.simplify(M.sval(ex.term(recv, st)))
    if not z3.is_string_value(z):
        raise Unsupported("str.format on a non-literal format string")
    fmt = z.as_string()
    parts = []
    auto = 0
    for lit, field, spec, conv in _string.Formatter().parse(fmt):
        if lit:
            parts.append(z3.StringVal(lit))
        if field is None:
            continue
        if spec or conv:
            raise Unsupported("format spec / conversion in str.format")
        if field == "":
            v = pos[auto]
            auto += 1
        elif field.isdigit():
            v = pos[int(field)]
        else:
            v = kws[field]
        parts.append(ex.to_text(v, st, "s"))
    zz = parts[0] if len(parts) == 1 else (z3.Concat(*parts) if parts else z3.StringVal(""))
    zz = ex.named_concat(st, z3.simplify(zz))
    return [(st, T(M.StrV(zz), "str"))]


def b_str_encode(ex, recv, pos, kws, st):
    z = ex.term(recv, st)
    _trust(ex, "str.encode() of an ASCII string is the same code-unit sequence")
    return [(st, T(M.BytesV(M.sval(z)), "bytes"))]


def b_str_split(ex, recv, pos, kws, st):
    from . import loops
    return loops.str_split(ex, recv, pos[0], st)


def b_str_splitlines(ex, recv, pos, kws, st):
    raise Unsupported("str.splitlines")


# ----------------------------------------------------------------------------- random (stdlib)
def _rng_draw(ex, st: State, sort=Obj, tag: str = "draw"):
    """One RNG outcome: an unconstrained fresh symbol (every outcome of the draw is covered).  For
    C17 the draw is a function of (seed, call index) only: named by the call index."""
    idx = getattr(ex, "_rng_idx", 0)
    ex._rng_idx = idx + 1
    return M.fresh(f"rng{idx}_{tag}", sort)


def b_random_randint(ex, pos, kws, st):
    a, b = ex.term(pos[0], st), ex.term(pos[1], st)
    _trust(ex, "random.randint(a, b): ValueError iff a > b, else any integer r with a <= r <= b")
    out = []
    for s, ok in ex.branch(st, z3.And(M.is_intlike(a), M.is_intlike(b))):
        if not ok:
            out.append((s, Raised("TypeError", None, "randint of non-int")))
            continue
        ia, ib = M.int_of(a), M.int_of(b)
        for s2, nonempty in ex.branch(s, ia <= ib, "ValueError", "random.randint"):
            empty = not nonempty
            if empty:
                out.append((s2, Raised("ValueError", None, "empty range for randint")))
            else:
                r = _rng_draw(ex, s2, M.I, "int")
                s2.assume(ia <= r, r <= ib)
                out.append((s2, T(M.IntV(r), "int")))
    return out


def b_random_uniform(ex, pos, kws, st):
    a, b = ex.term(pos[0], st), ex.term(pos[1], st)
    _trust(ex, "random.uniform(a, b) for finite a <= b: any real r with a <= r <= b")
    out = []
    for s, ok in ex.branch(st, z3.And(M.is_finite(a), M.is_finite(b))):
        if not ok:
            raise Unsupported("uniform of non-finite bounds")
        r = _rng_draw(ex, s, M.R, "real")
        ra, rb = M.real_of(a), M.real_of(b)
        s.assume(z3.If(ra <= rb, z3.And(ra <= r, r <= rb), z3.And(rb <= r, r <= ra)))
        out.append((s, T(M.FloatV(r), "float")))
    return out


def b_random_choice(ex, pos, kws, st):
    (seq,) = pos
    _trust(ex, "random.choice(seq): IndexError iff len(seq) == 0, else seq[i] for some 0 <= i < len")
    if isinstance(seq, Tup):
        if not seq.items:
            return [(st, Raised("IndexError", None, "choice from empty sequence"))]
        i = _rng_draw(ex, st, M.I, "idx")
        st.assume(0 <= i, i < len(seq.items))
        r = ex.term(seq.items[-1], st)
        for k in range(len(seq.items) - 2, -1, -1):
            r = z3.If(i == k, ex.term(seq.items[k], st), r)
        return [(st, T(r, None))]
    h = ex.hint_of(seq, st)
    z = ex.seq_snap(seq, st)
    if h is None and isinstance(seq, T):
        h = ex.refine_hint(seq, st, ("str", "tuple", "list"))
    if h is None and isinstance(seq, T):
        out = []
        for s, isstr in ex.branch(st, M.is_StrV(z)):
            if isstr:
                out += b_random_choice(ex, [T(z, "str")], kws, s)
            else:
                for s2, isseq in ex.branch(s, z3.And(M.is_Ref(z), z3.Or(ex.ct.sub_formula(M.rcls(z), "tuple"),
                                                                       ex.ct.sub_formula(M.rcls(z), "list")))):
                    if not isseq:
                        raise Unsupported("random.choice on a non-sequence")
                    out += b_random_choice(ex, [T(z, "list")], kws, s2)
        return out
    if h == "str":
        n = z3.Length(M.sval(z))
    elif h in ("list", "tuple"):
        n = M.llen(z)
    else:
        raise Unsupported(f"random.choice on {seq!r}")
    out = []
    for s, nonempty in ex.branch(st, n > 0, "IndexError", "random.choice"):
        if not nonempty:
            out.append((s, Raised("IndexError", None, "choice from empty sequence")))
        else:
            i = _rng_draw(ex, s, M.I, "idx")
            s.assume(0 <= i, i < n)
            # named results: the element term must occur in a ground fact to trigger quantifiers
            if h == "str":
                ch = M.fresh("chosen", M.S)
                s.assume(ch == z3.SubString(M.sval(z), i, 1), z3.Length(ch) == 1, z3.Contains(M.sval(z), ch))
                out.append((s, T(M.StrV(ch), "str")))
            else:
                el = M.fresh("chosen")
                s.assume(el == M.lat(z, i))
                out.append((s, T(el, None)))
    return out


def b_random_seed(ex, pos, kws, st):
    # C17: the stream that follows is a function of the value given here, so that value must not depend on the
    # interpreter's hash seed, the clock or OS entropy (self-composition on the argument)
    if pos and "C17" in getattr(ex, "current_props", ()):
        from .contracts import noninterference
        ex.seed_ctr = getattr(ex, "seed_ctr", 0) + 1
        z = ex.term(pos[0], st)
        ex.oblige(st, f"{ex.fname.split(':')[-1]}:seed-reproducible#{ex.seed_ctr}", "ensures",
                  noninterference(ex, st, z, getattr(ex, "entry_len", 0), observational=False), ("C17",),
                  text="the value handed to random.seed() is the same under a different hash seed / clock / OS entropy")
    return [(st, ex.const(None))]


def b_random_shuffle(ex, pos, kws, st):
    raise Unsupported("random.shuffle")


def b_uuid4(ex, pos, kws, st):
    r = M.fresh("uuid")
    _trust(ex, "uuid.uuid4() returns a version-4 UUID (drawn from OS entropy)")
    st.assume(M.is_Ref(r), M.rcls(r) == ex.ct.id("UUID"), M.attr("version")(r) == M.mk_int(4))
    return [(st, T(r, "UUID"))]


def b_datetime_utcnow(ex, pos, kws, st):
    r = M.fresh("now")
    st.assume(M.is_Ref(r), M.rcls(r) == ex.ct.id("datetime"))
    return [(st, T(r, "datetime"))]


def b_date_today(ex, pos, kws, st):
    r = M.fresh("today")
    st.assume(M.is_Ref(r), M.rcls(r) == ex.ct.id("date"))
    return [(st, T(r, "date"))]


# ----------------------------------------------------------------------------- construction of builtin classes
def construct_builtin(ex, cname: str, pos, kws, kwrest, st: State, node) -> List[Tuple[State, Any]]:
    if cname == "PathHolder":
        if len(pos) == 2 and not kws:
            # PathHolder(name, [keys...]) as used by Formatter._format_path: content = the list
            lst = ex.seq_snap(pos[1], st)
            seq = M.seq_of_list(lst)
            ex.used_assumptions.add("builtin: th.PathHolder(name, ops) holds exactly the given operators")
            p_ = ex.alloc_path(st, seq)
            st.assume(M.attr("pname")(p_.z) == ex.term(pos[0], st))
            return [(st, p_)]
        if pos or kws:
            raise Unsupported("PathHolder(root, path)")
        ex.used_assumptions.add("builtin: th.PathHolder() is an empty path")
        return [(st, ex.alloc_path(st, z3.Empty(M.SeqObj)))]
    if cname in ex.ct.ids and ex.ct.is_sub(cname, "BaseException"):
        ident = M.fresh(cname[:6])
        ref = ex.new_cell(st, ObjC(cname, (("args", Tup(tuple(pos))),), ident))
        return [(st, ref)]
    if cname == "type":
        return b_type(ex, pos, kws, st)
    if cname == "int":
        return b_int(ex, pos, kws, st)
    if cname == "float":
        return b_float(ex, pos, kws, st)
    if cname == "str":
        return b_str(ex, pos, kws, st)
    if cname == "tuple":
        return b_tuple(ex, pos, kws, st)
    if cname == "set":
        return b_set(ex, pos, kws, st)
    if cname == "list":
        if not pos:
            return [(st, ex.new_list(st))]
        z = ex.seq_snap(pos[0], st)
        h_ = ex.hint_of(pos[0], st)
        if h_ is None and isinstance(pos[0], T):
            h_ = ex.refine_hint(pos[0], st, ("list", "tuple"))
        if h_ in ("list", "tuple"):
            return [(st, ex.new_cell(st, ListC(ex.list_concat(st, z, ex.list_term(st, ()), cls="list"))))]
        raise Unsupported("list(x)")
    if cname == "dict":
        if not pos and not kws:
            return [(st, ex.new_dict(st))]
        if len(pos) == 1 and not kws:
            h_ = ex.hint_of(pos[0], st)
            if h_ is None and isinstance(pos[0], T):
                h_ = ex.refine_hint(pos[0], st, ("dict",))
            if h_ == "dict":
                # dict(d): a new dict with the same items in the same order
                d0 = ex.dict_snap(pos[0], st)
                d1 = M.fresh("D")
                x = z3.Const("x", Obj)
                j = z3.Int("j")
                st.assume(M.is_Ref(d1), M.rcls(d1) == ex.ct.id("dict"), M.klen(d1) == M.klen(d0),
                          z3.ForAll([x], M.has(d1, x) == M.has(d0, x), patterns=[M.has(d1, x), M.has(d0, x)]),
                          z3.ForAll([x], M.dget(d1, x) == M.dget(d0, x), patterns=[M.dget(d1, x)]),
                          z3.ForAll([j], M.kat(d1, j) == M.kat(d0, j), patterns=[M.kat(d1, j)]))
                _trust(ex, "dict(d): a copy with the same items in the same order")
                return [(st, ex.new_cell(st, DictC(d1)))]
        raise Unsupported("dict(x)")
    if cname == "timedelta":
        r = M.fresh("td")
        st.assume(M.is_Ref(r), M.rcls(r) == ex.ct.id("timedelta"))
        return [(st, T(r, "timedelta"))]
    raise Unsupported(f"construction of {cname}")


from .loops import b_all, b_any, b_enumerate, b_range, b_zip  # noqa: E402,F401
