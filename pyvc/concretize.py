"""Counter-model -> concrete Python inputs (DESIGN §2.11).  Produces a JSON-able description that
replay/native.py turns into real objects (schemas through the public DSL)."""
from __future__ import annotations

from fractions import Fraction
from typing import Any, Dict, Optional

import z3

from . import model as M

PROP_NAMES = {
    "NoneSchema": [], "BoolSchema": ["value"], "IntSchema": ["value", "min", "max"],
    "FloatSchema": ["value", "min", "max", "precision"],
    "StrSchema": ["value", "len", "min_len", "max_len", "alphabet", "substr", "pattern"],
    "ListSchema": ["elements", "type", "len", "min_len", "max_len"],
    "DictSchema": ["keys"], "AnySchema": ["types"], "BytesSchema": ["value"],
    "UUID4Schema": ["value"], "DateTimeSchema": ["value"], "DateSchema": ["value"],
    "TypeAliasSchema": ["name", "type"],
}


ERR_ATTRS = {
    "TypeValidationError": ["expected_type"], "ValueValidationError": ["expected_value"],
    "MinValueValidationError": ["min_value"], "MaxValueValidationError": ["max_value"],
    "LengthValidationError": ["length"], "MinLengthValidationError": ["min_length"],
    "MaxLengthValidationError": ["max_length"], "AlphabetValidationError": ["alphabet"],
    "SubstrValidationError": ["substr"], "RegexValidationError": ["pattern"],
    "MissingElementValidationError": ["index"], "ExtraElementValidationError": ["index"],
    "MissingKeyValidationError": ["missing_key"], "ExtraKeyValidationError": ["extra_key"],
    "SchemaMismatchValidationError": ["expected_schemas"],
    "InvalidUUIDVersionValidationError": ["actual_version", "expected_version"],
}


class Decoder:
    def __init__(self, model: z3.ModelRef, ct, ph: Any = None, max_len: int = 6, max_depth: int = 6) -> None:
        self.m = model
        self.ct = ct
        self.ph = ph
        self.max_len = max_len
        self.max_depth = max_depth

    def ev(self, t: Any) -> Any:
        return self.m.eval(t, model_completion=True)

    def _int(self, t: Any) -> int:
        v = self.ev(t)
        return v.as_long() if z3.is_int_value(v) else 0

    def decode(self, t: Any, depth: int = 0) -> Dict[str, Any]:
        v = self.ev(t)
        if not z3.is_app(v):
            return {"k": "opaque"}
        n = v.decl().name()
        if n == "NoneV":
            return {"k": "none"}
        if n == "NilV":
            return {"k": "nil"}
        if n == "EllV":
            return {"k": "ellipsis"}
        if n == "BoolV":
            return {"k": "bool", "v": z3.is_true(v.arg(0))}
        if n == "IntV":
            return {"k": "int", "v": str(v.arg(0).as_long())}
        if n == "FloatV":
            a = v.arg(0)
            if z3.is_rational_value(a):
                fr = Fraction(a.numerator_as_long(), a.denominator_as_long())
            else:
                fr = Fraction(0)
            return {"k": "float", "num": str(fr.numerator), "den": str(fr.denominator)}
        if n == "FInfV":
            return {"k": "finf", "neg": z3.is_true(v.arg(0))}
        if n == "FNanV":
            return {"k": "fnan"}
        if n == "StrV":
            return {"k": "str", "v": _pystr(v.arg(0))}
        if n == "BytesV":
            return {"k": "bytes", "v": _pystr(v.arg(0))}
        if n == "ClsV":
            c = self._int(M.cid(v))
            return {"k": "class", "name": self.ct.names.get(c, "object")}
        if n == "Ref":
            return self.decode_ref(v, depth)
        return {"k": "opaque"}

    def decode_ref(self, v: Any, depth: int) -> Dict[str, Any]:
        cid = self._int(M.rcls(v))
        cname = self.ct.names.get(cid, "Opaque")
        if depth > self.max_depth:
            return {"k": "opaque", "cls": cname}
        if cname in ("list", "tuple"):
            n = max(0, min(self._int(M.llen(v)), self.max_len))
            return {"k": cname, "items": [self.decode(M.lat(v, i), depth + 1) for i in range(n)],
                    "len": self._int(M.llen(v))}
        if cname in ("dict",):
            n = max(0, min(self._int(M.klen(v)), self.max_len))
            items = []
            for i in range(n):
                k = M.kat(v, i)
                items.append([self.decode(k, depth + 1), self.decode(M.dget(v, k), depth + 1)])
            return {"k": "dict", "items": items, "len": self._int(M.klen(v))}
        if cname in ("set", "frozenset"):
            n = max(0, min(self._int(M.klen(v)), self.max_len))
            return {"k": cname, "items": [self.decode(M.kat(v, i), depth + 1) for i in range(n)]}
        if cname == "UUID":
            return {"k": "uuid", "version": self.decode(M.attr("version")(v), depth + 1)}
        if cname in ("datetime", "date", "Decimal", "Fraction", "complex", "bytearray"):
            return {"k": cname}
        if cname == "PathHolder":
            out: Dict[str, Any] = {"k": "path", "keys": []}
            if self.ph is not None:
                seq = self.ev(z3.Select(self.ph, v))
                ln = self._int(z3.Length(seq))
                for i in range(min(ln, self.max_len)):
                    out["keys"].append(self.decode(seq[i], depth + 1))
            return out
        if cname in PROP_NAMES or (cname in self.ct.ids and self.ct.is_sub(cname, "Schema")):
            reg = M.attr("_registry")(M.attr("_props")(v))
            props: Dict[str, Any] = {}
            for p in PROP_NAMES.get(cname, []):
                k = M.mk_str(p)
                if z3.is_true(self.ev(M.has(reg, k))):
                    d = self.decode(M.dget(reg, k), depth + 1)
                    if d.get("k") != "nil":
                        props[p] = d
            return {"k": "schema", "cls": cname, "props": props}
        if cname == "UserCustomSchema":
            return {"k": "custom", "inner": self.decode(M.attr("inner")(v), depth + 1)}
        if cname.endswith("Props") and cname in self.ct.ids and self.ct.is_sub(cname, "Props"):
            reg = M.attr("_registry")(v)
            n = max(0, min(self._int(M.klen(reg)), self.max_len))
            items = []
            for i in range(n):
                k = M.kat(reg, i)
                items.append([self.decode(k, depth + 1), self.decode(M.dget(reg, k), depth + 1)])
            return {"k": "props", "cls": cname, "items": items}
        if cname.endswith("ValidationError") and cname in ERR_ATTRS:
            return {"k": "error", "cls": cname,
                    "attrs": {a: self.decode(M.attr(a)(v), depth + 1) for a in ["path", "actual_value"] + ERR_ATTRS[cname]}}
        if cname == "optional":
            return {"k": "optional", "key": self.decode(M.attr("_key")(v), depth + 1)}
        return {"k": "opaque", "cls": cname}


def _pystr(zs: Any) -> str:
    try:
        s = zs.as_string()
    except Exception:
        return ""
    # z3 escapes non-printables as \u{XX}
    import re
    return re.sub(r"\\u\{([0-9a-fA-F]+)\}", lambda m: chr(int(m.group(1), 16)), s)
