"""Discharging obligations: z3 (E-matching) -> z3 (MBQI) -> cvc5, per DESIGN §2.9/§2.10."""
from __future__ import annotations

import os
import subprocess
import tempfile
import time
from dataclasses import dataclass, field
from typing import Any, Dict, List, Optional, Tuple

import z3

from . import model as M
from .values import Obligation

PROVED, REFUTED, UNDECIDED, VACUOUS, COVERED, UNCOVERED, CANDIDATE = (
    "PROVED", "REFUTED", "UNDECIDED", "VACUOUS", "COVERED", "UNCOVERED", "CANDIDATE")

# (seed, timeout ms, smt.relevancy).  relevancy=0 instantiates on every term, not only the "relevant" ones: proofs that
# need a quantifier instance while the string solver is busy unfolding a negative Contains are found at once with it
# and only by luck without; it can also drown in instances, hence both.
# Observed on string obligations: a given seed either refutes in well under a second or spins in the sequence solver
# for minutes, so several short tries come before the long ones.
PORTFOLIO = [(7, 3000, 2), (0, 3000, 0), (3, 2000, 2), (1, 2000, 2), (2, 2000, 0), (4, 2000, 2),
             (0, 8000, 2), (5, 6000, 0), (9, 6000, 2), (13, 6000, 2),
             (3, 20000, 2), (6, 20000, 0), (11, 45000, 2)]
SHORT_MAX_MS = 8000
SHORT_BUDGET = False     # canaries: a mutant only has to stop being provable; the short tries of the portfolio suffice
RLIMIT = int(os.environ.get("PYVC_RLIMIT", "800000000"))
TIMEOUT_MS = int(os.environ.get("PYVC_TIMEOUT_MS", "120000"))


@dataclass
class Verdict:
    name: str
    kind: str
    status: str
    backend: str = ""
    time_s: float = 0.0
    model: Any = None
    reason: str = ""
    prop_ids: Tuple[str, ...] = ()
    text: str = ""
    solver_output: str = ""


def _mk_solver(base: List[Any], mbqi: bool) -> z3.Solver:
    s = z3.SimpleSolver()
    s.set("auto_config", False)
    s.set("smt.mbqi", mbqi)
    s.set("timeout", TIMEOUT_MS)
    s.set("rlimit", RLIMIT)
    s.set("random_seed", 0)
    s.set("smt.random_seed", 0)
    for a in base:
        s.add(a)
    return s


def _cvc5(smt2: str, timeout_s: int = 60) -> str:
    with tempfile.NamedTemporaryFile("w", suffix=".smt2", delete=False) as f:
        f.write("(set-logic ALL)\n" + smt2 + "\n(check-sat)\n")
        path = f.name
    try:
        p = subprocess.run(["/usr/bin/cvc5", "--strings-exp", f"--tlimit={timeout_s * 1000}", path],
                           capture_output=True, text=True, timeout=timeout_s + 5)
        out = (p.stdout or "").strip().splitlines()
        return out[0] if out else "unknown"
    except Exception:
        return "unknown"
    finally:
        os.unlink(path)


def has_quant(e: Any, _cache: Dict[int, bool] = {}) -> bool:
    k = e.get_id()
    if k in _cache:
        return _cache[k]
    if z3.is_quantifier(e):
        r = True
    elif z3.is_app(e):
        r = any(has_quant(c) for c in e.children())
    else:
        r = False
    _cache[k] = r
    return r


def _ground_terms(es: List[Any], decl_names: Tuple[str, ...]) -> List[Any]:
    seen: Dict[int, Any] = {}
    out: List[Any] = []

    def go(e: Any, bound: bool) -> None:
        if e.get_id() in seen:
            return
        seen[e.get_id()] = e
        if z3.is_quantifier(e):
            return
        if z3.is_app(e):
            if e.decl().name() in decl_names:
                out.append(e)
            for c in e.children():
                go(c, bound)
    for e in es:
        go(e, False)
    return out


def relaxed_candidate(ob: Obligation, goal: Any, timeout_ms: int = 20000) -> Optional[z3.ModelRef]:
    """Candidate counter-model: drop every quantified assumption (a weakening), keep the negated goal
    exactly, add ground instances of the size axioms.  Only a *candidate*: the native replay decides."""
    s = z3.Solver()
    s.set("timeout", timeout_ms)
    qf = [a for a in ob.assumptions if not has_quant(a)]
    for a in qf:
        s.add(a)
    ng = z3.Not(goal)
    s.add(ng)
    for t in _ground_terms(qf + [ng], ("llen", "klen")):
        s.add(t >= 0)
    r = s.check()
    if r == z3.sat:
        return s.model()
    return None


def split_goal(goal: Any, hyps: Optional[List[Any]] = None, depth: int = 0) -> List[Tuple[List[Any], Any]]:
    """Decompose a goal into leaves (extra hypotheses, leaf goal): conjunctions are split, leading
    universal quantifiers are replaced by fresh constants, implications move their antecedent into
    the hypotheses.  Proving every leaf proves the goal (and vice versa)."""
    hyps = list(hyps or [])
    if depth > 12:
        return [(hyps, goal)]
    if z3.is_and(goal):
        out: List[Tuple[List[Any], Any]] = []
        for c in goal.children():
            out += split_goal(c, hyps, depth + 1)
        return out
    if z3.is_quantifier(goal) and goal.is_forall():
        vs = [M.fresh("sk_" + goal.var_name(i), goal.var_sort(i)) for i in range(goal.num_vars())]
        body = z3.substitute_vars(goal.body(), *reversed(vs))
        return split_goal(body, hyps, depth + 1)
    if z3.is_implies(goal):
        a, b = goal.children()
        return split_goal(b, hyps + [a], depth + 1)
    if z3.is_eq(goal) and z3.is_bool(goal.arg(0)) and depth < 6 \
            and (has_quant(goal) or not z3.is_const(goal.arg(0))):
        a, b = goal.children()
        return split_goal(b, hyps + [a], depth + 1) + split_goal(a, hyps + [b], depth + 1)
    if z3.is_or(goal):
        neg = [c.arg(0) for c in goal.children() if z3.is_not(c)]
        pos = [c for c in goal.children() if not z3.is_not(c)]
        if neg and len(pos) == 1:
            return split_goal(pos[0], hyps + neg, depth + 1)
    return [(hyps, goal)]


def discharge(ob: Obligation, base: List[Any], use_cvc5: bool = True, second_opinion: bool = False) -> Verdict:
    """Discharge an obligation leaf by leaf (see split_goal)."""
    if ob.kind == "cover":
        return discharge1(ob, base, use_cvc5, second_opinion)
    goal = z3.simplify(ob.goal) if z3.is_expr(ob.goal) else z3.BoolVal(bool(ob.goal))
    leaves = split_goal(goal)
    if len(leaves) <= 1 and not leaves[0][0]:
        return discharge1(ob, base, use_cvc5, second_opinion)
    t0 = time.time()
    backends = set()
    last = None
    for hyps, g in leaves:
        sub = Obligation(name=ob.name, kind=ob.kind, assumptions=list(ob.assumptions) + hyps, goal=g,
                         prop_ids=ob.prop_ids, text=ob.text, inputs=ob.inputs, meta=ob.meta)
        v = discharge1(sub, base, use_cvc5, second_opinion)
        last = v
        backends.add(v.backend)
        if v.status != PROVED:
            v.time_s = time.time() - t0
            return v
    last.backend = "+".join(sorted(b for b in backends if b))
    last.time_s = time.time() - t0
    return last


def discharge1(ob: Obligation, base: List[Any], use_cvc5: bool = True, second_opinion: bool = False) -> Verdict:
    t0 = time.time()
    v = Verdict(ob.name, ob.kind, UNDECIDED, prop_ids=ob.prop_ids, text=ob.text)
    if ob.kind == "cover":
        s = _mk_solver(base, False)
        for a in ob.assumptions:
            s.add(a)
        r = s.check()
        if r == z3.unsat:
            v.status, v.backend = UNCOVERED, "z3-ematch"
            v.reason = "contradictory precondition"
        else:
            v.status, v.backend = COVERED, "z3-ematch"
        v.time_s = time.time() - t0
        return v
    goal = z3.simplify(ob.goal) if z3.is_expr(ob.goal) else z3.BoolVal(bool(ob.goal))
    cand_tried = False
    # portfolio: E-matching proofs are sensitive to the solver's random choices; a proof found under
    # any seed is a proof.  Short budgets first, the long budget only as the last resort.
    saturated = set()
    for seed, tmo, relevancy in PORTFOLIO:
        if relevancy in saturated or (SHORT_BUDGET and tmo > SHORT_MAX_MS):
            continue
        s = _mk_solver(base, False)
        s.set("timeout", tmo)
        s.set("smt.relevancy", relevancy)
        s.set("random_seed", seed)
        s.set("smt.random_seed", seed)
        for a in ob.assumptions:
            s.add(a)
        s.add(z3.Not(goal))
        r = s.check()
        if r == z3.unsat:
            v.status, v.backend = PROVED, "z3-ematch"
            v.time_s = time.time() - t0
            return v
        if r == z3.sat:
            v.status, v.backend, v.model, v.solver_output = REFUTED, "z3-ematch", s.model(), "sat"
            v.time_s = time.time() - t0
            return v
        if "quantifiers" in s.reason_unknown():
            saturated.add(relevancy)      # saturated: more time will not help (under this relevancy setting)
            if relevancy == 0:
                break                     # every term was a trigger candidate: go on to the candidate model
    if SHORT_BUDGET:
        v.time_s = time.time() - t0
        v.reason = "not proved within the short budget"
        return v
    for backend, mbqi in (("z3-ematch", False), ("z3-mbqi", True)):
        if mbqi and not cand_tried:
            cand_tried = True
            m = relaxed_candidate(ob, goal)
            if m is not None:
                v.status, v.backend, v.model = CANDIDATE, "z3-relaxed", m
                v.solver_output = "unknown from z3-ematch (%s); sat after dropping quantified assumptions" % v.reason
                break
        s = _mk_solver(base, mbqi)
        s.set("timeout", min(TIMEOUT_MS, 30000))
        for a in ob.assumptions:
            s.add(a)
        s.add(z3.Not(goal))
        r = s.check()
        if r == z3.unknown and not mbqi:
            # E-matching saturated without refuting: its current model satisfies the ground part and
            # every quantifier instance produced so far -- a much better candidate than the relaxed one
            try:
                m0 = s.model()
                if len(m0) > 0:
                    v.status, v.backend, v.model = CANDIDATE, "z3-ematch-candidate", m0
                    v.reason = s.reason_unknown()
                    v.solver_output = "unknown from z3-ematch (%s); candidate model of the saturated state" % v.reason
                    break
            except z3.Z3Exception:
                pass
        if r == z3.unsat:
            v.status, v.backend = PROVED, backend
            break
        if r == z3.sat:
            v.status, v.backend = REFUTED, backend
            v.model = s.model()
            v.solver_output = "sat"
            break
        v.reason = s.reason_unknown()
    if v.status == UNDECIDED and use_cvc5:
        s = _mk_solver(base, False)
        for a in ob.assumptions:
            s.add(a)
        s.add(z3.Not(goal))
        try:
            r = _cvc5(s.to_smt2().replace("(check-sat)", ""))
        except Exception as e:   # pragma: no cover
            r = "unknown"
        if r == "unsat":
            v.status, v.backend = PROVED, "cvc5"
        elif r == "sat":
            v.status, v.backend, v.solver_output = REFUTED, "cvc5", "sat (cvc5, no model imported)"
    if v.status == REFUTED and v.backend == "z3-ematch" and v.model is not None:
        # with quantified assumptions an E-matching `sat` is only a candidate model: confirm with MBQI
        # where cheap; the native replay is the real arbiter (DESIGN §2.10).
        pass
    v.time_s = time.time() - t0
    return v
