"""In-memory AST mutants of the functions under contract (DESIGN §2.14, canaries).

`all_mutants(info)` enumerates single-point rewrites of the real function's AST; a mutant is *killed*
when at least one obligation of the function is no longer PROVED.  Used (a) as a development tool to
measure how strong the contracts are, (b) by the checks: a committed list of canaries must be killed
on every run, otherwise the engine/contract is unsound or vacuous (exit 3).
"""
from __future__ import annotations

import ast
import copy
from typing import Any, Callable, Iterator, List, Tuple

CMP_SWAP = {ast.Lt: ast.LtE, ast.LtE: ast.Lt, ast.Gt: ast.GtE, ast.GtE: ast.Gt, ast.Eq: ast.NotEq,
            ast.NotEq: ast.Eq, ast.Is: ast.IsNot, ast.IsNot: ast.Is, ast.In: ast.NotIn, ast.NotIn: ast.In}


class _Counter(ast.NodeVisitor):
    def __init__(self) -> None:
        self.sites: List[Tuple[str, int]] = []

    def generic_visit(self, node: ast.AST) -> None:
        if isinstance(node, ast.Compare):
            for k, op in enumerate(node.ops):
                if type(op) in CMP_SWAP:
                    self.sites.append(("cmp", len(self.sites)))
        if isinstance(node, ast.If):
            self.sites.append(("negif", len(self.sites)))
        if isinstance(node, ast.BoolOp):
            self.sites.append(("boolop", len(self.sites)))
        if isinstance(node, ast.Constant) and isinstance(node.value, int) and not isinstance(node.value, bool):
            self.sites.append(("const", len(self.sites)))
        if isinstance(node, ast.Call) and isinstance(node.func, ast.Name) and node.func.id == "deepcopy":
            self.sites.append(("nodeepcopy", len(self.sites)))
        if isinstance(node, ast.BinOp) and isinstance(node.op, (ast.Add, ast.Sub)):
            self.sites.append(("addsub", len(self.sites)))
        if isinstance(node, (ast.Continue,)):
            self.sites.append(("cont2pass", len(self.sites)))
        if isinstance(node, ast.Break):
            self.sites.append(("break2pass", len(self.sites)))
        if isinstance(node, (ast.Expr, ast.AugAssign)) and not (isinstance(node, ast.Expr) and isinstance(node.value, ast.Constant)):
            self.sites.append(("delstmt", len(self.sites)))
        if isinstance(node, ast.Call) and len(node.args) >= 3 and isinstance(node.func, ast.Name) \
                and node.func.id.endswith("Error"):
            self.sites.append(("swapargs", len(self.sites)))
        if isinstance(node, ast.Return) and node.value is not None and isinstance(node.value, ast.Call) \
                and isinstance(node.value.func, ast.Attribute) and node.value.func.attr in ("add_error", "add_errors"):
            self.sites.append(("dropadd", len(self.sites)))
        super().generic_visit(node)


class _Apply(ast.NodeTransformer):
    def __init__(self, target: int) -> None:
        self.target = target
        self.n = 0
        self.desc = ""

    def _hit(self) -> bool:
        h = self.n == self.target
        self.n += 1
        return h

    def generic_visit(self, node: ast.AST) -> ast.AST:
        if isinstance(node, ast.Compare):
            for k, op in enumerate(node.ops):
                if type(op) in CMP_SWAP:
                    if self._hit():
                        node.ops[k] = CMP_SWAP[type(op)]()
                        self.desc = f"line {node.lineno}: {type(op).__name__} -> {CMP_SWAP[type(op)].__name__}"
        if isinstance(node, ast.If):
            if self._hit():
                node.test = ast.copy_location(ast.UnaryOp(ast.Not(), node.test), node.test)
                self.desc = f"line {node.lineno}: negated if-condition"
        if isinstance(node, ast.BoolOp):
            if self._hit():
                node.op = ast.Or() if isinstance(node.op, ast.And) else ast.And()
                self.desc = f"line {node.lineno}: and <-> or"
        if isinstance(node, ast.Constant) and isinstance(node.value, int) and not isinstance(node.value, bool):
            if self._hit():
                self.desc = f"line {node.lineno}: constant {node.value} -> {node.value + 1}"
                node.value = node.value + 1
        if isinstance(node, ast.Call) and isinstance(node.func, ast.Name) and node.func.id == "deepcopy":
            if self._hit():
                self.desc = f"line {node.lineno}: deepcopy(x) -> x"
                r = super().generic_visit(node)
                return r.args[0]          # type: ignore
        if isinstance(node, ast.BinOp) and isinstance(node.op, (ast.Add, ast.Sub)):
            if self._hit():
                self.desc = f"line {node.lineno}: + <-> -"
                node.op = ast.Sub() if isinstance(node.op, ast.Add) else ast.Add()
        if isinstance(node, ast.Continue):
            if self._hit():
                self.desc = f"line {node.lineno}: continue -> pass"
                return ast.copy_location(ast.Pass(), node)
        if isinstance(node, ast.Break):
            if self._hit():
                self.desc = f"line {node.lineno}: break -> pass"
                return ast.copy_location(ast.Pass(), node)
        if isinstance(node, (ast.Expr, ast.AugAssign)) and not (isinstance(node, ast.Expr) and isinstance(node.value, ast.Constant)):
            if self._hit():
                self.desc = f"line {node.lineno}: statement deleted"
                return ast.copy_location(ast.Pass(), node)
        if isinstance(node, ast.Call) and len(node.args) >= 3 and isinstance(node.func, ast.Name) \
                and node.func.id.endswith("Error"):
            if self._hit():
                self.desc = f"line {node.lineno}: last two arguments of {node.func.id} swapped"
                node.args[-1], node.args[-2] = node.args[-2], node.args[-1]
        if isinstance(node, ast.Return) and node.value is not None and isinstance(node.value, ast.Call) \
                and isinstance(node.value.func, ast.Attribute) and node.value.func.attr in ("add_error", "add_errors"):
            if self._hit():
                self.desc = f"line {node.lineno}: return result.add_error(..) -> return result"
                node.value = node.value.func.value
        return super().generic_visit(node)


def count_sites(fnode: ast.FunctionDef) -> int:
    c = _Counter()
    for st in fnode.body:
        c.visit(st)
    return len(c.sites)


def mutant(info: Any, k: int) -> Tuple[Any, str]:
    new = copy.copy(info)
    node = copy.deepcopy(info.node)
    ap = _Apply(k)
    node.body = [ap.visit(st) for st in node.body]
    ast.fix_missing_locations(node)
    new.node = node
    return new, ap.desc


def all_mutants(info: Any) -> Iterator[Tuple[int, Callable[[Any], Any], str]]:
    n = count_sites(info.node)
    for k in range(n):
        m, desc = mutant(info, k)
        if desc:
            yield k, (lambda _i, m=m: m), desc
