"""Source loader: re-reads /repo/d42/**/*.py on every run and builds a class / function table.

Nothing from /repo is copied or re-typed: function bodies are `ast` nodes of the current working
tree; every function under contract gets the sha256 of its source segment recorded in evidence.
"""
from __future__ import annotations

import ast
import hashlib
import os
import string
import sys
from dataclasses import dataclass, field
from typing import Any, Dict, List, Optional, Tuple

REPO = os.environ.get("PYVC_REPO", "/repo")


@dataclass
class FuncInfo:
    module: str            # dotted module name, e.g. d42.validation._validator
    relpath: str           # path relative to repo root
    qualname: str          # e.g. Validator.visit_int
    node: ast.FunctionDef
    cls: Optional[str]     # owning class name or None
    is_property: bool = False
    is_classmethod: bool = False
    is_staticmethod: bool = False
    sha256: str = ""
    src: str = ""

    @property
    def name(self) -> str:
        return self.node.name


@dataclass
class ClassInfo:
    module: str
    relpath: str
    name: str
    node: ast.ClassDef
    bases: List[str]                     # base class *names* as written (resolved lazily)
    generic_arg: Optional[str] = None    # X in `class C(Schema[X])`
    methods: Dict[str, FuncInfo] = field(default_factory=dict)
    class_attrs: Dict[str, ast.expr] = field(default_factory=dict)


@dataclass
class ModuleInfo:
    name: str
    relpath: str
    tree: ast.Module
    src: str
    imports: Dict[str, Tuple[str, Optional[str]]] = field(default_factory=dict)  # local -> (module, name|None)
    funcs: Dict[str, FuncInfo] = field(default_factory=dict)
    classes: Dict[str, ClassInfo] = field(default_factory=dict)
    consts: Dict[str, ast.expr] = field(default_factory=dict)
    star_all: List[str] = field(default_factory=list)


def _static_truth(test: ast.expr) -> Optional[bool]:
    """Decide `if sys.version_info >= (3, 10)` / TYPE_CHECKING style tests for the 3.12 interpreter
    the repository's tests use.  Returns None when the test is not of that form."""
    if isinstance(test, ast.Name) and test.id == "TYPE_CHECKING":
        return False
    if isinstance(test, ast.Compare) and len(test.ops) == 1:
        l, r = test.left, test.comparators[0]
        if (isinstance(l, ast.Attribute) and isinstance(l.value, ast.Name) and l.value.id == "sys"
                and l.attr == "version_info" and isinstance(r, ast.Tuple)):
            try:
                tup = tuple(ast.literal_eval(e) for e in r.elts)
            except Exception:
                return None
            cur = (3, 12)
            op = test.ops[0]
            if isinstance(op, ast.GtE):
                return cur >= tup
            if isinstance(op, ast.Gt):
                return cur > tup
            if isinstance(op, ast.Lt):
                return cur < tup
            if isinstance(op, ast.LtE):
                return cur <= tup
    return None


class Repo:
    def __init__(self, root: str = REPO) -> None:
        self.root = root
        self.modules: Dict[str, ModuleInfo] = {}
        self.classes: Dict[str, ClassInfo] = {}     # by class name (unique in d42)
        self._load()

    # ------------------------------------------------------------------ loading
    def _load(self) -> None:
        pkg = os.path.join(self.root, "d42")
        for dirpath, dirnames, filenames in os.walk(pkg):
            dirnames[:] = [d for d in dirnames if d != "__pycache__"]
            for fn in sorted(filenames):
                if not fn.endswith(".py"):
                    continue
                full = os.path.join(dirpath, fn)
                rel = os.path.relpath(full, self.root)
                mod = rel[:-3].replace(os.sep, ".")
                if mod.endswith(".__init__"):
                    mod = mod[: -len(".__init__")]
                with open(full, "r", encoding="utf-8") as f:
                    src = f.read()
                tree = ast.parse(src, filename=full)
                mi = ModuleInfo(mod, rel, tree, src)
                self.modules[mod] = mi
                self._scan_body(mi, tree.body, is_pkg=fn == "__init__.py")
        for mi in self.modules.values():
            for ci in mi.classes.values():
                self.classes[ci.name] = ci
        # `Schema.__override__("__eq__", eq)`-style registrations executed at import time
        self.overrides: Dict[str, Tuple[str, str]] = {}
        for mi in self.modules.values():
            for st in mi.tree.body:
                if (isinstance(st, ast.Expr) and isinstance(st.value, ast.Call)
                        and isinstance(st.value.func, ast.Attribute) and st.value.func.attr == "__override__"
                        and isinstance(st.value.func.value, ast.Name) and st.value.func.value.id == "Schema"
                        and len(st.value.args) == 2 and isinstance(st.value.args[1], ast.Name)):
                    a0 = st.value.args[0]
                    if isinstance(a0, ast.Constant) and isinstance(a0.value, str):
                        meth = a0.value
                    elif isinstance(a0, ast.Attribute) and a0.attr == "__name__" and isinstance(a0.value, ast.Attribute):
                        meth = a0.value.attr
                    else:
                        continue
                    self.overrides[meth] = (mi.name, st.value.args[1].id)

    def _scan_body(self, mi: ModuleInfo, body: List[ast.stmt], is_pkg: bool) -> None:
        for st in body:
            if isinstance(st, ast.If):
                t = _static_truth(st.test)
                if t is True:
                    self._scan_body(mi, st.body, is_pkg)
                elif t is False:
                    self._scan_body(mi, st.orelse, is_pkg)
                continue
            if isinstance(st, ast.ImportFrom):
                base = mi.name if is_pkg else mi.name.rsplit(".", 1)[0]
                if st.level:
                    parts = (mi.name if is_pkg else mi.name.rsplit(".", 1)[0]).split(".")
                    up = st.level - 1
                    if up:
                        parts = parts[:-up]
                    base = ".".join(parts)
                    target = base + ("." + st.module if st.module else "")
                else:
                    target = st.module or ""
                for a in st.names:
                    mi.imports[a.asname or a.name] = (target, a.name)
            elif isinstance(st, ast.Import):
                for a in st.names:
                    mi.imports[a.asname or a.name.split(".")[0]] = (a.name, None)
            elif isinstance(st, ast.FunctionDef):
                mi.funcs[st.name] = self._mkfunc(mi, st, None)
            elif isinstance(st, ast.ClassDef):
                self._scan_class(mi, st)
            elif isinstance(st, ast.Assign) and len(st.targets) == 1 and isinstance(st.targets[0], ast.Name):
                mi.consts[st.targets[0].id] = st.value
            elif isinstance(st, ast.AnnAssign) and isinstance(st.target, ast.Name) and st.value is not None:
                mi.consts[st.target.id] = st.value

    def _mkfunc(self, mi: ModuleInfo, node: ast.FunctionDef, cls: Optional[str]) -> FuncInfo:
        seg = ast.get_source_segment(mi.src, node) or ""
        decos = []
        for d in node.decorator_list:
            if isinstance(d, ast.Name):
                decos.append(d.id)
            elif isinstance(d, ast.Attribute):
                decos.append(d.attr)
        q = f"{cls}.{node.name}" if cls else node.name
        return FuncInfo(mi.name, mi.relpath, q, node, cls,
                        is_property="property" in decos,
                        is_classmethod="classmethod" in decos,
                        is_staticmethod="staticmethod" in decos,
                        sha256=hashlib.sha256(seg.encode()).hexdigest(), src=seg)

    def _scan_class(self, mi: ModuleInfo, node: ast.ClassDef) -> None:
        bases: List[str] = []
        generic_arg = None
        for b in node.bases:
            if isinstance(b, ast.Name):
                bases.append(b.id)
            elif isinstance(b, ast.Subscript) and isinstance(b.value, ast.Name):
                bases.append(b.value.id)
                if generic_arg is None and isinstance(b.slice, ast.Name):
                    generic_arg = b.slice.id
            elif isinstance(b, ast.Attribute):
                bases.append(b.attr)
        ci = ClassInfo(mi.name, mi.relpath, node.name, node, bases, generic_arg)

        def scan(body: List[ast.stmt]) -> None:
            for st in body:
                if isinstance(st, ast.FunctionDef):
                    ci.methods[st.name] = self._mkfunc(mi, st, node.name)
                elif isinstance(st, ast.If):
                    t = _static_truth(st.test)
                    if t is True:
                        scan(st.body)
                    elif t is False:
                        scan(st.orelse)
                elif isinstance(st, ast.Assign) and len(st.targets) == 1 and isinstance(st.targets[0], ast.Name):
                    ci.class_attrs[st.targets[0].id] = st.value
                elif isinstance(st, ast.AnnAssign) and isinstance(st.target, ast.Name) and st.value is not None:
                    ci.class_attrs[st.target.id] = st.value
        scan(node.body)
        mi.classes[node.name] = ci

    # ------------------------------------------------------------------ queries
    def func(self, relpath: str, qualname: str) -> FuncInfo:
        for mi in self.modules.values():
            if mi.relpath == relpath:
                if "." in qualname:
                    c, m = qualname.split(".", 1)
                    return mi.classes[c].methods[m]
                return mi.funcs[qualname]
        raise KeyError((relpath, qualname))

    def mro(self, cname: str) -> List[str]:
        """Linearised ancestors by depth-first left-to-right (d42 has single inheritance chains)."""
        out: List[str] = []

        def go(n: str) -> None:
            if n in out:
                return
            out.append(n)
            ci = self.classes.get(n)
            if ci:
                for b in ci.bases:
                    go(b)
        go(cname)
        return out

    def lookup_method(self, cname: str, mname: str) -> Optional[FuncInfo]:
        for c in self.mro(cname):
            ci = self.classes.get(c)
            if ci and mname in ci.methods:
                return ci.methods[mname]
        return None

    def is_subclass(self, cname: str, base: str) -> bool:
        return base in self.mro(cname)

    def props_class_of(self, schema_cls: str) -> Optional[str]:
        """`self.__orig_bases__[0].__args__[0]`: the subscript of the first base of the class
        definition (DESIGN Appendix C class-table rule)."""
        for c in self.mro(schema_cls):
            ci = self.classes.get(c)
            if ci and ci.generic_arg and ci.generic_arg in self.classes:
                return ci.generic_arg
            if ci and ci.generic_arg:
                # TypeVar bound: resolve `TypeVar("X", bound=Y)` in the defining module
                mi = self.modules[ci.module]
                e = mi.consts.get(ci.generic_arg)
                if isinstance(e, ast.Call):
                    for kw in e.keywords:
                        if kw.arg == "bound":
                            if isinstance(kw.value, ast.Name):
                                return kw.value.id
                            if isinstance(kw.value, ast.Constant):
                                return str(kw.value.value)
        return None

    def resolve_name(self, module: str, name: str, _depth: int = 0) -> Tuple[str, Any]:
        """Resolve a global name used inside `module`.
        Returns (kind, payload): kind in class|func|const|ext|module|unknown."""
        mi = self.modules.get(module)
        if mi is None or _depth > 12:
            return ("ext", (module, name))
        if name in mi.classes:
            return ("class", mi.classes[name])
        if name in mi.funcs:
            return ("func", mi.funcs[name])
        if name in mi.imports:
            tmod, tname = mi.imports[name]
            if tname is None:
                return ("module", tmod)
            if tmod in self.modules:
                # maybe a submodule import
                r = self.resolve_name(tmod, tname, _depth + 1)
                if r[0] != "unknown":
                    return r
                if tmod + "." + tname in self.modules:
                    return ("module", tmod + "." + tname)
                return ("unknown", (tmod, tname))
            return ("ext", (tmod, tname))
        if name in mi.consts:
            return ("const", (mi, mi.consts[name]))
        return ("unknown", (module, name))


CONST_ENV = {"string": string, "float": float, "int": int, "sys": sys}


def eval_const(mi: ModuleInfo, expr: ast.expr, repo: Repo) -> Any:
    """Evaluate a module-level constant expression (e.g. `-(2 ** 63)`, `string.digits + ...`)
    in a tiny environment.  Names defined in the same module are resolved recursively."""
    names = {n.id for n in ast.walk(expr) if isinstance(n, ast.Name)}
    env = dict(CONST_ENV)
    for n in names:
        if n in env:
            continue
        k, p = repo.resolve_name(mi.name, n)
        if k == "const":
            env[n] = eval_const(p[0], p[1], repo)
        else:
            raise ValueError(f"cannot evaluate constant {ast.dump(expr)}: name {n} is {k}")
    return eval(compile(ast.Expression(expr), "<const>", "eval"), {"__builtins__": {}}, env)
