"""Sidecar contract registry, call-site application and the per-function verification driver.

A contract is a Python function `def _(c): ...` over a context `c` that works in two modes:
  * verify: `c.sym(name, hint)` creates a fresh symbolic parameter; `requires` become the entry
    assumptions; the real body is executed symbolically; every `ensures` / `raises` clause becomes one
    named obligation per path;
  * call: `c.sym(name)` is the actual argument; `requires` become call-site obligations; the
    `ensures` are assumed of a fresh result (the callee's body is never looked at).
"""
from __future__ import annotations

import ast
import time
from dataclasses import dataclass, field
from typing import Any, Callable, Dict, List, Optional, Sequence, Tuple

import z3

from . import model as M
from .model import Obj
from .source import FuncInfo, Repo
from .values import (NORMAL, Builtin, CellRef, Cls, DictC, Fn, Kw, ListC, ObjC, Obligation, Raised,
                     Ret, State, T, Tup, Unsupported)


@dataclass
class Contract:
    relpath: str
    qualname: str
    fn: Callable[[Any], None]
    props: Tuple[str, ...] = ()
    group: str = ""
    trusted: bool = False       # assumed, body not verified (listed in trusted_base)
    note: str = ""
    func: str = ""              # qualname of the function whose body is verified (default: qualname)
    variant: str = ""           # e.g. "relaxed": a second contract of the same function for another receiver class


@dataclass
class Invariant:
    relpath: str
    qualname: str
    loop: int
    fn: Callable[[Any, Any], Any]
    carried: Tuple[str, ...] = ()


class Post:
    """Post-state accessor handed to `ensures` lambdas."""

    def __init__(self, ex, st: State, pre_ph: Any, pre_alloc: Any) -> None:
        self.ex = ex
        self.st = st
        self.ph = st.ph
        self.alloc = st.alloc
        self.pre_ph = pre_ph
        self.pre_alloc = pre_alloc

    def pseq(self, p: Any) -> Any:
        return z3.Select(self.ph, p)


class CCtx:
    def __init__(self, reg: "Registry", ex, st: State, mode: str, info: Optional[FuncInfo],
                 args: Optional[Dict[str, Any]] = None) -> None:
        self.reg = reg
        self.ex = ex
        self.st = st
        self.mode = mode
        self.info = info
        self.args: Dict[str, Any] = dict(args or {})
        self.req: List[Tuple[str, Any]] = []
        self.ens: List[Tuple[str, Callable, Tuple[str, ...]]] = []
        self.exc_ens: List[Tuple[str, str, Callable, Tuple[str, ...]]] = []
        self.allowed: List[str] = []
        self.raise_when: Dict[str, Any] = {}
        self.ret_hint: Optional[str] = None
        self.touches_paths = False
        self.self_builder: Optional[Tuple[str, tuple]] = None
        self.raise_props: Tuple[str, ...] = ()
        self.ct = ex.ct
        self.pre_ph = st.ph
        self.pre_alloc = st.alloc
        self.result_facts: List[Callable] = []
        self.mut: List[Tuple[str, str, Callable]] = []
        self.pure_result: Optional[Callable] = None
        self.regions: List[Tuple[str, str, Any]] = []

    # ---- parameters
    def sym(self, name: str, hint: Optional[str] = None, kind: str = "obj") -> Any:
        """z3 term of parameter `name` (created fresh in verify mode)."""
        if name in self.args:
            v = self.args[name]
            if isinstance(v, T) and hint and v.hint is None:
                self.args[name] = T(v.z, hint)
            return self.ex.term(v, self.st)
        if self.mode != "verify":
            raise Unsupported(f"contract refers to parameter {name} which the call does not bind")
        z = z3.Const("p_" + name, Obj)
        self.args[name] = T(z, hint)
        return z

    def declare(self, name: str, hint: Optional[str] = None) -> None:
        """Like sym() but without freezing the actual argument in call mode (for mutated receivers)."""
        if name in self.args or self.mode != "verify":
            return
        self.args[name] = T(z3.Const("p_" + name, Obj), hint)

    def val(self, name: str) -> Any:
        return self.args[name]

    def has_arg(self, name: str) -> bool:
        return name in self.args

    def kwargs(self, name: str = "kwargs") -> Any:
        if name in self.args:
            return self.args[name].z if isinstance(self.args[name], Kw) else None
        z = z3.Const("p_" + name, Obj)
        self.args[name] = Kw(z)
        return z

    def built_self(self, cname: str, *ctor_args: Any, **ctor_kwargs: Any) -> None:
        """verify mode: `self` is the object built by `cname(*ctor_args, **ctor_kwargs)` through the real __init__."""
        self.self_builder = (cname, ctor_args, ctor_kwargs)

    # ---- clauses
    def requires(self, f: Any, name: str = "") -> None:
        self.req.append((name or f"r{len(self.req)}", f))

    def ensures(self, name: str, fn: Callable, props: Tuple[str, ...] = ()) -> None:
        self.ens.append((name, fn, tuple(props)))

    def ensures_exc(self, cls: str, name: str, fn: Callable, props: Tuple[str, ...] = ()) -> None:
        self.exc_ens.append((cls, name, fn, tuple(props)))

    def raises(self, *classes: str, props: Tuple[str, ...] = ()) -> None:
        self.allowed = list(classes)
        self.raise_props = tuple(props)

    def raises_when(self, cls: str, cond: Any) -> None:
        if cls not in self.allowed:
            self.allowed.append(cls)
        self.raise_when[cls] = cond

    def returns(self, hint: Optional[str]) -> None:
        self.ret_hint = hint

    def paths(self) -> None:
        """The function allocates PathHolders / may be handed some: callers get the frame axiom."""
        self.touches_paths = True

    def known_region(self, region_id: str, match: str, formula: Any) -> None:
        """A listed known finding (known_findings.jsonl): while its witness still fails natively, the
        obligations whose name contains `match` are proved on the complement of `formula` only."""
        self.regions.append((region_id, match, formula))

    def reproducible(self, when: Any = None, props: Tuple[str, ...] = ("C17",)) -> None:
        """C17 (non-interference by self-composition): on every return path the result is the same in a
        second run that differs only in the interpreter's hash seed, the clock and OS entropy."""
        self.repro = (when, tuple(props))

    def mutates(self, param: str, attr_: str, rel: Callable) -> None:
        """`param.attr_` (a list owned by the object) is updated in place: rel(old, new) -> formula."""
        self.mut.append((param, attr_, rel))


@dataclass
class Lemma:
    name: str
    fn: Callable[[Any], None]
    props: Tuple[str, ...] = ()


class LemmaCtx:
    """A lemma over contracts / specification functions: a list of closed obligations."""

    def __init__(self, ct, name: str, props: Tuple[str, ...]) -> None:
        self.ct = ct
        self.name = name
        self.props = props
        self.obligations: List[Obligation] = []

    def oblige(self, name: str, assumptions: List[Any], goal: Any, inputs: Optional[Dict[str, Any]] = None,
               meta: Optional[Dict[str, Any]] = None, text: str = "", kind: str = "lemma") -> None:
        self.obligations.append(Obligation(name=f"{self.name}:{name}", kind=kind, assumptions=list(assumptions),
                                           goal=goal, prop_ids=self.props, text=text or name,
                                           inputs=dict(inputs or {}), meta=dict(meta or {})))


class Registry:
    def __init__(self) -> None:
        self.lemmas: Dict[str, Lemma] = {}
        self.axiom_fns: List[Callable[[Any], List[Any]]] = []     # spec-level definitional axioms
        self.abstract: Dict[str, Contract] = {}
        self.contracts: Dict[Tuple[str, str], Contract] = {}
        self.accept: Dict[str, Contract] = {}
        self.transparent: set = set()
        self.invariants: Dict[Tuple[str, str, int], Invariant] = {}
        self.disabled: set = set()

    # ---- decorators
    def contract(self, relpath: str, qualname: str, props: Sequence[str] = (), group: str = "",
                 trusted: bool = False, note: str = "", variant: str = ""):
        def deco(fn):
            key = qualname + ("@" + variant if variant else "")
            self.contracts[(relpath, key)] = Contract(relpath, key, fn, tuple(props), group, trusted, note,
                                                      func=qualname, variant=variant)
            return fn
        return deco

    def lemma(self, name: str, props: Sequence[str] = ()):
        def deco(fn):
            self.lemmas[name] = Lemma(name, fn, tuple(props))
            return fn
        return deco

    def accept_contract(self, visitor_cls: str, props: Sequence[str] = ()):
        def deco(fn):
            self.accept[visitor_cls] = Contract("<accept>", visitor_cls, fn, tuple(props))
            return fn
        return deco

    def abstract_contract(self, name: str, props: Sequence[str] = ()):
        def deco(fn):
            self.abstract[name] = Contract("<abstract>", name, fn, tuple(props))
            return fn
        return deco

    def invariant(self, relpath: str, qualname: str, loop: int = 0, carried: Sequence[str] = ()):
        def deco(fn):
            self.invariants[(relpath, qualname, loop)] = Invariant(relpath, qualname, loop, fn, tuple(carried))
            return fn
        return deco

    def mark_transparent(self, relpath: str, *qualnames: str) -> None:
        for q in qualnames:
            self.transparent.add((relpath, q))

    # ---- lookup
    def lookup(self, info: FuncInfo, ex=None, bound: Any = None, st: Any = None) -> Optional[Contract]:
        key = (info.relpath, info.qualname)
        if key in self.disabled:
            return None
        hook = getattr(self, "variant_hook", None)
        if hook is not None and bound is not None and ex is not None:
            var = hook(ex, info, bound, st)
            if var and (info.relpath, info.qualname + "@" + var) in self.contracts:
                return self.contracts[(info.relpath, info.qualname + "@" + var)]
        return self.contracts.get(key)

    def is_transparent(self, info: FuncInfo) -> bool:
        return (info.relpath, info.qualname) in self.transparent

    def lookup_invariant(self, info: FuncInfo, loop: int, ex=None) -> Optional[Invariant]:
        var = getattr(ex, "variant", "") if ex is not None else ""
        if var and getattr(ex, "current_info", None) is not None and ex.current_info.qualname == info.qualname \
                and ex.current_info.relpath == info.relpath:
            return self.invariants.get((info.relpath, info.qualname + "@" + var, loop))
        return self.invariants.get((info.relpath, info.qualname, loop))

    # ---- call-site application
    def apply(self, ex, con: Contract, info: FuncInfo, bound: Any, pos, kws, kwrest, st: State):
        env, err = ex.bind_params(info, bound, pos, kws, kwrest, st)
        if err is not None:
            return [(st, err)]
        # defaults evaluated in the callee's module
        saved = st.env
        st.env = {"__module__": info.module}
        for k, v in list(env.items()):
            if isinstance(v, tuple) and v and v[0] == "default":
                r = ex.ev(v[1], st)
                if len(r) != 1 or isinstance(r[0][1], Raised):
                    raise Unsupported("default value expression")
                env[k] = r[0][1]
            elif isinstance(v, tuple) and v and v[0] == "kwdict":
                from .values import KwD
                env[k] = KwD(tuple(v[1].items()), v[2])
        st.env = saved
        ex.opaque_calls.add(f"{info.relpath}:{info.qualname}")
        incoming = getattr(ex, "contract_args", {}).get("kwargs")
        if kwrest is not None and incoming is not None and z3.is_expr(incoming) and info.node.args.kwarg is not None \
                and "C16" in getattr(ex, "current_props", ()) and hasattr(kwrest, "z"):
            # a link of the custom-type dispatch chain: the **kwargs handed on are the incoming ones (C16)
            ex.oblige(st, f"call:{info.qualname}:kwargs-forwarded-unchanged", "requires", kwrest.z == incoming,
                      ("C16",), text="the **kwargs handed to the next link of the dispatch chain are the incoming ones")
        return self._apply(ex, con, info.qualname, info, env, st)

    def apply_accept(self, ex, member: Any, pos, kws, kwrest, st: State):
        if not pos:
            raise Unsupported("__accept__ without visitor")
        visitor = pos[0]
        vcls = ex.hint_of(visitor, st)
        con = None
        for c in ex.repo.mro(vcls) if vcls in ex.repo.classes else []:
            if c in self.accept:
                con = self.accept[c]
                break
        if con is None:
            raise Unsupported(f"no Accept contract for visitor class {vcls}")
        env: Dict[str, Any] = {"schema": member, "visitor": visitor}
        # keyword-only parameters of every visit_* default to Nil (the opaque **kwargs is assumed not to
        # carry `value` / `path` itself)
        if ex.repo.is_subclass(vcls, "Validator") or vcls == "Substitutor":
            env["value"] = T(M.NilV, "NilType")
        if ex.repo.is_subclass(vcls, "Validator"):
            env["path"] = T(M.NilV, "NilType")
        env.update(kws)
        env["kwargs"] = kwrest if kwrest is not None else Kw(ex.kw_empty)
        incoming = getattr(ex, "contract_args", {}).get("kwargs")
        if kwrest is not None and incoming is not None and z3.is_expr(incoming):
            ex.oblige(st, f"call:Accept[{con.qualname}]:kwargs-forwarded-unchanged", "requires", kwrest.z == incoming,
                      ("C16",), text="the **kwargs handed to a member's __accept__ are the incoming ones",
                      where=ex.where())
        ex.opaque_calls.add(f"Accept[{con.qualname}]")
        return self._apply(ex, con, f"Accept[{con.qualname}]", None, env, st)

    def apply_abstract(self, ex, name: str, env: Dict[str, Any], st: State):
        con = self.abstract.get(name)
        if con is None:
            raise Unsupported(f"no abstract contract {name}")
        ex.opaque_calls.add(f"Abstract[{name}]")
        return self._apply(ex, con, f"Abstract[{name}]", None, env, st)

    def apply_ctor(self, ex, con, cname, init, ref, pos, kws, kwrest, st):
        raise Unsupported("constructor contracts")

    def _apply(self, ex, con: Contract, label: str, info: Optional[FuncInfo], env: Dict[str, Any],
               st: State) -> List[Tuple[State, Any]]:
        c = CCtx(self, ex, st, "call", info, env)
        con.fn(c)
        for name, f in c.req:
            ex.oblige(st, f"call:{label}:requires[{name}]", "requires", f, con.props,
                      text=f"precondition {name} of {label}", where=ex.where())
            st.assume(f)
        outs: List[Tuple[State, Any]] = []
        cur = st
        # exceptional outcomes
        for cls in c.allowed:
            cond = c.raise_when.get(cls)
            if cond is None:
                cond = M.fresh("raises_" + cls.replace(".", "_"), M.B)
            if not ex.sat(cur, cond):
                cur.assume(z3.Not(cond))
                continue
            s_exc = cur.fork().assume(cond)
            e = M.fresh("exc")
            s_exc.assume(M.is_Ref(e), M.rcls(e) == ex.ct.id(cls))
            if c.touches_paths:
                self._havoc_paths(ex, s_exc)
            for (ecls, name, fn, props) in c.exc_ens:
                if ecls == cls:
                    s_exc.assume(fn(e, Post(ex, s_exc, c.pre_ph, c.pre_alloc)))
            outs.append((s_exc, Raised(cls, T(e, cls), f"call of {label}")))
            cur.assume(z3.Not(cond))
        if not ex.sat(cur):
            return outs
        # normal outcome
        if c.touches_paths:
            self._havoc_paths(ex, cur)
        for (param, attr_, rel) in c.mut:
            target = env[param]
            if not isinstance(target, CellRef) or not isinstance(cur.cells[target.id], ObjC):
                raise Unsupported(f"{label} mutates {param}.{attr_}, which is not a local object here")
            oc = cur.cells[target.id]
            lc = oc.get(attr_)
            if not isinstance(lc, CellRef) or not isinstance(cur.cells[lc.id], ListC):
                raise Unsupported(f"{label}: {param}.{attr_} is not a local list")
            old = cur.cells[lc.id]
            if old.frozen:
                raise Unsupported("mutation of an escaped list")
            new = M.fresh("L")
            cur.assume(M.is_Ref(new), M.rcls(new) == M.rcls(old.snap), rel(old.snap, new))
            cur.cells[lc.id] = ListC(new)
        if c.pure_result is not None:
            outs.append((cur, c.pure_result(cur)))
            return outs
        r = M.fresh("res")
        if getattr(c, "repro", None) is not None or getattr(c, "result_is_function_of_args", False):
            # a callee that is (claimed and separately proved) reproducible: its result is a function of its
            # arguments and of its position in the RNG stream -- so a caller's dependence on the hash seed
            # through an argument is not lost (C17)
            argt = [v.z for v in env.values() if isinstance(v, (T, Kw))]
            idx = getattr(ex, "_rng_idx", 0)
            ex._rng_idx = idx + 1
            fdecl = z3.Function(f"result_of_{label}_{len(argt)}".replace("[", "_").replace("]", "_").replace(".", "_"),
                                *([a.sort() for a in argt] + [M.I, Obj]))
            rr = fdecl(*(argt + [z3.IntVal(idx)]))
            cur.assume(r == rr)
        post = Post(ex, cur, c.pre_ph, c.pre_alloc)
        for (name, fn, props) in c.ens:
            cur.assume(fn(r, post))
        rv: Any = T(r, c.ret_hint)
        if getattr(c, "fresh_result", False):
            if not hasattr(ex, "fresh_terms"):
                ex.fresh_terms = set()
            ex.fresh_terms.add(r.get_id())
        if getattr(c, "returns_arg", None):
            rv = env[c.returns_arg]
        outs.append((cur, rv))
        return outs

    def _havoc_paths(self, ex, st: State) -> None:
        """Callee frame for the PathHolder heap: everything allocated before the call keeps its
        content; the allocation counter only grows."""
        ph1 = M.fresh("ph", z3.ArraySort(Obj, M.SeqObj))
        a1 = M.fresh("alloc", M.I)
        p = z3.Const("p", Obj)
        st.assume(a1 >= st.alloc,
                  z3.ForAll([p], z3.Implies(M.rid(p) < st.alloc, z3.Select(ph1, p) == z3.Select(st.ph, p)),
                            patterns=[z3.Select(ph1, p)]))
        st.ph = ph1
        st.alloc = a1


ENV_PREFIXES = ("uuid!", "now!", "today!")


def _env_consts(exprs: List[Any]) -> Dict[str, Any]:
    seen: Dict[int, Any] = {}
    out: Dict[str, Any] = {}

    def go(e: Any) -> None:
        if e.get_id() in seen:
            return
        seen[e.get_id()] = e
        if z3.is_quantifier(e):
            go(e.body())
            return
        if z3.is_app(e):
            if e.num_args() == 0 and e.decl().kind() == z3.Z3_OP_UNINTERPRETED:
                nm = e.decl().name()
                if nm == "hashseed" or nm.startswith(ENV_PREFIXES):
                    out[nm] = e
            for ch in e.children():
                go(ch)
    for e in exprs:
        go(e)
    return out


def _path_consts(exprs: List[Any]) -> Dict[str, Any]:
    """every constant introduced along the path (fresh names carry a `!`), except the RNG draws, which are
    the shared random stream of the two runs"""
    seen: Dict[int, Any] = {}
    out: Dict[str, Any] = {}

    def go(e: Any) -> None:
        if e.get_id() in seen:
            return
        seen[e.get_id()] = e
        if z3.is_quantifier(e):
            go(e.body())
            return
        if z3.is_app(e):
            if e.num_args() == 0 and e.decl().kind() == z3.Z3_OP_UNINTERPRETED:
                nm = e.decl().name()
                if nm == "hashseed" or ("!" in nm and not nm.startswith("rng")):
                    out[nm] = e
            for ch in e.children():
                go(ch)
    for e in exprs:
        go(e)
    return out


def noninterference(ex, st: State, r: Any, entry_len: int, observational: bool = True) -> Any:
    """Self-composition: a second run of the same path in which the hash seed, the clock / OS entropy
    results and every value computed along the path are renamed (inputs, the RNG draws and all
    uninterpreted functions are shared) must return the same result."""
    facts = list(st.pc[entry_len:])
    if not _env_consts([r] + facts):
        return r == r            # nothing environment-dependent was touched on this path
    consts = _path_consts([r] + facts)
    subs = [(c_, z3.Const(n + "'", c_.sort())) for n, c_ in consts.items()]
    r2 = z3.substitute(r, *subs)
    facts2 = [z3.substitute(f, *subs) for f in facts]
    same = r == r2
    obs = getattr(REG, "obs_eq", None) if observational else None
    if obs is not None:
        # a freshly built schema object is a different allocation in the two runs: compare what can be observed of it
        # (class and registry, containers by content *and order*)
        same = z3.Or(same, obs(ex.ct, r, r2))
    return z3.Implies(z3.And(*facts2) if facts2 else z3.BoolVal(True), same)


REG = Registry()
contract = REG.contract
lemma = REG.lemma
abstract_contract = REG.abstract_contract
accept_contract = REG.accept_contract
invariant = REG.invariant
transparent = REG.mark_transparent


# ============================================================================= verification driver
@dataclass
class FuncResult:
    relpath: str
    qualname: str
    sha256: str
    obligations: List[Obligation] = field(default_factory=list)
    paths: int = 0
    unsupported: Optional[str] = None
    assumptions: List[str] = field(default_factory=list)
    opaque_calls: List[str] = field(default_factory=list)
    inlined: List[str] = field(default_factory=list)
    exec_s: float = 0.0
    inputs: Dict[str, Any] = field(default_factory=dict)
    entry_pc: List[Any] = field(default_factory=list)
    ex: Any = None


def verify_function(repo: Repo, ct: M.ClassTable, reg: Registry, con: Contract,
                    mutate: Optional[Callable[[FuncInfo], FuncInfo]] = None) -> FuncResult:
    from .executor import Exec
    info = repo.func(con.relpath, con.func or con.qualname)
    if mutate is not None:
        info = mutate(info)
    fr = FuncResult(con.relpath, con.qualname, info.sha256)
    t0 = time.time()
    ex = Exec(repo, ct, reg, fname=f"{con.relpath}:{con.qualname}")
    for fn_ in reg.axiom_fns:
        ex.extra_axioms += fn_(ct)
    fr.ex = ex
    ex.current_info = info
    ex.variant = con.variant
    st = State()
    st.ph = z3.Const("ph0", z3.ArraySort(Obj, M.SeqObj))
    st.alloc = z3.Int("alloc0")
    st.env = {"__module__": info.module, "__func__": info, "__via_cls__": info.cls}
    try:
        c = CCtx(reg, ex, st, "verify", info)
        con.fn(c)
        a = info.node.args
        params = [x.arg for x in a.posonlyargs + a.args + a.kwonlyargs]
        env: Dict[str, Any] = {}
        for p in params:
            if p == "self" and c.self_builder is not None:
                cname, cargs, ckw = c.self_builder
                r = ex.construct(cname, list(cargs), dict(ckw), None, st)
                if len(r) != 1 or isinstance(r[0][1], Raised):
                    raise Unsupported("self construction forks / raises")
                st, env["self"] = r[0]
                c.st = st
                continue
            if p not in c.args:
                c.sym(p)
            env[p] = c.args[p]
        if a.vararg is not None:
            if a.vararg.arg not in c.args:
                raise Unsupported("*args parameter needs a contract-provided value")
            env[a.vararg.arg] = c.args[a.vararg.arg]
        if a.kwarg is not None:
            c.kwargs(a.kwarg.arg)
            env[a.kwarg.arg] = c.args[a.kwarg.arg]
        # mutable-owned attributes (c.mutates): turn into cells with symbolic initial snapshot
        mut_old: Dict[Tuple[str, str], Any] = {}
        for (param, attr_, rel) in c.mut:
            target = env[param]
            if isinstance(target, T):
                ident = target.z
                old = M.fresh("old_" + attr_)
                st.assume(M.is_Ref(old), M.rcls(old) == ct.id("list"))
                lc = ex.new_cell(st, ListC(old))
                oc = ex.new_cell(st, ObjC(target.hint or "object", ((attr_, lc),), ident))
                env[param] = oc
                mut_old[(param, attr_)] = (old, lc)
        for name, f in c.req:
            st.assume(f)
        fr.entry_pc = list(st.pc)
        ex.entry_len = len(fr.entry_pc)
        ex.generic_eq = bool(getattr(c, "generic_eq", False))
        ex.no_merge = bool(getattr(c, "no_merge", False))
        ex.contract_args = {k: (v.z if isinstance(v, (T, Kw)) else v) for k, v in c.args.items()}
        ex.current_props = con.props
        ex.nothrow_props = c.raise_props or con.props
        fr.inputs = {k: (v.z if isinstance(v, (T, Kw)) else None) for k, v in c.args.items()}
        fr.inputs.update(getattr(c, "extra_inputs", {}) or {})
        # cover: the precondition is satisfiable (vacuity guard)
        ex.obligations.append(Obligation(
            name=f"{con.qualname}:cover[requires]", kind="cover", assumptions=list(st.pc),
            goal=z3.BoolVal(False), prop_ids=con.props, text="precondition is satisfiable (must be SAT)"))
        st.env.update(env)
        outs = ex.ex_block(info.node.body, st)
        fr.paths = len(outs)
        q = con.qualname
        for pi0, (s, o) in enumerate(outs):
            pi = f"{pi0}@{s.notes[-1]}" if s.notes else str(pi0)
            if o is NORMAL:
                o = Ret(ex.const(None))
            if isinstance(o, Ret):
                r = ex.term(o.val, s)
                post = Post(ex, s, c.pre_ph, c.pre_alloc)
                for (name, fn, props) in c.ens:
                    ex.oblige(s, f"{q}:ensures[{name}]:path#{pi}", "ensures", fn(r, post),
                              props or con.props, text=name)
                if getattr(c, "repro", None) is not None:
                    when, rprops = c.repro
                    goal = noninterference(ex, s, r, len(fr.entry_pc))
                    if when is not None:
                        goal = z3.Implies(when, goal)
                    ex.oblige(s, f"{q}:reproducible:path#{pi}", "ensures", goal, rprops,
                              text="same result under a different hash seed / clock / OS entropy")
                for cls, cond in c.raise_when.items():
                    ex.oblige(s, f"{q}:returns-only-if-not[{cls}]:path#{pi}", "raises", z3.Not(cond),
                              c.raise_props or con.props,
                              text=f"normal return although the contract says {cls} must be raised")
                for (param, attr_, rel) in c.mut:
                    old, lc = mut_old[(param, attr_)]
                    ex.oblige(s, f"{q}:mutates[{param}.{attr_}]:path#{pi}", "ensures",
                              rel(old, s.cells[lc.id].snap), con.props, text=f"effect on {param}.{attr_}")
            elif isinstance(o, Raised):
                ok_cls = [a_ for a_ in c.allowed if ct.is_sub(o.cls, a_)]
                if not ok_cls:
                    ex.oblige(s, f"{q}:raises[{o.cls}]:path#{pi}", "raises", z3.BoolVal(False),
                              c.raise_props or con.props,
                              text=f"unexpected {o.cls} ({o.origin}); allowed: {c.allowed or 'nothing'}")
                else:
                    cond = c.raise_when.get(ok_cls[0])
                    if cond is not None:
                        ex.oblige(s, f"{q}:raises-only-when[{ok_cls[0]}]:path#{pi}", "raises", cond,
                                  c.raise_props or con.props,
                                  text=f"{o.cls} raised outside the stated condition")
                    e = ex.term(o.exc, s) if o.exc is not None else M.fresh("exc")
                    post = Post(ex, s, c.pre_ph, c.pre_alloc)
                    for (ecls, name, fn, props) in c.exc_ens:
                        if ct.is_sub(o.cls, ecls):
                            ex.oblige(s, f"{q}:ensures-on-raise[{name}]:path#{pi}", "ensures",
                                      fn(e, post), props or con.props, text=name)
            else:
                raise Unsupported("break/continue escaped the function body")
    except Unsupported as u:
        fr.unsupported = str(u)
    except RecursionError:
        fr.unsupported = "recursion limit in executor"
    active = getattr(reg, "active_regions", set())
    try:
        for (rid_, match, formula) in c.regions:
            if rid_ not in active:
                continue
            for ob in ex.obligations:
                if match in ob.name and ob.kind != "cover":
                    ob.goal = z3.Or(formula, ob.goal)
                    ob.text += f" [outside known-finding region {rid_}]"
    except NameError:
        pass
    try:
        for ob in ex.obligations:
            if not ob.meta:
                ob.meta = dict(getattr(c, "meta", {}) or {})
    except NameError:
        pass
    fr.obligations = ex.obligations
    fr.assumptions = sorted(ex.used_assumptions)
    fr.opaque_calls = sorted(ex.opaque_calls)
    fr.inlined = sorted(ex.inlined)
    fr.exec_s = time.time() - t0
    return fr
