"""./check <property-id> [--tier quick|thorough] | --replay <file>      (cwd = /verif)

Exit codes: 0 held (KNOWN-FINDING lines allowed) / 1 VIOLATION / 2 undecided / 3 checker error.
"""
from __future__ import annotations

import argparse
import hashlib
import importlib
import json
import multiprocessing as mp
import os
import subprocess
import sys
import tempfile
import time
import traceback
from typing import Any, Dict, List, Optional, Tuple

HERE = os.path.dirname(os.path.dirname(os.path.abspath(__file__)))
sys.path.insert(0, HERE)

import z3  # noqa: E402

from pyvc import model as M  # noqa: E402
from pyvc import solve  # noqa: E402
from pyvc.concretize import Decoder  # noqa: E402
from pyvc.contracts import REG, Contract, verify_function  # noqa: E402
from pyvc.source import Repo  # noqa: E402

CONTRACT_MODULES = ["contracts.validation", "contracts.declaration", "contracts.formatting", "contracts.generation", "contracts.substitution", "contracts.combinators", "contracts.equality", "contracts.custom", "contracts.representation", "contracts.regexgen", "contracts.relaxed"]
NATIVE_PY = os.environ.get("PYVC_NATIVE_PY", "/venv/bin/python")
REPLAY_DIR = os.path.join(HERE, "replays")
EVID_DIR = os.environ.get("PYVC_EVIDENCE_DIR") or os.path.join(HERE, "evidence")   # (seed runs write elsewhere)
KNOWN = os.path.join(HERE, "known_findings.jsonl")
BASELINE = os.path.join(HERE, "baseline_obligations.json")
CANARIES = os.path.join(HERE, "canaries.json")
MAX_CANDIDATES = 6

_G: Dict[str, Any] = {}


def load_all() -> Tuple[Repo, M.ClassTable]:
    if "repo" not in _G:
        repo = Repo()
        ct = M.ClassTable(repo)
        for m in CONTRACT_MODULES:
            importlib.import_module(m)
        import contracts.spec as _spec
        _spec.CT = ct
        _G["repo"], _G["ct"] = repo, ct
    return _G["repo"], _G["ct"]


def load_known() -> List[Dict[str, Any]]:
    out = []
    if os.path.exists(KNOWN):
        for line in open(KNOWN):
            line = line.strip()
            if line and not line.startswith("#") and not line.startswith("fixed:"):
                out.append(json.loads(line))
    return out


def native_replay(spec: Dict[str, Any]) -> Dict[str, Any]:
    with tempfile.NamedTemporaryFile("w", suffix=".json", delete=False) as f:
        json.dump(spec, f)
        path = f.name
    try:
        env = dict(os.environ)
        env["PYTHONPATH"] = HERE
        p = subprocess.run([NATIVE_PY, os.path.join(HERE, "replay", "native.py"), path],
                           capture_output=True, text=True, timeout=120, env=env)
        line = (p.stdout or "").strip().splitlines()
        if not line:
            return {"reproduced": False, "harness_error": True, "detail": "no output: " + (p.stderr or "")[-400:]}
        return json.loads(line[-1])
    except Exception as e:
        return {"reproduced": False, "harness_error": True, "detail": repr(e)}
    finally:
        os.unlink(path)


# ------------------------------------------------------------------------------------- worker
def work(task: Tuple[str, str, str, List[str], str]) -> Dict[str, Any]:
    relpath, qualname, prop, active_regions, tier = task
    t0 = time.time()
    from pyvc import loops as _loops0
    _loops0.NO_RECORD = False
    out: Dict[str, Any] = {"relpath": relpath, "qualname": qualname, "verdicts": [], "error": None}
    try:
        repo, ct = load_all()
        REG.active_regions = set(active_regions)
        if relpath.startswith("<canary>"):
            return work_canary(repo, ct, relpath[len("<canary>"):], qualname, prop, out, t0)
        if relpath == "<lemma>":
            return work_lemma(repo, ct, qualname, prop, tier, out, t0)
        con = REG.contracts[(relpath, qualname)]
        fr = verify_function(repo, ct, REG, con)
        out["loops_restructured"] = f"{relpath}|{qualname}" in _loops0.RESTRUCTURED
        out.update(sha256=fr.sha256, paths=fr.paths, unsupported=fr.unsupported,
                   assumptions=fr.assumptions, opaque_calls=fr.opaque_calls, inlined=fr.inlined,
                   exec_s=round(fr.exec_s, 3), n_obligations=len(fr.obligations))
        ex = fr.ex
        base = ex.base + ex.extra_axioms
        todo = [ob for ob in fr.obligations
                if ob.kind == "cover" or not ob.prop_ids or prop in ob.prop_ids]

        failed_before = [0]

        def do(ob) -> Dict[str, Any]:
            # the first obligation of this function (shard) that fails gets the full budget, a counter-model and its
            # replays; later ones only the short tries (a failing obligation costs minutes, a function under a breaking
            # change has many)
            solve.SHORT_BUDGET = failed_before[0] > 0 and ob.kind != "cover"
            solve.SHORT_MAX_MS = 8000 if failed_before[0] < 3 else 3000
            try:
                v = solve.discharge(ob, base, second_opinion=(tier == "thorough"))
            finally:
                solve.SHORT_BUDGET = False
            if v.status not in (solve.PROVED, solve.COVERED):
                failed_before[0] += 1
            rec = {"name": v.name, "kind": v.kind, "status": v.status, "backend": v.backend,
                   "time_s": round(v.time_s, 3), "text": v.text, "props": list(v.prop_ids),
                   "reason": v.reason, "solver_output": v.solver_output}
            if v.status in (solve.REFUTED, solve.CANDIDATE) and v.model is not None:
                rec["replays"] = try_replays(ex, ct, con, fr, ob, v, prop)
            return rec

        K = 1 if len(todo) < 24 else min(8, len(todo) // 12)
        if K <= 1:
            out["verdicts"] = [do(ob) for ob in todo]
        else:
            # shard the obligations over forked children (z3 state is copied by fork)
            tmpd = tempfile.mkdtemp(prefix="pyvc_")
            pids = []
            for k in range(K):
                pid = os.fork()
                if pid == 0:
                    code = 0
                    try:
                        recs = [(i, do(ob)) for i, ob in enumerate(todo) if i % K == k]
                        with open(os.path.join(tmpd, f"{k}.json"), "w") as f:
                            json.dump(recs, f, default=str)
                    except BaseException:
                        with open(os.path.join(tmpd, f"{k}.err"), "w") as f:
                            f.write(traceback.format_exc())
                        code = 1
                    os._exit(code)
                pids.append(pid)
            for pid in pids:
                os.waitpid(pid, 0)
            allrecs = []
            for k in range(K):
                fp = os.path.join(tmpd, f"{k}.json")
                if os.path.exists(fp):
                    allrecs += json.load(open(fp))
                else:
                    ep = os.path.join(tmpd, f"{k}.err")
                    raise RuntimeError("shard failed: " + (open(ep).read() if os.path.exists(ep) else "no output"))
            allrecs.sort(key=lambda t: t[0])
            out["verdicts"] = [r for _, r in allrecs]
            import shutil
            shutil.rmtree(tmpd, ignore_errors=True)
    except Exception:
        out["error"] = traceback.format_exc()
    out["wall_s"] = round(time.time() - t0, 3)
    return out


def work_canary(repo, ct, relpath: str, spec: str, prop: str, out: Dict[str, Any], t0: float) -> Dict[str, Any]:
    """A committed in-memory mutant of a real function: it must make at least one obligation of this
    property fail, otherwise the engine or the contract has become vacuous (checker error)."""
    from pyvc import mutants
    qualname, k, sha = spec.split("|")
    info = repo.func(relpath, qualname)
    out.update(relpath="<canary>", qualname=f"{qualname}#{k}", is_canary=True, verdicts=[], unsupported=None,
               sha256=info.sha256, paths=0, assumptions=[], opaque_calls=[], inlined=[], exec_s=0.0)
    if sha and sha != info.sha256:
        out["canary"] = "skipped: the function's source changed since the canary was recorded"
        out["wall_s"] = round(time.time() - t0, 3)
        return out
    con = REG.contracts[(relpath, qualname)]
    only = None
    from pyvc import loops as _loops
    _loops.NO_RECORD = True
    if str(k).startswith("region:"):
        # the obligations a listed known finding excludes must FAIL when the exclusion is switched off: shows that the
        # clause (e.g. non-interference under a different hash seed) is not vacuous on the real, unmutated code
        _, rid_, only = str(k).split(":", 2)
        desc = f"known-finding region {rid_} switched off: `{only}` must not be provable"
        saved = set(getattr(REG, "active_regions", set()))
        REG.active_regions = saved - {rid_}
        try:
            fr = verify_function(repo, ct, REG, con)
        finally:
            REG.active_regions = saved
    else:
        m, desc = mutants.mutant(info, int(k))
        fr = verify_function(repo, ct, REG, con, mutate=lambda i: m)
    base = fr.ex.base + fr.ex.extra_axioms
    killed = None
    if fr.unsupported:
        killed = "unsupported: " + fr.unsupported
    else:
        solve.SHORT_BUDGET = True
        try:
            for ob in fr.obligations:
                if ob.kind == "cover" or (ob.prop_ids and prop not in ob.prop_ids):
                    continue
                if only is not None and only not in ob.name:
                    continue
                v = solve.discharge(ob, base, use_cvc5=False)
                if v.status != solve.PROVED:
                    killed = ob.name
                    break
        finally:
            solve.SHORT_BUDGET = False
    out["canary"] = ("killed: " + killed) if killed else "SURVIVED"
    out["canary_desc"] = desc
    out["wall_s"] = round(time.time() - t0, 3)
    return out


def work_lemma(repo, ct, name: str, prop: str, tier: str, out: Dict[str, Any], t0: float) -> Dict[str, Any]:
    from pyvc.contracts import LemmaCtx
    lem = REG.lemmas[name]
    lc = LemmaCtx(ct, name, lem.props)
    lem.fn(lc)
    base = M.base_axioms()
    for fn_ in REG.axiom_fns:
        base += fn_(ct)
    drop = list(getattr(lc, "drop", []) or [])      # an axiom that this very lemma establishes
    if drop:
        n0 = len(base)
        base = [a for a in base if not any(a.eq(d) for d in drop)]
        if len(base) != n0 - len(drop):
            raise RuntimeError(f"lemma {name}: the axiom it proves was not found among the axioms")
    out.update(sha256="", paths=0, unsupported=None, assumptions=[], opaque_calls=[], inlined=[],
               exec_s=0.0, n_obligations=len(lc.obligations), is_lemma=True)

    class _FR:
        inputs: Dict[str, Any] = {}
        sha256 = ""
    con = Contract("<lemma>", name, lem.fn, lem.props)
    for ob in lc.obligations:
        v = solve.discharge(ob, base, second_opinion=(tier == "thorough"))
        rec = {"name": v.name, "kind": v.kind, "status": v.status, "backend": v.backend,
               "time_s": round(v.time_s, 3), "text": v.text, "props": list(v.prop_ids),
               "reason": v.reason, "solver_output": v.solver_output}
        if v.status in (solve.REFUTED, solve.CANDIDATE) and v.model is not None:
            rec["replays"] = try_replays(None, ct, con, _FR(), ob, v, prop)
        out["verdicts"].append(rec)
    out["wall_s"] = round(time.time() - t0, 3)
    return out


def native_search(spec: Dict[str, Any]) -> Dict[str, Any]:
    """Refutation fallback (bounded zoo enumeration against the same native oracle; DESIGN 2.12)."""
    with tempfile.NamedTemporaryFile("w", suffix=".json", delete=False) as f:
        json.dump(spec, f, default=str)
        path = f.name
    try:
        env = dict(os.environ)
        env["PYTHONPATH"] = HERE
        p = subprocess.run([NATIVE_PY, os.path.join(HERE, "replay", "search.py"), path],
                           capture_output=True, text=True, timeout=600, env=env)
        line = (p.stdout or "").strip().splitlines()
        return json.loads(line[-1]) if line else {"found": False, "error": (p.stderr or "")[-300:]}
    except Exception as e:
        return {"found": False, "error": repr(e)}
    finally:
        os.unlink(path)


def try_replays(ex, ct, con: Contract, fr, ob, v, prop: str) -> List[Dict[str, Any]]:
    """Concretise the counter-model (and up to MAX_CANDIDATES-1 further models) and replay natively."""
    res: List[Dict[str, Any]] = []
    rmap = getattr(fr, "replay_map", None) or getattr(con, "replay_map", None)
    inputs = {k: z for k, z in (ob.inputs or fr.inputs).items() if z is not None}
    model = v.model
    goal = z3.simplify(ob.goal)
    block: List[Any] = []
    for attempt in range(MAX_CANDIDATES):
        dec = Decoder(model, ct, ph=z3.Const("ph0", z3.ArraySort(M.Obj, M.SeqObj)))
        decoded = {k: dec.decode(z) for k, z in inputs.items()}
        # the native oracle is that of the clause's primary property (e.g. a Validator verdict clause
        # re-proved for C05 is replayed with the C02 oracle: it is C02's statement that fails first)
        oracle = ob.prop_ids[0] if (ob.prop_ids and prop not in ob.prop_ids[:1]) else prop
        spec = {"property": prop, "oracle": oracle, "obligation": ob.name,
                "function": f"{con.relpath}:{con.qualname}", "source_sha256": fr.sha256,
                "clause": ob.text, "solver": v.backend, "solver_output": v.solver_output or v.status,
                "inputs": decoded, "meta": dict(ob.meta or {}), "kind": ob.kind}
        r = native_replay(spec)
        spec["native"] = r
        res.append(spec)
        if r.get("reproduced"):
            break
        # next candidate: block the decoded scalar view of the inputs
        diff = []
        for k, z in inputs.items():
            diff.append(z != model.eval(z, model_completion=True))
        if not diff:
            break
        block.append(z3.Or(*diff))
        base = (ex.base + ex.extra_axioms) if ex is not None else M.base_axioms()
        s = solve._mk_solver(base, False)
        s.set("timeout", 10000)
        for a in ob.assumptions:
            s.add(a)
        s.add(z3.Not(goal))
        for b in block:
            s.add(b)
        r = s.check()
        if r == z3.unsat:
            break
        try:
            model = s.model()
        except z3.Z3Exception:
            break
    return res


COMPLEMENT_PROPS = ("C04", "C05", "C12", "C06", "C07")


def run_complement(prop: str, tier: str, seed: int) -> Dict[str, Any]:
    try:
        env = dict(os.environ)
        env["PYTHONPATH"] = HERE
        p = subprocess.run([NATIVE_PY, os.path.join(HERE, "replay", "complement.py"), prop, tier, str(seed)],
                           capture_output=True, text=True, timeout=1200, env=env)
        line = (p.stdout or "").strip().splitlines()
        if not line:
            return {"error": "no output: " + (p.stderr or "")[-400:], "failures": []}
        return json.loads(line[-1])
    except Exception as e:
        return {"error": repr(e), "failures": []}


def tree_shas() -> Dict[str, str]:
    """sha256 of every Python file of the package under check (relative path -> digest)"""
    root = os.environ.get("PYVC_REPO", "/repo")
    out: Dict[str, str] = {}
    for d, _, files in os.walk(os.path.join(root, "d42")):
        for fn in files:
            if fn.endswith(".py"):
                pth = os.path.join(d, fn)
                with open(pth, "rb") as f:
                    out[os.path.relpath(pth, root)] = hashlib.sha256(f.read()).hexdigest()
    return out


def combined_sha(repo, res: Dict[str, Any], key: str = "relpath") -> str:
    """hash of the verified function's source and of every repository function the executor inlined into it"""
    import hashlib
    h = hashlib.sha256((res.get("sha256") or "").encode())
    files = set()
    rp0 = res.get("relpath") or res.get("file")
    if rp0 and not str(rp0).startswith("<"):
        files.add(rp0)
    for name in sorted(res.get("inlined") or []):
        try:
            rp, qn = name.split(":", 1)
            h.update(repo.func(rp, qn).sha256.encode())
            files.add(rp)
        except Exception:
            h.update(name.encode())
    # module-level constants, class attributes and imports are not part of any function's source: the whole text of the
    # files involved is part of the fingerprint as well (so "unchanged" really means the files are untouched)
    for rp in sorted(files):
        try:
            with open(os.path.join(os.environ.get("PYVC_REPO", "/repo"), rp), "rb") as f:
                h.update(hashlib.sha256(f.read()).digest())
        except OSError:
            h.update(rp.encode())
    return h.hexdigest()


# ------------------------------------------------------------------------------------- main
def run_check(prop: str, tier: str) -> int:
    t0 = time.time()
    seed = int(os.environ.get("VERIF_SEED", "0") or 0)
    repo, ct = load_all()
    cons = [c for c in REG.contracts.values() if prop in c.props and not c.trusted]
    if not cons and not any(prop in l.props for l in REG.lemmas.values()):
        print(f"ERROR no contracts registered for {prop}")
        return 3
    known = [k for k in load_known() if (k["property"] == prop or prop in k.get("also", []))
             and k.get("engine", "pyvc") in ("pyvc", "complement")]
    # known findings: replay each witness; a region is active only while its witness still fails
    active_regions: List[str] = []
    known_lines: List[str] = []
    known_report = []
    for k in known:
        r = native_replay({"oracle": k.get("oracle", prop), "inputs": k["witness"], "meta": k.get("meta", {})})
        k["_native"] = r
        if r.get("reproduced"):
            active_regions.append(k["region"])
            known_lines.append(f"KNOWN-FINDING: property={prop} {k['what']}")
        known_report.append({"region": k["region"], "what": k["what"], "witness_still_fails": bool(r.get("reproduced")),
                             "detail": r.get("detail", "")[:300]})
    tasks = [(c.relpath, c.qualname, prop, active_regions, tier) for c in cons]
    tasks += [("<lemma>", l.name, prop, active_regions, tier) for l in REG.lemmas.values() if prop in l.props]
    canaries = json.load(open(CANARIES)).get(prop, []) if os.path.exists(CANARIES) else []
    if tier != "thorough":
        canaries = canaries[:4]
    tasks += [("<canary>" + c["relpath"], f"{c['qualname']}|{c['site']}|{c.get('sha256', '')}", prop, active_regions, tier)
              for c in canaries]
    nproc = min(16, len(tasks)) or 1
    with mp.get_context("fork").Pool(nproc) as pool:
        results = pool.map(work, tasks, chunksize=1)

    baseline = json.load(open(BASELINE)) if os.path.exists(BASELINE) else {}
    # obligation names carry a path index and a line number, which shift when the code changes: compare by
    # function + clause (on the pristine tree *every* obligation is proved, so the key was proved for all its paths)
    norm = lambda nm: nm.split(":path#")[0]
    base_proved = {norm(x) for x in baseline.get(prop, [])}
    base_sha = {tuple(k.split("|", 1)): h for k, h in (baseline.get("_sha", {}).get(prop, {}) or {}).items()}
    violations: List[Tuple[str, str, bool]] = []   # (obligation, replay path, has_input)
    undecided: List[str] = []
    errors: List[str] = []
    n_obl = n_dis = 0
    by_backend: Dict[str, int] = {}
    solver_time = 0.0
    funcs = []
    samples = []
    assumptions: set = set()
    os.makedirs(REPLAY_DIR, exist_ok=True)
    proved_names: List[str] = []
    search_cache: Dict[Any, Any] = {}
    searches: List[Dict[str, Any]] = []
    canary_report: List[Dict[str, Any]] = []
    for res in results:
        if res["error"]:
            errors.append(f"{res['qualname']}: {res['error']}")
            continue
        if res.get("is_canary"):
            canary_report.append({"canary": res["qualname"], "mutation": res.get("canary_desc"), "result": res["canary"]})
            if res["canary"] == "SURVIVED":
                errors.append(f"canary mutant survived: {res['qualname']} ({res.get('canary_desc')})")
            continue
        funcs.append({"file": res["relpath"], "qualname": res["qualname"], "sha256": res.get("sha256"),
                      "paths": res.get("paths"), "exec_s": res.get("exec_s"),
                      "opaque_calls": res.get("opaque_calls"), "inlined": res.get("inlined"),
                      "unsupported": res.get("unsupported")})
        assumptions.update(res.get("assumptions") or [])
        if res.get("unsupported"):
            fkey0 = (res["relpath"], res["qualname"])
            changed0 = fkey0 in base_sha and base_sha[fkey0] != combined_sha(repo, res)
            hit0 = None
            if changed0 and res["relpath"] != "<lemma>":
                # the changed function left the verifier's subset: nothing can be proved about it, but a native search
                # with the property's oracle may still exhibit a failing input (a hit is a real violation)
                sp = {"oracle": prop, "function": f"{res['relpath']}:{res['qualname']}", "meta": {}}
                hit0 = native_search(sp)
                searches.append({"function": sp["function"], "found": hit0.get("found"), "cases": hit0.get("cases")})
            if hit0 and hit0.get("found"):
                spec = {"property": prop, "oracle": prop, "obligation": f"{res['qualname']}: outside the verifier's subset "
                        f"({res['unsupported']}); bounded native search", "function": sp["function"],
                        "inputs": hit0["inputs"], "meta": hit0.get("meta", {}),
                        "native": {"reproduced": True, "detail": hit0.get("detail", "")},
                        "found_by": "bounded native search (function changed and could not be verified)"}
                violations.append((f"{res['qualname']}:unsupported", write_replay(prop, spec), True))
            else:
                undecided.append(f"{res['qualname']}: unsupported: {res['unsupported']}")
        # a loop invariant that no longer holds means the sidecar is out of date for this function (or the loop really
        # changed): by itself that is no evidence against the property.  Obligations of such a function count as
        # violations only with a natively reproduced input; otherwise they are undecided.
        # (when the loops are the recorded ones, statement for statement in their headers, a failing invariant is a
        # change of behaviour inside the loop and counts like any other failing obligation)
        # (and when the loops of the function were restructured at all -- one replaced by a comprehension, split, merged --
        # the remaining sidecar invariants were written for another proof: whatever fails then is undecided without input)
        inv_broken = bool(res.get("loops_restructured"))
        for v in res["verdicts"]:
            solver_time += v["time_s"]
            if v["kind"] == "cover":
                if v["status"] != solve.COVERED:
                    errors.append(f"vacuous precondition: {v['name']}")
                continue
            n_obl += 1
            if v["status"] == solve.PROVED:
                n_dis += 1
                proved_names.append(v["name"])
                by_backend[v["backend"]] = by_backend.get(v["backend"], 0) + 1
                if len(samples) < 12 and v["kind"] == "ensures":
                    samples.append({"obligation": v["name"], "clause": v["text"], "backend": v["backend"],
                                    "time_s": v["time_s"]})
                continue
            reps = v.get("replays") or []
            confirmed = [r for r in reps if r["native"].get("reproduced")]
            fkey = (res["relpath"], res["qualname"])
            # the function (or something inlined into it) differs from the tree the baseline was recorded on
            changed = fkey in base_sha and base_sha[fkey] != combined_sha(repo, res)
            failing = v["status"] in (solve.REFUTED, solve.CANDIDATE) or (norm(v["name"]) in base_proved and changed)
            # lemmas have no source of their own: they are "changed" when anything was (conservatively: never silenced)
            # (a lemma is a statement over the contracts and specification functions only: /repo cannot make it fail, so
            # without a natively reproduced input a failing lemma is never reported as a violation)
            untouched = (fkey in base_sha and not changed) or res["relpath"] == "<lemma>"
            if not confirmed and failing and res["relpath"] != "<lemma>":
                # refutation fallback: one bounded native search per function
                if fkey not in search_cache:
                    sp = {"oracle": (reps[0].get("oracle") if reps else prop) or prop,
                          "function": f"{res['relpath']}:{res['qualname']}",
                          "meta": (reps[0].get("meta") if reps else {}) or {}}
                    search_cache[fkey] = native_search(sp)
                    searches.append({"function": sp["function"], "found": search_cache[fkey].get("found"),
                                     "cases": search_cache[fkey].get("cases")})
                    if not search_cache[fkey].get("found") and sp["oracle"] != prop and prop in ("C01", "C06"):
                        # the clause belongs to another property's contract (its oracle found nothing): the property's own
                        # zoo does not depend on the function
                        sp2 = {"oracle": prop, "function": sp["function"], "meta": {}}
                        h2 = native_search(sp2)
                        searches.append({"function": sp["function"], "oracle": prop, "found": h2.get("found"), "cases": h2.get("cases")})
                        if h2.get("found"):
                            h2["oracle_override"] = prop
                            search_cache[fkey] = h2
                hit = search_cache[fkey]
                if hit.get("found"):
                    spec = dict(reps[0]) if reps else {"property": prop, "oracle": prop}
                    if hit.get("oracle_override"):
                        spec["oracle"] = hit["oracle_override"]
                    spec.update({"obligation": v["name"], "inputs": hit["inputs"], "meta": hit.get("meta", {}),
                                 "found_by": "bounded native search after the obligation failed",
                                 "native": {"reproduced": True, "detail": hit.get("detail", "")}})
                    confirmed = [spec]
            if confirmed:
                path = write_replay(prop, confirmed[0])
                violations.append((v["name"], path, True))
            elif failing and norm(v["name"]) in base_proved and not inv_broken and not untouched:
                spec = reps[0] if reps else {"property": prop, "obligation": v["name"], "clause": v["text"],
                                             "function": f"{res['relpath']}:{res['qualname']}"}
                spec["note"] = ("no-failing-input-found: obligation was PROVED on the pristine tree"
                                + ("" if v["status"] != solve.UNDECIDED else
                                   "; the function's source changed and the solver no longer decides it"))
                spec["solver_output"] = v.get("solver_output") or (v["status"] + " " + str(v.get("reason", "")))
                path = write_replay(prop, spec)
                violations.append((v["name"], path, False))
            else:
                if untouched and failing:
                    v = dict(v, reason=(v.get("reason") or "") + " [the files of this function are byte-identical to the baseline: "
                                       "a failing proof here is solver trouble, not a change of behaviour]")
                undecided.append(f"{v['name']}: {v['status']} {v.get('reason', '')}"
                                 + (" [the loops of this function were restructured: its sidecar invariants belong to another proof]" if inv_broken else ""))
                if os.environ.get("PYVC_DEBUG") and reps:
                    for r in reps:
                        print("  DEBUG-REPLAY", v["name"], json.dumps(r.get("native")), json.dumps(r.get("inputs"))[:600])

    # thorough tier: independently of any failing obligation, the bounded native search of the property is run for every
    # function under contract -- a cross-check of specification, engine and code against each other (a hit is a natively
    # failing input, i.e. a violation however the proofs went)
    # the same searches run in the quick tier when any file of the package differs from the tree the baseline was
    # recorded on and nothing has been reported yet: a change outside every function under contract (wiring, helpers that
    # are assumed, error factories, classes the executor models) cannot fail an obligation, but it can be exhibited
    base_files = baseline.get("_files") or {}
    cur_files = tree_shas()
    changed_files = sorted(f for f in set(base_files) | set(cur_files) if base_files.get(f) != cur_files.get(f)) if base_files else []
    deep = tier == "thorough" or (bool(changed_files) and not violations)
    if deep:
        seen_fn = set()
        extra = [{"file": "(call chains)", "qualname": "declarations written as text, every order"}] if prop in ("C10", "C11") else []
        for f_ in extra + funcs:
            if f_["file"].startswith("<"):
                continue
            fn_name = f"{f_['file']}:{f_['qualname'].split('@')[0]}"
            if prop in ("C01", "C09", "C13", "C14", "C15", "C16", "C17"):
                fn_name = f"(all functions of {prop}: the zoo of this property does not depend on the function)"
            if fn_name in seen_fn or fn_name in [s_["function"] for s_ in searches]:
                continue
            seen_fn.add(fn_name)
            hit = native_search({"oracle": prop, "function": fn_name, "meta": {}, "active_regions": active_regions})
            searches.append({"function": fn_name, "found": hit.get("found"), "cases": hit.get("cases"),
                             "tier": "thorough" if tier == "thorough" else "quick (tree differs from the baseline: " + ", ".join(changed_files)[:200] + ")"})
            if hit.get("found"):
                spec = {"property": prop, "oracle": prop, "obligation": f"thorough native search for {fn_name}", "function": fn_name,
                        "inputs": hit["inputs"], "meta": hit.get("meta", {}),
                        "native": {"reproduced": True, "detail": hit.get("detail", "")}, "found_by": "thorough-tier native search"}
                violations.append((f"{fn_name}:native-search", write_replay(prop, spec), True))
                if tier != "thorough":
                    break          # one natively failing input is enough for the verdict

    # bounded complement: the property's native oracle over an enumerated zoo, for the functions the property depends
    # on that are not under contract yet -- a labelled bounded stand-in, never counted among the obligations
    complement = None
    if prop in COMPLEMENT_PROPS and not os.environ.get("PYVC_NO_COMPLEMENT"):
        complement = run_complement(prop, tier, seed)
        # (their witnesses were replayed above, with all listed findings of this property)
        comp_active = [k["signature"] for k in known if k.get("engine") == "complement" and k["region"] in active_regions]
        complement["known_signatures_active"] = comp_active
        if complement.get("error"):
            errors.append("bounded complement failed to run: " + str(complement["error"])[:300])
        he = complement.get("harness_errors") or []
        if len(he) * 5 > max(1, int(complement.get("evaluations") or 0)):
            # the harness itself is broken (a silent `except` would otherwise turn the complement off)
            errors.append(f"bounded complement: {len(he)} of {complement.get('evaluations')} cases hit a harness error: {he[0][:200]}")
        for f in complement.get("failures", []):
            if f["signature"] in comp_active:
                continue
            spec = {"property": prop, "oracle": prop, "obligation": "bounded-complement: " + f["label"],
                    "function": "functions not under contract: " + ", ".join(complement.get("functions", [])),
                    "inputs": f["inputs"], "meta": {}, "clause": "native oracle of the property (bounded complement)",
                    "native": {"reproduced": True, "detail": f["detail"]}, "found_by": "bounded complement zoo"}
            path = write_replay(prop, spec)
            violations.append(("bounded-complement[" + f["signature"] + "]", path, True))

    wall = time.time() - t0
    status = 0
    for line in known_lines:
        print(line)
    seen = set()
    for name, path, has_input in violations:
        key = name.split(":path#")[0]
        if key in seen:
            continue
        seen.add(key)
        print(f"VIOLATION property={prop} replay={path}" + ("" if has_input else " no-failing-input-found"))
        print(f"  obligation: {name}")
        status = 1
    if status == 0 and errors:
        for e in errors:
            print("CHECKER-ERROR", e)
        status = 3
    if status == 0 and undecided:
        for u in undecided[:40]:
            print(f"UNDECIDED property={prop} obligation={u}")
        status = 2
    if n_obl == 0 and status == 0:
        print("CHECKER-ERROR zero obligations")
        status = 3
    ev = {
        "property_id": prop, "tier": tier, "seed": seed, "level": "proof",
        "coverage": {
            "obligations": n_obl, "discharged": n_dis,
            "checker_cmd": f"./check {prop} --tier {tier}",
            "trusted_base": sorted(assumptions) + TRUSTED_ALWAYS,
            "samples": samples,
            "functions_under_contract": funcs,
            "by_backend": by_backend, "solver_time_s": round(solver_time, 2),
            "undecided": undecided, "violations": [v[0] for v in violations],
            "known_findings_reproduced": known_report,
            "regions_active": active_regions,
            "refutation_searches": searches,
            "canaries": canary_report,
            "bounded_complement": (None if complement is None else {
                "label": "BOUNDED stand-in / second opinion (native oracle over an enumerated zoo); not counted in "
                         "obligations/discharged",
                "covers": complement.get("functions"), "evaluations": complement.get("evaluations"),
                "distinct_cases": complement.get("distinct"), "outside_domain": complement.get("unreachable"),
                "failing_cases": len(complement.get("failures", [])), "rule": complement.get("rule"),
                "samples": complement.get("samples"), "known_signatures_active": complement.get("known_signatures_active"),
                "harness_errors": complement.get("harness_errors", [])[:5]}),
            "explanation": "contract-based deductive verification of the real source re-read from /repo "
                           "(pyvc: AST symbolic executor -> VCs -> z3/cvc5); see DESIGN.md",
        },
        "assumptions": sorted(assumptions) + TRUSTED_ALWAYS,
        "wall_s": round(wall, 2), "violations": len(seen),
    }
    os.makedirs(EVID_DIR, exist_ok=True)
    with open(os.path.join(EVID_DIR, f"{prop}.json"), "w") as f:
        json.dump(ev, f, indent=1)
    if os.environ.get("PYVC_WRITE_BASELINE") == "1":
        baseline[prop] = sorted(proved_names)
        baseline.setdefault("_sha", {})[prop] = {f"{f['file']}|{f['qualname']}": combined_sha(repo, f, key="file")
                                                 for f in funcs if f["file"] != "<lemma>"}
        baseline["_files"] = tree_shas()
        with open(BASELINE, "w") as f:
            json.dump(baseline, f, indent=0)
    print(f"{prop}: obligations={n_obl} discharged={n_dis} undecided={len(undecided)} "
          f"violations={len(seen)} known={len(known_lines)} wall={wall:.1f}s exit={status}")
    return status


TRUSTED_ALWAYS = [
    "pyvc itself (executor, encodings, concretiser) -- mitigated by canary mutants and native replay",
    "z3 / cvc5",
    "int = mathematical integer; float = real + {inf,-inf,nan}, no rounding error; str = SMT-LIB string",
    "schemas are finite acyclic trees; partial correctness only (no termination proof)",
    "objects whose own special methods (__eq__, __repr__, __hash__, __len__) raise are outside every domain",
]


def write_replay(prop: str, spec: Dict[str, Any]) -> str:
    h = hashlib.sha256(json.dumps(spec, sort_keys=True, default=str).encode()).hexdigest()[:12]
    path = os.path.join(REPLAY_DIR, f"{prop}-{h}.json")
    with open(path, "w") as f:
        json.dump(spec, f, indent=1, default=str)
    return path


def run_replay(path: str) -> int:
    spec = json.load(open(path))
    if "inputs" not in spec:
        print("replay file carries no concrete input (no-failing-input-found); obligation:", spec.get("obligation"))
        print(spec.get("solver_output"))
        return 1
    r = native_replay(spec)
    print(json.dumps(r, indent=1))
    return 1 if r.get("reproduced") else 0


def main() -> None:
    ap = argparse.ArgumentParser()
    ap.add_argument("prop", nargs="?")
    ap.add_argument("--tier", default=os.environ.get("VERIF_TIER", "quick"))
    ap.add_argument("--replay")
    a = ap.parse_args()
    try:
        if a.replay:
            sys.exit(run_replay(a.replay))
        sys.exit(run_check(a.prop, a.tier))
    except SystemExit:
        raise
    except Exception:
        traceback.print_exc()
        sys.exit(3)


if __name__ == "__main__":
    main()
