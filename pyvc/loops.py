"""`for` loops with sidecar invariants, and the comprehension rule (DESIGN §2.8).

Loop rule (partial correctness): with invariant Inv over the iteration count i and the loop-carried
state,   (1) Inv(0) at entry  [inv-init];   (2) for an arbitrary 0 <= i < n and an arbitrary carried
state satisfying Inv(i), one execution of the real body re-establishes Inv(i+1) on every normal /
continue path [inv-step] -- `return`, `raise` and `break` paths leave with the facts of that
iteration;   (3) after the loop only Inv(n) is known about the carried state.

Comprehension rule: the element expression is executed once for a symbolic index j; every fresh
symbol created during that execution is replaced by a Skolem function of j and the collected facts
are universally closed over 0 <= j < n.
"""
from __future__ import annotations

import json
import os

import ast
from typing import Any, Callable, Dict, List, Optional, Tuple

import z3

from . import model as M
from .model import Obj
from .values import (NORMAL, Brk, Builtin, CellRef, Cls, Cont, DictC, Fn, Kw, ListC, ObjC, Raised, Ret,
                     State, T, Tup, Unsupported)


# ============================================================================= iteration domains
class Domain:
    def __init__(self, n: Any, elem: Callable[[Any, State], Any], desc: str, concrete: Optional[List[Any]] = None):
        self.n = n
        self.elem = elem
        self.desc = desc
        self.concrete = concrete


def domain_of(ex, v: Any, st: State) -> Domain:
    if isinstance(v, Tup):
        items = list(v.items)
        return Domain(z3.IntVal(len(items)), lambda i, s: None, "tuple-literal", concrete=items)
    if isinstance(v, Builtin) and v.name == "enumerate_view":
        inner = domain_of(ex, v.bound, st)
        if inner.concrete is not None:
            return Domain(inner.n, None, "enumerate", concrete=[Tup((ex.const(k), x)) for k, x in enumerate(inner.concrete)])
        return Domain(inner.n, lambda i, s: Tup((T(M.IntV(i), "int"), inner.elem(i, s))), "enumerate")
    if isinstance(v, Builtin) and v.name == "zip_view":
        a, b = domain_of(ex, v.bound[0], st), domain_of(ex, v.bound[1], st)
        if a.concrete is not None or b.concrete is not None:
            raise Unsupported("zip of a literal")
        n = z3.If(a.n < b.n, a.n, b.n)
        return Domain(n, lambda i, s: Tup((a.elem(i, s), b.elem(i, s))), "zip")
    if isinstance(v, Builtin) and v.name == "dict_items_view":
        d = ex.dict_snap(v.bound, st)
        dm = Domain(M.klen(d), lambda i, s: Tup((T(M.kat(d, i)), T(M.dget(d, M.kat(d, i))))), "dict.items")
        dm.src_dict = d
        return dm
    if isinstance(v, Builtin) and v.name == "range_view":
        lo, hi = v.bound
        n = z3.If(hi > lo, hi - lo, 0)
        return Domain(n, lambda i, s: T(M.IntV(lo + i), "int"), "range")
    h = ex.hint_of(v, st)
    if h is None and isinstance(v, T):
        h = ex.refine_hint(v, st, ("list", "tuple", "str", "dict", "set"))
    if h in ("list", "tuple"):
        z = ex.seq_snap(v, st)
        d = Domain(M.llen(z), lambda i, s: T(M.lat(z, i)), h)
        d.src = z
        return d
    if h == "str":
        z = ex.term(v, st)
        return Domain(z3.Length(M.sval(z)), lambda i, s: T(M.StrV(z3.SubString(M.sval(z), i, 1)), "str"), "str")
    if h == "dict":
        z = ex.dict_snap(v, st)
        return Domain(M.klen(z), lambda i, s: T(M.kat(z, i)), "dict-keys")
    if h in ("set", "frozenset"):
        z = ex.term(v, st)
        ex.used_assumptions.add("iteration order of a set is an uninterpreted permutation depending on the "
                                "interpreter's hash seed (setord)")

        def el(i, s, z=z):
            e = M.setord(ex.hashseed, z, i)
            s.assume(M.has(z, e))
            return T(e)
        d = Domain(M.klen(z), el, "set")
        d.elem_term = lambda i, z=z: M.setord(ex.hashseed, z, i)
        return d
    if h == "PathHolder":
        z = ex.term(v, st)
        seq = z3.Select(st.ph, z)
        d = Domain(z3.Length(seq), lambda i, s: T(seq[i]), "PathHolder")
        d.seq = seq
        return d
    raise Unsupported(f"iteration over {v!r}")


def b_enumerate(ex, pos, kws, st):
    return [(st, Builtin("enumerate_view", pos[0]))]


def b_zip(ex, pos, kws, st):
    if len(pos) != 2:
        raise Unsupported("zip of other than two iterables")
    return [(st, Builtin("zip_view", (pos[0], pos[1])))]


def b_range(ex, pos, kws, st):
    zs = [M.int_of(ex.term(p, st)) for p in pos]
    if len(zs) == 1:
        lo, hi = z3.IntVal(0), zs[0]
    elif len(zs) == 2:
        lo, hi = zs
    else:
        raise Unsupported("range with step")
    return [(st, Builtin("range_view", (lo, hi)))]


# ============================================================================= for loops
RESTRUCTURED: set = set()      # functions whose `for` statements differ from the recorded ones
NO_RECORD = False      # set while a canary mutant is being verified: its source is not the pristine one


def _loops_of(node: ast.AST) -> List[ast.For]:
    fors = [n for n in ast.walk(node) if isinstance(n, ast.For)]
    fors.sort(key=lambda n: (n.lineno, n.col_offset))
    return fors


def _loop_header(n: ast.For) -> str:
    """shape of `for <target> in <iter>` with every local name blanked (renaming locals must not change it); attribute
    names, call structure and constants stay"""
    import copy
    import re as _re
    txt = ast.dump(n.target) + " in " + ast.dump(n.iter)
    return _re.sub(r"Name\(id='[^']*'", "Name(id='_'", txt)


def loop_ordinal(info, stmt: ast.For) -> int:
    """ordinal of the loop *as the sidecar invariants number it*.  On the pristine tree that is the position among the
    function's `for` statements; invariant_locals.json records every loop's header then, and when the function's loops
    have changed since (one removed, added, reordered) a loop is matched to its recorded ordinal by its header
    (`for <target> in <iter>`), provided that is unambiguous -- otherwise it has no invariant (undecided, never a wrong
    invariant applied to another loop)."""
    fors = _loops_of(info.node)
    cur = -1
    for k, n in enumerate(fors):
        if n.lineno == stmt.lineno and n.col_offset == stmt.col_offset:
            cur = k
    headers = [_loop_header(n) for n in fors]
    bodies = [_loop_header(n) + " : " + "; ".join(ast.dump(b) for b in n.body) for n in fors]
    key = f"{info.relpath}|{info.qualname}"
    if os.environ.get("PYVC_WRITE_LOCALS") == "1" and not NO_RECORD:
        _record(key, "_loops", headers)
        _record(key, "_loop_bodies", bodies)
        return cur
    rec = _load_locals().get(key, {}).get("_loops")
    if rec is None or rec == headers or cur < 0:
        return cur
    RESTRUCTURED.add(key)
    recb = _load_locals().get(key, {}).get("_loop_bodies") or []
    if recb.count(bodies[cur]) == 1 and bodies.count(bodies[cur]) == 1:
        return recb.index(bodies[cur])      # the very same loop (header and body), wherever it moved
    h = headers[cur]
    if rec.count(h) != headers.count(h) or rec.count(h) == 0:
        return -1            # ambiguous or unknown: no invariant for this loop
    nth = [i for i, x in enumerate(headers) if x == h].index(cur)
    return [i for i, x in enumerate(rec) if x == h][nth]


def assigned_names(body: List[ast.stmt]) -> List[str]:
    out: List[str] = []
    for st in body:
        for n in ast.walk(st):
            if isinstance(n, ast.Name) and isinstance(n.ctx, ast.Store) and n.id not in out:
                out.append(n.id)
            if isinstance(n, ast.AugAssign) and isinstance(n.target, ast.Name) and n.target.id not in out:
                out.append(n.target.id)
    return out


def mutated_receivers(body: List[ast.stmt]) -> List[str]:
    """Names used as receivers of a mutating method call / subscript store in the body."""
    from .executor import MUTATORS
    out: List[str] = []
    for st in body:
        for n in ast.walk(st):
            if isinstance(n, ast.Call) and isinstance(n.func, ast.Attribute) and n.func.attr in MUTATORS:
                base = n.func.value
                while isinstance(base, (ast.Attribute, ast.Subscript)):
                    base = base.value
                if isinstance(base, ast.Name) and base.id not in out:
                    out.append(base.id)
            if isinstance(n, ast.Subscript) and isinstance(n.ctx, ast.Store):
                base = n.value
                while isinstance(base, (ast.Attribute, ast.Subscript)):
                    base = base.value
                if isinstance(base, ast.Name) and base.id not in out:
                    out.append(base.id)
    return out


# ----------------------------------------------------------------------------- locals named by sidecar invariants
LOCALS_FILE = os.path.join(os.path.dirname(os.path.dirname(os.path.abspath(__file__))), "invariant_locals.json")
_locals_cache: Optional[Dict[str, Any]] = None


def _assignments(node: ast.AST) -> List[Tuple[str, str]]:
    """(target name, fingerprint of the right-hand side) of every single-name assignment, in source order"""
    out: List[Tuple[str, str]] = []
    for n in ast.walk(node):
        if isinstance(n, ast.Assign) and len(n.targets) == 1 and isinstance(n.targets[0], ast.Name):
            out.append((n.lineno, n.targets[0].id, ast.dump(n.value)))
        elif isinstance(n, ast.AnnAssign) and isinstance(n.target, ast.Name) and n.value is not None:
            out.append((n.lineno, n.target.id, ast.dump(n.value)))
    out.sort()
    return [(t, f) for _, t, f in out]


def _load_locals() -> Dict[str, Any]:
    global _locals_cache
    if _locals_cache is None:
        try:
            _locals_cache = json.load(open(LOCALS_FILE))
        except Exception:
            _locals_cache = {}
    return _locals_cache


def _record(key: str, name: str, value: Any) -> None:
    import fcntl
    with open(LOCALS_FILE + ".lock", "w") as lk:
        fcntl.flock(lk, fcntl.LOCK_EX)
        try:
            data = json.load(open(LOCALS_FILE))
        except Exception:
            data = {}
        if data.setdefault(key, {}).get(name) != value:
            data[key][name] = value
            with open(LOCALS_FILE, "w") as f:
                json.dump(data, f, indent=1, sort_keys=True)


def record_local(info: Any, name: str) -> None:
    """(PYVC_WRITE_LOCALS=1, pristine tree) remember how the local an invariant names is initialised"""
    asg = _assignments(info.node)
    mine = [f for t, f in asg if t == name]
    if not mine:
        return          # a parameter or loop target: renaming those is not handled
    fp = mine[0]
    order: List[str] = []
    for t, f in asg:
        if f == fp and t not in order:
            order.append(t)
    nth = order.index(name)
    key = f"{info.relpath}|{info.qualname}"
    import fcntl
    with open(LOCALS_FILE + ".lock", "w") as lk:
        fcntl.flock(lk, fcntl.LOCK_EX)
        try:
            data = json.load(open(LOCALS_FILE))
        except Exception:
            data = {}
        if data.setdefault(key, {}).get(name) != {"rhs": fp, "nth": nth}:
            data[key][name] = {"rhs": fp, "nth": nth}
            with open(LOCALS_FILE, "w") as f:
                json.dump(data, f, indent=1, sort_keys=True)


def resolve_renamed(info: Any, name: str) -> Optional[str]:
    ent = _load_locals().get(f"{info.relpath}|{info.qualname}", {}).get(name)
    if not ent:
        return None
    same = [t for t, f in _assignments(info.node) if f == ent["rhs"]]
    # de-duplicate re-assignments of the same name, keep order
    order: List[str] = []
    for t in same:
        if t not in order:
            order.append(t)
    return order[ent["nth"]] if ent["nth"] < len(order) else None


class LoopView:
    """What a sidecar invariant sees."""

    def __init__(self, ex, st: State, entry: State, i: Any, n: Any, args: Dict[str, Any]) -> None:
        self.ex, self.st, self.entry, self.i, self.n = ex, st, entry, i, n
        self.args = args
        self.ct = ex.ct
        self.ph, self.alloc = st.ph, st.alloc
        self.ph_entry, self.alloc_entry = entry.ph, entry.alloc

    def _term(self, st: State, name: str) -> Any:
        info = st.env.get("__func__") or getattr(self.ex, "current_info", None)
        if name in st.env and os.environ.get("PYVC_WRITE_LOCALS") == "1" and info is not None and not NO_RECORD:
            record_local(info, name)
        if name not in st.env and info is not None:
            # the local may just have been renamed: find the assignment with the recorded fingerprint
            new = resolve_renamed(info, name)
            if new is not None and new in st.env:
                self.ex.used_assumptions.add(f"sidecar invariant re-keyed after a rename: `{name}` is now `{new}` "
                                             f"(matched by its initialising assignment)")
                name = new
        if name not in st.env:
            # a sidecar invariant names the function's locals: after a rename the loop is simply without a usable
            # invariant (the function is reported undecided), never a crash and never an alarm
            raise Unsupported(f"the sidecar invariant of this loop refers to the local `{name}`, which does not exist "
                              f"(renamed?): the invariant has to be re-keyed")
        v = st.env[name]
        if isinstance(v, CellRef):
            c = st.cells[v.id]
            if isinstance(c, (ListC, DictC)):
                return c.snap
            if isinstance(c, ObjC):
                e = c.get("_errors")
                if isinstance(e, CellRef):
                    return st.cells[e.id].snap
                raise Unsupported(f"invariant refers to object {name}")
        if isinstance(v, T):
            return v.z
        if isinstance(v, Kw):
            return v.z
        raise Unsupported(f"invariant refers to {name} = {v!r}")

    def v(self, name: str) -> Any:
        return self._term(self.st, name)

    def pre(self, name: str) -> Any:
        return self._term(self.entry, name)

    def has(self, name: str) -> bool:
        return name in self.st.env

    def arg(self, name: str) -> Any:
        return self.args[name]


def havoc_state(ex, st: State, carried: List[str], heap: bool) -> None:
    """Replace every loop-carried variable / cell by a fresh symbol of the same shape."""
    done: set = set()

    def hv_cell(cid: int) -> None:
        if cid in done:
            return
        done.add(cid)
        c = st.cells[cid]
        if isinstance(c, ListC):
            z = M.fresh("Lh")
            st.assume(M.is_Ref(z), M.rcls(z) == M.rcls(c.snap))
            st.cells[cid] = ListC(z)
        elif isinstance(c, DictC):
            z = M.fresh("Dh")
            st.assume(M.is_Ref(z), M.rcls(z) == M.rcls(c.snap))
            st.cells[cid] = DictC(z)
        elif isinstance(c, ObjC):
            if c.frozen:
                raise Unsupported("loop mutates an escaped object")
            for k, a in c.attrs:
                if isinstance(a, CellRef):
                    hv_cell(a.id)

    for name in carried:
        if name not in st.env:
            continue
        v = st.env[name]
        if isinstance(v, CellRef):
            hv_cell(v.id)
        elif isinstance(v, T):
            st.env[name] = T(M.fresh("h_" + name), v.hint)
        elif isinstance(v, (Tup, Cls, Fn, Builtin, Kw)):
            if isinstance(v, Tup):
                raise Unsupported(f"loop-carried tuple variable {name}")
    if heap:
        ph1 = M.fresh("phL", z3.ArraySort(Obj, M.SeqObj))
        a1 = M.fresh("allocL", M.I)
        p = z3.Const("p", Obj)
        st.assume(a1 >= st.alloc,
                  z3.ForAll([p], z3.Implies(M.rid(p) < st.alloc, z3.Select(ph1, p) == z3.Select(st.ph, p)),
                            patterns=[z3.Select(ph1, p)]))
        st.ph, st.alloc = ph1, a1


def exec_for(ex, stmt: ast.For, st: State) -> List[Tuple[State, Any]]:
    if stmt.orelse:
        raise Unsupported("for-else")
    info = st.env.get("__func__")
    out: List[Tuple[State, Any]] = []
    for s, itv in ex.ev(stmt.iter, st):
        if isinstance(itv, Raised):
            out.append((s, itv))
            continue
        if isinstance(itv, T) and itv.hint is None and ex.hint_of(itv, s) is None \
                and ex.refine_hint(itv, s, ("list", "tuple", "str", "dict", "set")) is None:
            # statically unknown iterable: fork over the container kinds it may be
            rest = s
            alts = []
            for kind_ in ("list", "tuple", "set", "dict", "str"):
                cond = M.isinstance_f(ex.ct, itv.z, kind_)
                if ex.sat(rest, cond):
                    alts.append((rest.fork().assume(cond), T(itv.z, kind_)))
                rest = rest.assume(z3.Not(cond))
            if ex.sat(rest):
                raise Unsupported(f"iteration over a value that may be none of list/tuple/set/dict/str")
        else:
            alts = [(s, itv)]
        for s, itv in alts:
            out += _for_one(ex, stmt, info, itv, s)
    return out


def _for_one(ex, stmt: ast.For, info, itv: Any, s: State) -> List[Tuple[State, Any]]:
    out: List[Tuple[State, Any]] = []
    if True:
        dom = domain_of(ex, itv, s)
        if dom.concrete is not None:
            out += unroll(ex, stmt, dom.concrete, s)
            return out
        k = loop_ordinal(info, stmt)
        inv = ex.contracts.lookup_invariant(info, k, ex) if k >= 0 else None
        if inv is None:
            raise Unsupported(f"loop #{k} of {info.qualname} (line {stmt.lineno}) has no sidecar invariant"
                              + (" (the function's loops changed and this one cannot be matched to a recorded one)" if k < 0 else ""))
        ex.loop_domain = dom
        out += with_invariant(ex, stmt, dom, inv, info, k, s)
    return out


def unroll(ex, stmt: ast.For, items: List[Any], st: State) -> List[Tuple[State, Any]]:
    states: List[Tuple[State, Any]] = [(st, NORMAL)]
    for it in items:
        nxt: List[Tuple[State, Any]] = []
        for s, o in states:
            if o is not NORMAL:
                nxt.append((s, o))
                continue
            for s2, o2 in ex.assign(stmt.target, it, s):
                if o2 is not NORMAL:
                    nxt.append((s2, o2))
                    continue
                for s3, o3 in ex.ex_block(stmt.body, s2):
                    if isinstance(o3, Cont):
                        nxt.append((s3, NORMAL))
                    else:
                        nxt.append((s3, o3))
        states = nxt
    return [(s, NORMAL if isinstance(o, Brk) else o) for s, o in states]


def with_invariant(ex, stmt: ast.For, dom: Domain, inv, info, k: int, entry: State) -> List[Tuple[State, Any]]:
    q = info.qualname
    carried = list(dict.fromkeys(list(inv.carried) + assigned_names(stmt.body) + mutated_receivers(stmt.body)))
    targets = [n.id for n in ast.walk(stmt.target) if isinstance(n, ast.Name)]
    carried = [c for c in carried if c not in targets]
    args = getattr(ex, "contract_args", {})
    n = dom.n
    entry0 = entry.fork()      # immutable snapshot of the loop-entry state (for `pre`)
    # (1) init
    L0 = LoopView(ex, entry0, entry0, z3.IntVal(0), n, args)
    ex.oblige(entry, f"{q}:loop#{k}:inv-init", "inv-init", inv.fn(L0),
              getattr(ex, "current_props", ()), text=f"invariant of loop #{k} holds at entry",
              where=f"line {stmt.lineno}")
    out: List[Tuple[State, Any]] = []
    # (2) arbitrary iteration
    s_it = entry.fork()
    havoc_state(ex, s_it, carried, heap=True)
    i = M.fresh("it", M.I)
    s_it.assume(0 <= i, i < n)
    Li = LoopView(ex, s_it, entry0, i, n, args)
    s_it.assume(inv.fn(Li))
    saved_floor = getattr(ex, "frame_floor", None)
    ex.frame_floor = s_it.alloc
    try:
        if ex.sat(s_it):
            el = dom.elem(i, s_it)
            for s2, o2 in ex.assign(stmt.target, el, s_it):
                if o2 is not NORMAL:
                    out.append((s2, o2))
                    continue
                for s3, o3 in ex.ex_block(stmt.body, s2):
                    if o3 is NORMAL or isinstance(o3, Cont):
                        L1 = LoopView(ex, s3, entry0, i + 1, n, args)
                        ex.oblige(s3, f"{q}:loop#{k}:inv-step", "inv-step", inv.fn(L1),
                                  getattr(ex, "current_props", ()),
                                  text=f"invariant of loop #{k} is preserved by the body",
                                  where=f"line {stmt.lineno}")
                    elif isinstance(o3, Brk):
                        out.append((s3, NORMAL))
                    else:
                        out.append((s3, o3))
    finally:
        ex.frame_floor = saved_floor
    # (3) exit
    s_ex = entry
    havoc_state(ex, s_ex, carried, heap=True)
    Ln = LoopView(ex, s_ex, entry0, n, n, args)
    s_ex.assume(inv.fn(Ln))
    out.append((s_ex, NORMAL))
    return out


# ============================================================================= comprehensions
def _fresh_consts_since(exprs: List[Any], mark: int) -> List[Any]:
    seen: Dict[int, Any] = {}
    out: Dict[str, Any] = {}

    def go(e: Any) -> None:
        if e.get_id() in seen:
            return
        seen[e.get_id()] = e
        if z3.is_quantifier(e):
            go(e.body())
            return
        if z3.is_app(e):
            if e.num_args() == 0 and e.decl().kind() == z3.Z3_OP_UNINTERPRETED:
                nm = e.decl().name()
                if "!" in nm:
                    try:
                        idx = int(nm.rsplit("!", 1)[1])
                    except ValueError:
                        idx = -1
                    if idx > mark:
                        out[nm] = e
            for c in e.children():
                go(c)
    for e in exprs:
        go(e)
    return list(out.values())


def skolemize(exprs: List[Any], mark: int, j: Any) -> Tuple[List[Any], List[Tuple[Any, Any]]]:
    consts = _fresh_consts_since(exprs, mark)
    subs = []
    for c in consts:
        f = z3.Function(f"sk_{c.decl().name()}", M.I, c.sort())
        subs.append((c, f(j)))
    return [z3.substitute(e, *subs) if subs else e for e in exprs], subs


def eval_comprehension(ex, node: Any, st: State, kind: str) -> List[Tuple[State, Any]]:
    if len(node.generators) != 1 or node.generators[0].is_async:
        raise Unsupported("nested comprehension")
    gen = node.generators[0]
    out: List[Tuple[State, Any]] = []
    for s, itv in ex.ev(gen.iter, st):
        if isinstance(itv, Raised):
            out.append((s, itv))
            continue
        dom = domain_of(ex, itv, s)
        if dom.concrete is not None:
            out += comp_concrete(ex, node, gen, dom.concrete, s, kind)
            continue
        if (kind == "list" and getattr(dom, "seq", None) is not None and not gen.ifs
                and isinstance(node.elt, ast.Name) and isinstance(gen.target, ast.Name)
                and node.elt.id == gen.target.id):
            # [x for x in path]: the list view of the PathHolder's operator sequence
            R = M.list_of_seq(dom.seq)
            s.assume(M.rcls(R) == ex.ct.id("list"))
            out.append((s, T(R, "list")))
            continue
        for s2, r2 in comp_symbolic(ex, node, gen, dom, s, kind):
            if kind == "list" and isinstance(r2, T) and r2.hint == "list":
                # a list comprehension yields a fresh list object: a local cell (it may be sorted / appended to later)
                r2 = ex.new_cell(s2, ListC(r2.z))
            out.append((s2, r2))
    return out


def comp_concrete(ex, node, gen, items: List[Any], st: State, kind: str) -> List[Tuple[State, Any]]:
    """a comprehension / generator expression over a tuple whose items are known one by one (`(a, b, c)`): unrolled"""
    if kind not in ("list", "gen"):
        raise Unsupported("set / dict comprehension over a literal tuple")
    if len(items) > 12:
        raise Unsupported("comprehension over a long literal tuple")
    saved_env = dict(st.env)
    states: List[Tuple[State, List[Any]]] = [(st, [])]
    out: List[Tuple[State, Any]] = []
    for item in items:
        nxt: List[Tuple[State, List[Any]]] = []
        for s0, acc in states:
            for s1, o1 in ex.assign(gen.target, item, s0):
                if o1 is not NORMAL:
                    out.append((s1, o1))
                    continue
                conds: List[Tuple[State, Any]] = [(s1, True)]
                for cnd in gen.ifs:
                    step = []
                    for s2, ok in conds:
                        if ok is not True:
                            step.append((s2, ok))
                            continue
                        for s3, cv in ex.ev(cnd, s2):
                            if isinstance(cv, Raised):
                                out.append((s3, cv))
                                continue
                            for s4, b in ex.branch(s3, ex.truth(cv, s3)):
                                step.append((s4, True if b else "skip"))
                    conds = step
                for s2, ok in conds:
                    if ok == "skip":
                        nxt.append((s2, acc))
                        continue
                    for s3, ev_ in ex.ev(node.elt, s2):
                        if isinstance(ev_, Raised):
                            out.append((s3, ev_))
                        else:
                            nxt.append((s3, acc + [ev_]))
        states = nxt
        if len(states) > 64:
            raise Unsupported("comprehension over a literal tuple forks too often")
    for s0, acc in states:
        s0.env = dict(saved_env)
        out.append((s0, ex.new_list(s0, acc)))
    return out


def comp_symbolic(ex, node, gen, dom: Domain, st: State, kind: str) -> List[Tuple[State, Any]]:
    n = dom.n
    j = M.fresh("cj", M.I)
    mark = M._ctr[0]
    base_len = len(st.pc)
    s1 = st.fork()
    s1.assume(0 <= j, j < n)
    saved_env = dict(s1.env)
    saved_floor = getattr(ex, "frame_floor", None)
    ex.frame_floor = s1.alloc
    el = dom.elem(j, s1)
    # element outcomes: (state, ("keep", value) | ("skip",) | Raised)
    outs: List[Tuple[State, Any]] = []
    for s2, o2 in ex.assign(gen.target, el, s1):
        if o2 is not NORMAL:
            outs.append((s2, o2))
            continue
        conds: List[Tuple[State, Any]] = [(s2, True)]
        for cnd in gen.ifs:
            nxt = []
            for s3, ok in conds:
                if ok is not True:
                    nxt.append((s3, ok))
                    continue
                for s4, cv in ex.ev(cnd, s3):
                    if isinstance(cv, Raised):
                        nxt.append((s4, cv))
                        continue
                    for s5, b in ex.branch(s4, ex.truth(cv, s4)):
                        nxt.append((s5, True if b else "skip"))
            conds = nxt
        for s3, ok in conds:
            if isinstance(ok, Raised):
                outs.append((s3, ok))
            elif ok == "skip":
                outs.append((s3, ("skip",)))
            else:
                if kind == "dict":
                    for s4, kv in ex.ev_seq([node.key, node.value], s3):
                        outs.append((s4, kv if isinstance(kv, Raised) else ("keep", kv)))
                else:
                    for s4, v in ex.ev(node.elt, s3):
                        outs.append((s4, v if isinstance(v, Raised) else ("keep", v)))
    ex.frame_floor = saved_floor
    results: List[Tuple[State, Any]] = []
    heap_touched = any(not (s.ph is st.ph or z3.eq(s.ph, st.ph)) for s, o in outs)
    normal = [(s, o) for s, o in outs if not isinstance(o, Raised)]
    raised = [(s, o) for s, o in outs if isinstance(o, Raised)]
    # raise outcomes: some element raises (facts of that element kept for a witness index)
    for s, o in raised:
        s.env = dict(saved_env)
        results.append((s, o))
    if not normal:
        # every element raises: a normal result only for the empty iterable
        s0 = st.fork().assume(n == 0)
        if ex.sat(s0):
            results.append((s0, _empty_result(ex, s0, kind)))
        return results
    # universally closed facts of the normal outcomes
    has_skip = any(o == ("skip",) for _, o in normal)
    branches = []
    for s, o in normal:
        facts = s.pc[base_len + 2:]          # after `0 <= j`, `j < n`
        if o == ("skip",):
            branches.append((facts, None))
        else:
            v = o[1]
            if kind == "dict":
                zt = [ex.term(v[0], s), ex.term(v[1], s)]
            else:
                zt = [ex.term(v, s)]
            facts = s.pc[base_len + 2:]
            branches.append((facts, zt))
    if not hasattr(ex, "fresh_terms"):
        ex.fresh_terms = set()
    sN = st
    if heap_touched:
        # every element evaluation preserves all PathHolders allocated before it (frame obligations of
        # the inlined code / frame axioms of the callees): afterwards only that frame is known
        ex.contracts._havoc_paths(ex, sN)
    R = M.fresh("comp")
    ex.fresh_terms.add(R.get_id())       # a comprehension result is a freshly allocated container
    inr = z3.And(0 <= j, j < n)
    jj = z3.Int("cjq")
    if not has_skip and kind in ("list", "gen"):
        sN.assume(M.is_Ref(R), M.rcls(R) == ex.ct.id("list"), M.llen(R) == z3.If(n > 0, n, 0))
        disj = []
        for facts, zt in branches:
            exprs, _ = skolemize(list(facts) + [zt[0]], mark, j)
            disj.append(z3.And(*exprs[:-1], M.lat(R, j) == exprs[-1]))
        body = z3.Implies(inr, z3.Or(*disj))
        pats = [M.lat(R, jj)]
        if getattr(dom, "src", None) is not None:
            pats.append(M.lat(dom.src, jj))        # also fire on the source element
        sN.assume(z3.ForAll([jj], z3.substitute(body, (j, jj)), patterns=pats))
        return results + [(sN, T(R, "list"))]
    if kind == "dict" and not has_skip:
        ex.used_assumptions.add("dict comprehension over dict.items(): keys are the (distinct) source keys in order")
        sN.assume(M.is_Ref(R), M.rcls(R) == ex.ct.id("dict"), M.klen(R) == z3.If(n > 0, n, 0))
        disj = []
        for facts, zt in branches:
            exprs, _ = skolemize(list(facts) + zt, mark, j)
            kz, vz = exprs[-2], exprs[-1]
            disj.append(z3.And(*exprs[:-2], M.kat(R, j) == kz, M.has(R, kz), M.dget(R, kz) == vz))
        body = z3.Implies(inr, z3.Or(*disj))
        pats = [M.kat(R, jj)]
        if getattr(dom, "src_dict", None) is not None:
            pats.append(M.kat(dom.src_dict, jj))
        sN.assume(z3.ForAll([jj], z3.substitute(body, (j, jj)), patterns=pats))
        return results + [(sN, T(R, "dict"))]
    # filtered list / set comprehension: the trusted filter rule
    keep_conds = []
    elt_terms = []
    for facts, zt in branches:
        exprs, _ = skolemize(list(facts) + ([zt[0]] if zt else []), mark, j)
        if zt is None:
            continue
        keep_conds.append(z3.And(*exprs[:-1]) if exprs[:-1] else z3.BoolVal(True))
        elt_terms.append(exprs[-1])
    if len(keep_conds) != 1:
        raise Unsupported("filtered comprehension with branching element")
    g = lambda t: z3.substitute(keep_conds[0], (j, t))
    e = lambda t: z3.substitute(elt_terms[0], (j, t))
    ex.used_assumptions.add("filter rule for comprehensions: the result holds exactly the kept elements in order; "
                            "len(result) == len(source) iff every element is kept")
    kk = z3.Int("ck")
    if kind in ("list", "gen") and getattr(dom, "src", None) is not None:
        # `[x for x in xs if not is_ellipsis(x)]`: the count of kept items is nonell_count(xs)
        jq = z3.Int("fq")
        chk = z3.SimpleSolver()
        chk.set("timeout", 2000)
        chk.add(z3.Not(z3.And(g(jq) == (M.lat(dom.src, jq) != M.EllV), e(jq) == M.lat(dom.src, jq))))
        if chk.check() == z3.unsat:
            sN.assume(M.llen(R) == M.nonell_count(dom.src))
    if kind in ("list", "gen"):
        fi = z3.Function(f"fi_{R}", M.I, M.I)
        sN.assume(M.is_Ref(R), M.rcls(R) == ex.ct.id("list"), M.llen(R) <= z3.If(n > 0, n, 0),
                  z3.ForAll([kk], z3.Implies(z3.And(0 <= kk, kk < M.llen(R)),
                                             z3.And(0 <= fi(kk), fi(kk) < n, kk <= fi(kk), g(fi(kk)),
                                                    M.lat(R, kk) == e(fi(kk)))),
                            patterns=[M.lat(R, kk)]),
                  (M.llen(R) == z3.If(n > 0, n, 0)) ==
                  z3.ForAll([jj], z3.Implies(z3.And(0 <= jj, jj < n), g(jj))),
                  z3.Implies(M.llen(R) == z3.If(n > 0, n, 0),
                             z3.ForAll([kk], z3.Implies(z3.And(0 <= kk, kk < M.llen(R)), fi(kk) == kk),
                                       patterns=[fi(kk)])))
        return results + [(sN, T(R, "list"))]
    if kind == "set":
        x = z3.Const("sx", Obj)
        wi = z3.Function(f"wi_{R}", Obj, M.I)
        sN.assume(M.is_Ref(R), M.rcls(R) == ex.ct.id("set"),
                  z3.ForAll([jj], z3.Implies(z3.And(0 <= jj, jj < n, g(jj)), M.has(R, e(jj)))),
                  z3.ForAll([x], z3.Implies(M.has(R, x), z3.And(0 <= wi(x), wi(x) < n, g(wi(x)), e(wi(x)) == x)),
                            patterns=[M.has(R, x)]),
                  (M.klen(R) > 0) == z3.Exists([jj], z3.And(0 <= jj, jj < n, g(jj))))
        return results + [(sN, T(R, "set"))]
    raise Unsupported(f"comprehension kind {kind}")


def _empty_result(ex, st: State, kind: str) -> Any:
    if kind in ("list", "gen"):
        return ex.new_list(st)
    if kind == "dict":
        return ex.new_dict(st)
    return T(ex.empty_dict_term(st, "S"), "set")


# ============================================================================= str.join / split / all / any
joined = M.joined      # sep.join(list)


def str_join(ex, recv: Any, arg: Any, st: State) -> List[Tuple[State, Any]]:
    sep = M.sval(ex.term(recv, st))
    if ex.hint_of(arg, st) in ("set", "frozenset"):
        # joining a set: the list of its members in the (hash-seed dependent) iteration order
        sz = ex.term(arg, st)
        lv = M.fresh("setlist")
        jq = z3.Int("sj")
        st.assume(M.is_Ref(lv), M.rcls(lv) == ex.ct.id("list"), M.llen(lv) == M.klen(sz),
                  z3.ForAll([jq], z3.Implies(z3.And(0 <= jq, jq < M.klen(sz)), M.lat(lv, jq) == M.setord(ex.hashseed, sz, jq)),
                            patterns=[M.lat(lv, jq)]))
        ex.used_assumptions.add("iteration order of a set is an uninterpreted permutation depending on the "
                                "interpreter's hash seed (setord)")
        arg = T(lv, "list")
    lst = ex.seq_snap(arg, st)
    r = joined(sep, lst)
    n = M.llen(lst)
    j = z3.Int("jj")
    ex.used_assumptions.add("str.join: '' for an empty list; the single element for a one-element list; with an "
                            "empty separator and one-character elements the result has those characters in order")
    jw = M.fresh("joinw", M.I)      # explicit witness instead of a nested quantifier
    one = lambda t: z3.And(M.is_StrV(M.lat(lst, t)), z3.Length(M.sval(M.lat(lst, t))) == 1)
    st.assume(z3.Implies(n == 0, r == z3.StringVal("")),
              z3.Implies(n == 1, r == M.sval(M.lat(lst, 0))),
              z3.Or(z3.Length(sep) != 0,
                    z3.And(0 <= jw, jw < n, z3.Not(one(jw))),
                    z3.And(z3.Length(r) == z3.If(n > 0, n, 0),
                           z3.ForAll([j], z3.Implies(z3.And(0 <= j, j < n),
                                                     z3.SubString(r, j, 1) == M.sval(M.lat(lst, j))),
                                     patterns=[z3.SubString(r, j, 1)]))))
    # TypeError when an element is not a str
    bad = z3.Exists([j], z3.And(0 <= j, j < n, z3.Not(M.is_StrV(M.lat(lst, j)))))
    out = []
    for s, b in ex.branch(st, bad):
        if b:
            out.append((s, Raised("TypeError", None, "join of non-str element")))
        else:
            out.append((s, T(M.StrV(r), "str")))
    return out


def str_split(ex, recv: Any, arg: Any, st: State) -> List[Tuple[State, Any]]:
    raise Unsupported("str.split")


def b_all(ex, pos, kws, st):
    return _allany(ex, pos, st, True)


def b_any(ex, pos, kws, st):
    return _allany(ex, pos, st, False)


def _allany(ex, pos, st, is_all: bool):
    (v,) = pos
    z = ex.seq_snap(v, st)
    j = z3.Int("aj")
    tr = lambda t: ex.truth(T(t), st)
    if is_all:
        f = z3.ForAll([j], z3.Implies(z3.And(0 <= j, j < M.llen(z)), tr(M.lat(z, j))), patterns=[M.lat(z, j)])
    else:
        f = z3.Exists([j], z3.And(0 <= j, j < M.llen(z), tr(M.lat(z, j))))
    return [(st, T(M.BoolV(f), "bool"))]
