"""Loops (sidecar invariants) and the comprehension rule -- see DESIGN §2.8."""
from __future__ import annotations
from .values import Unsupported


def exec_for(ex, stmt, st):
    raise Unsupported(f"for loop at line {stmt.lineno} (no invariant support yet)")


def eval_comprehension(ex, node, st, kind):
    raise Unsupported(f"comprehension at line {node.lineno}")


def str_join(ex, recv, arg, st):
    raise Unsupported("str.join")


def str_split(ex, recv, arg, st):
    raise Unsupported("str.split")
