"""Symbolic executor for the Python subset of DESIGN §2.3 over the object model of model.py.

Fork-on-branch (no merging); every path ends in Return / Raise; loops need a sidecar invariant
(contracts.invariant) or fall under the comprehension rule.  Function calls are either *transparent*
(expanded from their real source), *opaque* (replaced by their sidecar contract), or modelled
builtins.  Anything else raises Unsupported -> the function's obligations are UNDECIDED.
"""
from __future__ import annotations

import ast
import os
from typing import Any, Callable, Dict, List, Optional, Sequence, Tuple

import z3

from . import model as M
from .model import Obj
from .source import ClassInfo, FuncInfo, Repo, eval_const
from .values import (NORMAL, Brk, Builtin, CellRef, Cls, Cont, DictC, Fn, Kw, KwD, Lam, ListC, Mod, ObjC,
                     Obligation, Raised, Ret, State, T, Tup, Unsupported)

MUTATORS = {"append", "insert", "extend", "sort", "add_error", "add_errors", "update", "add"}

EXT_VALUES: Dict[Tuple[str, Optional[str]], Any] = {}


def _ext(mod: str, name: Optional[str], val: Any) -> None:
    EXT_VALUES[(mod, name)] = val


_ext("niltype", "Nil", T(M.NilV, "NilType"))
_ext("niltype", "Nilable", Builtin("typing_any"))
_ext("typing", "cast", Builtin("cast"))
_ext("copy", "deepcopy", Builtin("deepcopy"))
_ext("copy", "copy", Builtin("copy"))
_ext("math", "isclose", Builtin("isclose"))
_ext("math", "isfinite", Builtin("isfinite"))
_ext("math", "isnan", Builtin("isnan"))
_ext("math", "isinf", Builtin("isinf"))
_ext("th", "PathHolder", Cls("PathHolder"))
_ext("datetime", "datetime", Cls("datetime"))
_ext("datetime", "date", Cls("date"))
_ext("datetime", "timedelta", Cls("timedelta"))
_ext("uuid", "UUID", Cls("UUID"))
_ext("uuid", "uuid4", Builtin("uuid4"))
_ext("os", "linesep", T(M.mk_str("\n"), "str"))
_ext("collections", "defaultdict", Builtin("defaultdict"))
_ext("abc", "ABC", Cls("ABC"))
for _m in ("re", "sys", "random", "string", "ast", "os"):
    _ext(_m, None, Mod(_m))

PY_BUILTIN_CLASSES = {"int", "str", "float", "bool", "bytes", "list", "tuple", "dict", "set",
                      "object", "type", "bytearray", "frozenset",
                      "ValueError", "TypeError", "KeyError", "IndexError", "AttributeError",
                      "NotImplementedError", "AssertionError", "Exception", "OverflowError",
                      "RuntimeError", "StopIteration"}
PY_BUILTIN_FUNCS = {"len", "isinstance", "issubclass", "getattr", "setattr", "max", "min", "round",
                    "repr", "enumerate", "range", "sorted", "all", "any", "chr", "ord", "hash",
                    "callable", "map", "super", "iter", "reversed", "abs", "print", "id", "zip"}


def pattern_ok(t: Any, _seen: Optional[set] = None) -> bool:
    """May term t be used inside a quantifier pattern (no ite / connectives / quantifiers)?"""
    seen = _seen if _seen is not None else set()
    if t.get_id() in seen:
        return True
    seen.add(t.get_id())
    if z3.is_quantifier(t):
        return False
    if z3.is_app(t):
        k = t.decl().kind()
        if k in (z3.Z3_OP_ITE, z3.Z3_OP_AND, z3.Z3_OP_OR, z3.Z3_OP_NOT, z3.Z3_OP_IMPLIES):
            return False
        return all(pattern_ok(c, seen) for c in t.children())
    return True


class Exec:
    def __init__(self, repo: Repo, ct: M.ClassTable, contracts: Any, fname: str = "") -> None:
        self.repo = repo
        self.ct = ct
        self.contracts = contracts
        self.fname = fname
        self.obligations: List[Obligation] = []
        self.base = M.base_axioms()
        self._cell_ctr = 0
        self.sat_calls = 0
        self.kw_empty = z3.Const("kw_empty", Obj)
        self.hashseed = z3.Int("hashseed")
        self.current_info: Optional[FuncInfo] = None
        self.inline_depth = 0
        self.variant = ""
        self.call_depth = 0
        self.used_assumptions: set = set()
        self.opaque_calls: set = set()
        self.inlined: set = set()
        self.extra_axioms: List[Any] = []
        self.ob_prefix = ""

    # ================================================================== solver helpers
    def _solver(self, timeout_ms: int = 4000) -> z3.Solver:
        s = z3.SimpleSolver()
        s.set("timeout", timeout_ms)
        s.set("auto_config", False)
        s.set("smt.mbqi", False)
        for a in self.base:
            s.add(a)
        for a in self.extra_axioms:
            s.add(a)
        return s

    def _inc_check(self, pc: List[Any], extra: Any) -> Any:
        """Incremental feasibility check: one solver whose assertion stack follows the path condition
        (one scope per fact); successive checks share long prefixes, so little is re-asserted."""
        if not hasattr(self, "_inc"):
            self._inc = self._solver(3000)
            # infeasible paths are refuted almost instantly; a feasible one only saturates E-matching.
            # A small deterministic resource limit (unknown = feasible) keeps the pruning sound.
            self._inc.set("rlimit", int(os.environ.get("PYVC_FEAS_RLIMIT", "60000")))
            self._inc_ids: List[int] = []
        ids = [f.get_id() for f in pc]
        k = 0
        n = min(len(ids), len(self._inc_ids))
        while k < n and ids[k] == self._inc_ids[k]:
            k += 1
        if len(self._inc_ids) > k:
            self._inc.pop(len(self._inc_ids) - k)
            del self._inc_ids[k:]
        for f, i in zip(pc[k:], ids[k:]):
            self._inc.push()
            self._inc.add(f)
            self._inc_ids.append(i)
        if extra is None:
            return self._inc.check()
        self._inc.push()
        self._inc.add(extra)
        r = self._inc.check()
        self._inc.pop()
        return r

    def sat(self, st: State, cond: Any = None) -> bool:
        """May `pc /\\ cond` be satisfiable?  (`unknown` counts as yes: pruning must be sound.)"""
        self.sat_calls += 1
        return self._inc_check(st.pc, cond) != z3.unsat

    def proves(self, st: State, goal: Any) -> bool:
        return self._inc_check(st.pc, z3.Not(goal)) == z3.unsat

    def branch(self, st: State, c: Any, exc: Optional[str] = None, what: str = "") -> List[Tuple[State, bool]]:
        """Fork on condition c.  With `exc`, c is the no-exception condition of a primitive: when the
        raising side is infeasible an exception-freedom obligation is recorded (C08 / C10 / C12)."""
        c = z3.simplify(c)
        if z3.is_true(c):
            return [(st, True)]
        if z3.is_false(c):
            return [(st, False)]
        out: List[Tuple[State, bool]] = []
        nc = z3.Not(c)
        t_ok = self.sat(st, c)
        # every live state has a satisfiable path condition, so if c is impossible its negation is not
        f_ok = self.sat(st, nc) if t_ok else True
        if exc is not None and t_ok and not f_ok:
            self.nothrow_ctr = getattr(self, "nothrow_ctr", 0) + 1
            self.oblige(st, f"{self.fname.split(':')[-1]}:nothrow[{exc}]#{self.nothrow_ctr}", "nothrow", c,
                        getattr(self, "nothrow_props", ()), text=f"{what} cannot raise {exc} here")
        if t_ok and f_ok:
            out.append((st.fork().assume(c), True))
            out.append((st.assume(nc), False))
        elif t_ok:
            out.append((st.assume(c), True))
        elif f_ok:
            out.append((st.assume(nc), False))
        return out

    def oblige(self, st: State, name: str, kind: str, goal: Any, props: Tuple[str, ...] = (),
               text: str = "", where: str = "") -> None:
        self.obligations.append(Obligation(
            name=self.ob_prefix + name, kind=kind, assumptions=list(st.pc), goal=goal,
            prop_ids=props, text=text, where=where, state=st))

    # ================================================================== cells
    def new_cell(self, st: State, c: Any) -> CellRef:
        self._cell_ctr += 1
        st.cells[self._cell_ctr] = c
        return CellRef(self._cell_ctr)

    def new_list(self, st: State, items: Sequence[Any] = (), hint: str = "L") -> CellRef:
        z = M.fresh(hint)
        st.assume(M.is_Ref(z), M.rcls(z) == self.ct.id("list"), M.llen(z) == len(items))
        for i, it in enumerate(items):
            st.assume(M.lat(z, i) == self.term(it, st))
        return self.new_cell(st, ListC(z))

    def list_term(self, st: State, items: Sequence[Any], cls: str = "list") -> Any:
        z = M.fresh("tup" if cls == "tuple" else "lst")
        st.assume(M.is_Ref(z), M.rcls(z) == self.ct.id(cls), M.llen(z) == len(items))
        for i, it in enumerate(items):
            st.assume(M.lat(z, i) == self.term(it, st))
        return z

    def new_dict(self, st: State, hint: str = "D") -> CellRef:
        z = self.empty_dict_term(st, hint)
        return self.new_cell(st, DictC(z))

    def empty_dict_term(self, st: State, hint: str = "D") -> Any:
        z = M.fresh(hint)
        k = z3.Const("k", Obj)
        st.assume(M.is_Ref(z), M.rcls(z) == self.ct.id("dict"), M.klen(z) == 0,
                  z3.ForAll([k], z3.Not(M.has(z, k)), patterns=[M.has(z, k)]))
        return z

    def dict_store(self, st: State, d0: Any, key: Any, val: Any, hint: str = "D") -> Any:
        """Snapshot after `d[key] = val`."""
        d1 = M.fresh(hint)
        x = z3.Const("x", Obj)
        j = z3.Int("j")
        st.assume(
            M.is_Ref(d1), M.rcls(d1) == M.rcls(d0),
            z3.ForAll([x], M.has(d1, x) == z3.Or(x == key, M.has(d0, x)), patterns=[M.has(d1, x)]),
            z3.ForAll([x], M.dget(d1, x) == z3.If(x == key, val, M.dget(d0, x)),
                      patterns=[M.dget(d1, x)]),
            z3.If(M.has(d0, key),
                  z3.And(M.klen(d1) == M.klen(d0),
                         z3.ForAll([j], M.kat(d1, j) == M.kat(d0, j), patterns=[M.kat(d1, j)])),
                  z3.And(M.klen(d1) == M.klen(d0) + 1, M.kat(d1, M.klen(d0)) == key,
                         z3.ForAll([j], z3.Implies(z3.And(0 <= j, j < M.klen(d0)),
                                                   M.kat(d1, j) == M.kat(d0, j)),
                                   patterns=[M.kat(d1, j)]))))
        return d1

    def dict_merge(self, st: State, a: Any, b: Any, hint: str = "D") -> Any:
        """Snapshot of `{**a, **b}`."""
        d = M.fresh(hint)
        x = z3.Const("x", Obj)
        j = z3.Int("j")
        st.assume(
            M.is_Ref(d), M.rcls(d) == self.ct.id("dict"),
            z3.ForAll([x], M.has(d, x) == z3.Or(M.has(a, x), M.has(b, x)), patterns=[M.has(d, x)]),
            z3.ForAll([x], M.dget(d, x) == z3.If(M.has(b, x), M.dget(b, x), M.dget(a, x)),
                      patterns=[M.dget(d, x)]),
            M.klen(d) >= M.klen(a), M.klen(d) <= M.klen(a) + M.klen(b),
            z3.ForAll([j], z3.Implies(z3.And(0 <= j, j < M.klen(a)), M.kat(d, j) == M.kat(a, j)),
                      patterns=[M.kat(d, j)]))
        return d

    def list_append(self, st: State, l0: Any, x: Any, hint: str = "L") -> Any:
        l1 = M.fresh(hint)
        j = z3.Int("j")
        st.assume(M.is_Ref(l1), M.rcls(l1) == M.rcls(l0), M.llen(l1) == M.llen(l0) + 1,
                  M.lat(l1, M.llen(l0)) == x,
                  z3.ForAll([j], z3.Implies(z3.And(0 <= j, j < M.llen(l0)),
                                            M.lat(l1, j) == M.lat(l0, j)), patterns=[M.lat(l1, j), M.lat(l0, j)]))
        return l1

    def list_concat(self, st: State, a: Any, b: Any, hint: str = "L", cls: Optional[str] = None) -> Any:
        l1 = M.fresh(hint)
        j = z3.Int("j")
        st.assume(M.is_Ref(l1), M.rcls(l1) == (M.rcls(a) if cls is None else self.ct.id(cls)),
                  M.llen(l1) == M.llen(a) + M.llen(b),
                  z3.ForAll([j], z3.Implies(z3.And(0 <= j, j < M.llen(a)),
                                            M.lat(l1, j) == M.lat(a, j)), patterns=[M.lat(l1, j), M.lat(a, j)]),
                  z3.ForAll([j], z3.Implies(z3.And(0 <= j, j < M.llen(b)),
                                            M.lat(l1, M.llen(a) + j) == M.lat(b, j)),
                            patterns=[M.lat(b, j)]),
                  z3.ForAll([j], z3.Implies(z3.And(M.llen(a) <= j, j < M.llen(a) + M.llen(b)),
                                            M.lat(l1, j) == M.lat(b, j - M.llen(a))),
                            patterns=[M.lat(l1, j)]))
        return l1

    def list_slice(self, st: State, a: Any, lo: Any, hi: Any, hint: str = "Ls") -> Any:
        """a[lo:hi] with already-normalised 0 <= lo, hi <= len (callers clamp)."""
        l1 = M.fresh(hint)
        j = z3.Int("j")
        n = z3.If(hi >= lo, hi - lo, 0)
        st.assume(M.is_Ref(l1), M.rcls(l1) == M.rcls(a), M.llen(l1) == n,
                  z3.ForAll([j], z3.Implies(z3.And(0 <= j, j < n), M.lat(l1, j) == M.lat(a, lo + j)),
                            patterns=[M.lat(l1, j)]),
                  z3.ForAll([j], z3.Implies(z3.And(lo <= j, j < lo + n), M.lat(a, j) == M.lat(l1, j - lo)),
                            patterns=[M.lat(a, j)]))
        return l1

    def alloc_path(self, st: State, content: Any) -> T:
        """Allocate a fresh PathHolder with the given Seq content."""
        p = M.fresh("P")
        st.assume(M.is_Ref(p), M.rcls(p) == self.ct.id("PathHolder"), M.rid(p) == st.alloc)
        st.alloc = st.alloc + 1
        st.ph = z3.Store(st.ph, p, content)
        return T(p, "PathHolder")

    # ================================================================== value -> term
    def term(self, v: Any, st: State) -> Any:
        """Freeze an executor value into an Obj term (adding the describing facts to the pc)."""
        if isinstance(v, T):
            return v.z
        if isinstance(v, CellRef):
            c = st.cells[v.id]
            if isinstance(c, (ListC, DictC)):
                st.cells[v.id] = type(c)(c.snap, True)
                return c.snap
            if isinstance(c, ObjC):
                if not c.frozen:
                    st.cells[v.id] = ObjC(c.cls, c.attrs, c.ident, True)
                    st.assume(M.is_Ref(c.ident), M.rcls(c.ident) == self.ct.id(c.cls))
                    for k, a in c.attrs:
                        if isinstance(a, (Fn, Builtin, Lam, Mod)):
                            continue
                        st.assume(M.attr(k)(c.ident) == self.term(a, st))
                    hook = getattr(self.contracts, "schema_freeze_hook", None)
                    if hook is not None and c.cls in self.repo.classes and self.repo.is_subclass(c.cls, "Schema"):
                        hook(self, st, c.cls, c.ident)
                return c.ident
        if isinstance(v, Tup):
            return self.list_term(st, v.items, "tuple")
        if isinstance(v, Cls):
            return M.ClsV(self.ct.id(v.name)) if v.name in self.ct.ids else M.ClsV(-1)
        if isinstance(v, Kw):
            return v.z
        raise Unsupported(f"cannot freeze value {v!r}")

    def const(self, c: Any) -> Any:
        if c is None:
            return T(M.NoneV, "NoneType")
        if c is Ellipsis:
            return T(M.EllV, "ellipsis")
        if isinstance(c, bool):
            return T(M.mk_bool(c), "bool")
        if isinstance(c, int):
            return T(M.mk_int(c), "int")
        if isinstance(c, float):
            return T(M.mk_float(c), "float")
        if isinstance(c, str):
            return T(M.mk_str(c), "str")
        if isinstance(c, bytes):
            return T(M.BytesV(z3.StringVal(c.decode("latin-1"))), "bytes")
        if isinstance(c, tuple):
            return Tup(tuple(self.const(x) for x in c))
        raise Unsupported(f"constant {c!r}")

    def hint_of(self, v: Any, st: State) -> Optional[str]:
        if isinstance(v, T):
            if v.hint:
                return v.hint
            z = v.z
            if z3.is_app(z) and z.decl().kind() == z3.Z3_OP_DT_CONSTRUCTOR:
                n = z.decl().name()
                return {"NoneV": "NoneType", "NilV": "NilType", "EllV": "ellipsis", "BoolV": "bool",
                        "IntV": "int", "FloatV": "float", "FInfV": "float", "FNanV": "float",
                        "StrV": "str", "BytesV": "bytes", "ClsV": "type"}.get(n)
            return None
        if isinstance(v, CellRef):
            c = st.cells[v.id]
            return "list" if isinstance(c, ListC) else "dict" if isinstance(c, DictC) else c.cls
        if isinstance(v, Tup):
            return "tuple"
        return None

    def refine_hint(self, v: T, st: State, candidates: Sequence[str]) -> Optional[str]:
        for c in candidates:
            if self.proves(st, M.isinstance_f(self.ct, v.z, c)):
                return c
        return None

    # ================================================================== truthiness / comparisons
    def truth(self, v: Any, st: State) -> Any:
        if isinstance(v, (Cls, Fn, Builtin, Mod, Lam)):
            return z3.BoolVal(True)
        if isinstance(v, Tup):
            return z3.BoolVal(len(v.items) > 0)
        if isinstance(v, CellRef):
            c = st.cells[v.id]
            if isinstance(c, ListC):
                return M.llen(c.snap) > 0
            if isinstance(c, DictC):
                return M.klen(c.snap) > 0
            return z3.BoolVal(True)
        if isinstance(v, T):
            z = v.z
            h = v.hint
            if h == "PathHolder":
                return z3.Length(z3.Select(st.ph, z)) > 0
            if h in ("list", "tuple"):
                return M.llen(z) > 0
            if h == "dict":
                return M.klen(z) > 0
            ct = self.ct
            return z3.If(M.is_BoolV(z), M.bval(z),
                   z3.If(M.is_IntV(z), M.ival(z) != 0,
                   z3.If(M.is_FloatV(z), M.fval(z) != 0,
                   z3.If(z3.Or(M.is_FInfV(z), M.is_FNanV(z), M.is_ClsV(z)), True,
                   z3.If(M.is_StrV(z), z3.Length(M.sval(z)) > 0,
                   z3.If(M.is_BytesV(z), z3.Length(M.bsval(z)) > 0,
                   z3.If(z3.Or(M.is_NoneV(z), M.is_NilV(z)), False,
                   z3.If(M.is_EllV(z), True,
                   z3.If(z3.Or(ct.sub_formula(M.rcls(z), "list"), ct.sub_formula(M.rcls(z), "tuple")),
                         M.llen(z) > 0,
                   z3.If(z3.Or(ct.sub_formula(M.rcls(z), "dict"), ct.sub_formula(M.rcls(z), "set")),
                         M.klen(z) > 0,
                   z3.If(M.rcls(z) == ct.id("PathHolder"),
                         z3.Length(z3.Select(st.ph, z)) > 0, True)))))))))))
        if isinstance(v, Kw):
            return z3.BoolVal(True)
        raise Unsupported(f"truthiness of {v!r}")

    def is_same(self, a: Any, b: Any, st: State) -> Any:
        """`a is b`"""
        if isinstance(a, (Cls, Fn, Builtin)) or isinstance(b, (Cls, Fn, Builtin)):
            if isinstance(a, Cls) and isinstance(b, Cls):
                return z3.BoolVal(a.name == b.name)
            if isinstance(a, Cls) and isinstance(b, T):
                return b.z == self.term(a, st)
            if isinstance(b, Cls) and isinstance(a, T):
                return a.z == self.term(b, st)
            return z3.BoolVal(a == b)
        if isinstance(a, CellRef) and isinstance(b, CellRef):
            return z3.BoolVal(a.id == b.id)
        if isinstance(a, CellRef) or isinstance(b, CellRef):
            return z3.BoolVal(False)    # a fresh object is never an entry / scalar object
        if isinstance(a, Tup) or isinstance(b, Tup):
            return z3.BoolVal(False)
        return self.term(a, st) == self.term(b, st)

    # ================================================================== expression evaluation
    def ev(self, node: ast.expr, st: State) -> List[Tuple[State, Any]]:
        m = getattr(self, "ev_" + type(node).__name__, None)
        if m is None:
            raise Unsupported(f"expression {type(node).__name__} at line {getattr(node, 'lineno', '?')}")
        return m(node, st)

    def ev_seq(self, nodes: Sequence[ast.expr], st: State) -> List[Tuple[State, Any]]:
        """Evaluate expressions left to right; result value is a Python list (or Raised)."""
        outs: List[Tuple[State, Any]] = [(st, [])]
        for n in nodes:
            nxt: List[Tuple[State, Any]] = []
            for s, acc in outs:
                if isinstance(acc, Raised):
                    nxt.append((s, acc))
                    continue
                for s2, v in self.ev(n, s):
                    if isinstance(v, Raised):
                        nxt.append((s2, v))
                    else:
                        nxt.append((s2, acc + [v]))
            outs = nxt
        return outs

    def ev_Constant(self, node: ast.Constant, st: State):
        return [(st, self.const(node.value))]

    def ev_Name(self, node: ast.Name, st: State):
        v = self.lookup(node.id, st)
        if isinstance(v, tuple) and v and v[0] == "singleton":
            _, mi, expr = v
            saved = st.env
            st.env = {"__module__": mi.name}
            res = self.ev(expr, st)
            for s2, _ in res:
                s2.env = saved
            self.used_assumptions.add("module-level visitor singletons are rebuilt from their constructor "
                                      "expression (stateless objects)")
            return res
        return [(st, v)]

    def lookup(self, name: str, st: State) -> Any:
        if name in st.env:
            return st.env[name]
        mod = st.env.get("__module__")
        return self.global_name(mod, name)

    def global_name(self, mod: str, name: str) -> Any:
        kind, p = self.repo.resolve_name(mod, name)
        if kind == "class":
            return Cls(p.name)
        if kind == "func":
            return Fn(p)
        if kind == "module":
            return Mod(p)
        if kind == "const":
            mi, expr = p
            try:
                return self.const(eval_const(mi, expr, self.repo))
            except Exception:
                # e.g. `_validator = Validator()` module singletons
                return self.module_singleton(mi, name, expr)
        if kind == "ext":
            key = (p[0], p[1])
            if key in EXT_VALUES:
                return EXT_VALUES[key]
            if (p[0], None) in EXT_VALUES and p[1] is None:
                return EXT_VALUES[(p[0], None)]
            if p[0] in ("typing",):
                return Builtin("typing_any")
            if p[0].startswith("re._constants") or p[0].startswith("sre_constants"):
                return T(M.mk_int(SRE_CONST[p[1]]), "int")
            if p[0].startswith("re._parser") or p[0] == "sre_parse":
                return Mod("sre")
            raise Unsupported(f"external name {p[0]}.{p[1]}")
        if name in PY_BUILTIN_CLASSES:
            return Cls(name)
        if name in PY_BUILTIN_FUNCS:
            return Builtin(name)
        raise Unsupported(f"unresolved name {name} in {mod}")

    def module_singleton(self, mi: Any, name: str, expr: ast.expr) -> Any:
        """`_validator = Validator()`-style module singletons: the visitors are stateless (C07 proves no
        visit method writes to self), so the object is rebuilt from its constructor expression."""
        return ("singleton", mi, expr)

    def ev_NamedExpr(self, node: ast.NamedExpr, st: State):
        out = []
        for s, v in self.ev(node.value, st):
            if not isinstance(v, Raised):
                s.env[node.target.id] = v
            out.append((s, v))
        return out

    def ev_IfExp(self, node: ast.IfExp, st: State):
        out = []
        for s, c in self.ev(node.test, st):
            if isinstance(c, Raised):
                out.append((s, c))
                continue
            for s2, b in self.branch(s, self.truth(c, s)):
                out += self.ev(node.body if b else node.orelse, s2)
        return out

    def ev_BoolOp(self, node: ast.BoolOp, st: State):
        is_and = isinstance(node.op, ast.And)

        def go(i: int, s: State) -> List[Tuple[State, Any]]:
            res = []
            for s1, v in self.ev(node.values[i], s):
                if isinstance(v, Raised) or i == len(node.values) - 1:
                    res.append((s1, v))
                    continue
                for s2, b in self.branch(s1, self.truth(v, s1)):
                    if b == is_and:
                        res += go(i + 1, s2)
                    else:
                        res.append((s2, v))
            return res
        return go(0, st)

    def ev_UnaryOp(self, node: ast.UnaryOp, st: State):
        out = []
        for s, v in self.ev(node.operand, st):
            if isinstance(v, Raised):
                out.append((s, v))
            elif isinstance(node.op, ast.Not):
                out.append((s, T(M.BoolV(z3.Not(self.truth(v, s))), "bool")))
            elif isinstance(node.op, ast.UAdd):
                out.append((s, v))
            elif isinstance(node.op, ast.USub):
                z = self.term(v, s)
                out.append((s, T(z3.If(M.is_intlike(z), M.IntV(-M.int_of(z)),
                                       z3.If(M.is_FloatV(z), M.FloatV(-M.fval(z)),
                                             z3.If(M.is_FInfV(z), M.FInfV(z3.Not(M.fneg(z))), z))),
                                 self.hint_of(v, s))))
            else:
                raise Unsupported("unary op")
        return out

    def ev_Tuple(self, node: ast.Tuple, st: State):
        if any(isinstance(e, ast.Starred) for e in node.elts):
            raise Unsupported("starred in tuple display")
        return [(s, v if isinstance(v, Raised) else Tup(tuple(v))) for s, v in self.ev_seq(node.elts, st)]

    def ev_List(self, node: ast.List, st: State):
        out = []
        for s, v in self.ev_seq(node.elts, st):
            out.append((s, v if isinstance(v, Raised) else self.new_list(s, v)))
        return out

    def ev_Dict(self, node: ast.Dict, st: State):
        out = []
        keys = [k for k in node.keys]
        exprs: List[ast.expr] = []
        for k, v in zip(node.keys, node.values):
            if k is not None:
                exprs.append(k)
            exprs.append(v)
        for s, vals in self.ev_seq(exprs, st):
            if isinstance(vals, Raised):
                out.append((s, vals))
                continue
            it = iter(vals)
            cur = None
            for k in keys:
                if k is None:
                    src = next(it)
                    srct = self.dict_snap(src, s)
                    cur = srct if cur is None else self.dict_merge(s, cur, srct)
                else:
                    kv, vv = next(it), next(it)
                    if cur is None:
                        cur = self.empty_dict_term(s)
                    cur = self.dict_store(s, cur, self.term(kv, s), self.term(vv, s))
            if cur is None:
                cur = self.empty_dict_term(s)
            elif len(keys) == 1 and keys[0] is None:
                # {**a}: a copy
                cur = self.dict_merge(s, cur, self.empty_dict_term(s))
            out.append((s, self.new_cell(s, DictC(cur))))
        return out

    def dict_snap(self, v: Any, st: State) -> Any:
        if isinstance(v, KwD):
            if v.rest is not None:
                raise Unsupported("**kwargs with an opaque rest used as a dict")
            d = self.empty_dict_term(st, "kw")
            for kk, kv in v.items:
                d = self.dict_store(st, d, M.mk_str(kk), self.term(kv, st), "kw")
            return d
        if isinstance(v, CellRef):
            c = st.cells[v.id]
            if isinstance(c, DictC):
                return c.snap
        if isinstance(v, Kw):
            return v.z
        if isinstance(v, T):
            return v.z
        raise Unsupported(f"not a dict: {v!r}")

    def ev_JoinedStr(self, node: ast.JoinedStr, st: State):
        exprs = [p.value for p in node.values if isinstance(p, ast.FormattedValue)]
        out = []
        for s, vals in self.ev_seq(exprs, st):
            if isinstance(vals, Raised):
                out.append((s, vals))
                continue
            it = iter(vals)
            parts = []
            raised = None
            dead = False
            for p in node.values:
                if isinstance(p, ast.Constant):
                    parts.append(z3.StringVal(p.value))
                else:
                    v = next(it)
                    conv = "r" if p.conversion == ord("r") else "s"
                    if p.format_spec is not None:
                        fs = p.format_spec
                        spec = fs.values[0].value if (isinstance(fs, ast.JoinedStr) and len(fs.values) == 1
                                                      and isinstance(fs.values[0], ast.Constant)) else None
                        if spec != "d" or p.conversion != -1:
                            raise Unsupported("format spec")
                        # {x:d}: decimal text of an int (bool counts); ValueError for str / float, TypeError for anything
                        # else (None.__format__('d'), ...)
                        zv = self.term(v, s)
                        ok = M.is_intlike(zv)
                        verr = z3.Or(M.is_StrV(zv), M.is_floatk(zv))
                        if self.sat(s, z3.And(z3.Not(ok), verr)):
                            out.append((s.fork().assume(z3.Not(ok), verr), Raised("ValueError", None, "format code 'd' for a str / float")))
                        if self.sat(s, z3.And(z3.Not(ok), z3.Not(verr))):
                            out.append((s.fork().assume(z3.Not(ok), z3.Not(verr)), Raised("TypeError", None, "unsupported format string passed to __format__")))
                        if not self.sat(s, ok):
                            dead = True
                            break
                        s.assume(ok)
                        v = T(M.IntV(M.int_of(zv)), "int")
                    r = self.to_text(v, s, conv)
                    parts.append(r)
            if dead:
                continue
            z = parts[0] if len(parts) == 1 else (z3.Concat(*parts) if parts else z3.StringVal(""))
            z = self.named_concat(s, z3.simplify(z))
            out.append((s, T(M.StrV(z), "str")))
        return out

    def flat_concat(self, z: Any) -> List[Any]:
        if z3.is_app(z) and z.decl().kind() == z3.Z3_OP_SEQ_CONCAT:
            out: List[Any] = []
            for c in z.children():
                out += self.flat_concat(c)
            return out
        return [z]

    def named_concat(self, st: State, z: Any) -> Any:
        """Give a concatenation a name (ite / arithmetic may not occur in quantifier patterns) and record
        the string-theory hints about it."""
        parts = self.flat_concat(z)
        if len(parts) <= 1:
            return z
        self.note_concat(st, z, parts)
        return z

    def note_concat(self, st: State, z: Any, parts: List[Any]) -> None:
        """String-theory facts the solver is slow to find: a concatenation contains each of its parts,
        and all_in distributes over it.  Theorems of the theory, added as hints."""
        parts = [p for p in parts]
        for hook in getattr(self.contracts, "concat_hooks", []):
            hook(self, st, z, parts)
        if len(parts) > 1:
            for q in parts:
                if not z3.is_string_value(q):
                    st.assume(z3.Contains(z, q))
            sub = z3.Const("csub", M.S)
            if pattern_ok(z):     # a single character is in the concatenation iff it is in one of the parts
                st.assume(z3.ForAll([sub], M.chin(z, sub) == z3.Or(*[M.chin(q, sub) for q in parts]),
                                    patterns=[M.chin(z, sub)]))
            al = z3.Const("cal", M.S)
            if pattern_ok(z):     # ite / boolean connectives may not occur in a pattern: no hint then
                st.assume(z3.ForAll([al], M.all_in(z, al) == z3.And(*[M.all_in(p, al) for p in parts]),
                                    patterns=[M.all_in(z, al)]))

    def to_text(self, v: Any, st: State, conv: str) -> Any:
        """repr()/str() text.  Text of non-string objects is uninterpreted (a total function of the
        object): excluded by the property domains are objects whose __repr__ raises."""
        if isinstance(v, Cls):
            return z3.StringVal(f"<class '{v.name}'>")
        z = self.term(v, st)
        self.used_assumptions.add("repr/str of an object is a total function of the object (never raises)")
        if conv == "s":
            zs = z3.simplify(z)
            if z3.is_app(zs) and zs.decl().name() == "StrV":
                return zs.arg(0)
            return M.str_s(z)       # axiom: str_s(x) == sval(x) for a str x
        return M.repr_s(z)

    def ev_Attribute(self, node: ast.Attribute, st: State):
        out = []
        for s, v in self.ev(node.value, st):
            if isinstance(v, Raised):
                out.append((s, v))
            else:
                out += self.getattr_(v, node.attr, s, node)
        return out

    def getattr_(self, v: Any, name: str, st: State, node: Any = None) -> List[Tuple[State, Any]]:
        if isinstance(v, Builtin) and v.name == "super_proxy":
            recv, cls_ = v.bound
            for c in self.repo.mro(cls_)[1:]:
                ci = self.repo.classes.get(c)
                if ci and name in ci.methods:
                    return [(st, Fn(ci.methods[name], recv, c))]
            raise Unsupported(f"super().{name}: not found above {cls_}")
        if isinstance(v, Mod):
            return [(st, self.mod_attr(v, name))]
        if isinstance(v, Cls):
            if name == "__name__":
                return [(st, self.const(v.name))]
            fi = self.repo.lookup_method(v.name, name) if v.name in self.repo.classes else None
            if fi is not None:
                return [(st, Fn(fi, None, v.name))]
            if v.name in self.repo.classes:
                for c in self.repo.mro(v.name):
                    ci = self.repo.classes.get(c)
                    if ci and name in ci.class_attrs:
                        return self.ev(ci.class_attrs[name], st)
            if v.name in ("date", "datetime") and name in ("today", "utcnow"):
                return [(st, Builtin(f"{v.name}.{name}"))]
            raise Unsupported(f"class attribute {v.name}.{name}")
        if isinstance(v, CellRef):
            c = st.cells[v.id]
            if isinstance(c, ObjC):
                if name == "__class__":
                    return [(st, Cls(c.cls))]
                a = c.get(name)
                if a is not None:
                    return [(st, a)]
                return self.class_attr(v, c.cls, name, st)
            if isinstance(c, ListC):
                return [(st, Builtin("list." + name, v))]
            if isinstance(c, DictC):
                return [(st, Builtin("dict." + name, v))]
        if isinstance(v, Tup):
            return [(st, Builtin("tuple." + name, v))]
        if isinstance(v, T):
            h = v.hint or self.hint_of(v, st)
            if name == "__class__" and (h in (None, "Schema", "GenericSchema", "Props")):
                # class of a symbolic object whose exact class is not fixed by the contract
                return [(st, T(M.ClsV(M.type_id(self.ct, v.z)), "type"))]
            if name == "__class__" and h:
                return [(st, Cls(h))]
            if name == "format" and h in (None, "ValidationError"):
                # polymorphic ValidationError.format(formatter): abstract contract ErrorFormat
                return [(st, Builtin("errformat", v))]
            if name == "__accept__" and h in (None, "Schema", "GenericSchema"):
                # polymorphic call on a member whose class is not statically known: Accept[V]
                return [(st, Builtin("accept", v))]
            if h in ("str", "bytes", "list", "dict", "tuple", "set", "PathHolder", "int", "float"):
                return [(st, Builtin(f"{h}.{name}", v))]
            if h is not None and (h in self.repo.classes or h == "UserCustomSchema"):
                return self.class_attr(v, h, name, st)
            if h in ("UUID",):
                if name == "version":
                    return [(st, T(M.attr("version")(v.z), None))]
            if h is None:
                h2 = self.refine_hint(v, st, ("UUID", "str", "list", "dict", "AnySchema", "DictSchema",
                                              "ListSchema", "optional", "ValidationResult", "Props", "Schema"))
                if h2 is not None:
                    return self.getattr_(T(v.z, h2), name, st, node)
            raise Unsupported(f"attribute .{name} on {v!r}")
        if isinstance(v, Fn) and name == "__name__":
            return [(st, self.const(v.info.name))]
        raise Unsupported(f"attribute .{name} on {v!r}")

    def class_attr(self, recv: Any, cname: str, name: str, st: State) -> List[Tuple[State, Any]]:
        look = "CustomSchema" if cname == "UserCustomSchema" else cname
        fi = self.repo.lookup_method(look, name)
        if name in self.repo.overrides and self.repo.is_subclass(look, "Schema"):
            # Schema.__override__(name, fn) executed at import: the module-level function is the method
            omod, oname = self.repo.overrides[name]
            k_, p_ = self.repo.resolve_name(omod, oname)
            if k_ == "func":
                fi = p_
        if fi is not None:
            if fi.is_property:
                return self.call_fn(Fn(fi, recv, look), [], {}, None, st)
            return [(st, Fn(fi, recv, look))]
        for c in self.repo.mro(look):
            ci = self.repo.classes.get(c)
            if ci and name in ci.class_attrs:
                return self.ev(ci.class_attrs[name], st)
        if isinstance(recv, T):
            # instance attribute of a symbolic object of a repo class
            if self.instance_attr_ok(look, name):
                hint = self.attr_hint(look, name)
                return [(st, T(M.attr(name)(recv.z), hint))]
        # SchemaVisitor.__getattr__ / SchemaFacade.__getattr__ raise AttributeError
        ga = self.repo.lookup_method(look, "__getattr__")
        if ga is not None:
            return [(st, Raised("AttributeError", None, f"{cname}.{name}"))]
        raise Unsupported(f"attribute {cname}.{name}")

    def instance_attr_ok(self, cname: str, name: str) -> bool:
        """Does some __init__ in the MRO assign self.<name>?"""
        for c in self.repo.mro(cname):
            ci = self.repo.classes.get(c)
            if not ci or "__init__" not in ci.methods:
                continue
            for n in ast.walk(ci.methods["__init__"].node):
                if (isinstance(n, ast.Attribute) and isinstance(n.ctx, ast.Store)
                        and isinstance(n.value, ast.Name) and n.value.id == "self" and n.attr == name):
                    return True
        return False

    def attr_hint(self, cname: str, name: str) -> Optional[str]:
        if name == "_props":
            return self.repo.props_class_of(cname) or "Props"
        if name == "_registry":
            return "dict"
        if name == "_errors":
            return "list"
        if name == "path":
            return "PathHolder"
        return None

    def mod_attr(self, m: Mod, name: str) -> Any:
        if m.name == "sys" and name == "float_info":
            return Mod("sys.float_info")
        if m.name == "sys.float_info" and name == "dig":
            return self.const(15)
        if m.name == "re" and name in ("compile", "search", "error"):
            return Cls("re.error") if name == "error" else Builtin("re." + name)
        if m.name == "random":
            return Builtin("random." + name)
        if m.name == "string":
            import string as _s
            return self.const(getattr(_s, name))
        if m.name in ("sre", "re._parser", "sre_parse") and name == "parse":
            return Builtin("sre.parse")
        if m.name == "ast":
            if name == "parse":
                return Builtin("ast.parse")
            return Cls("ast." + name)
        if m.name in self.repo.modules:
            return self.global_name(m.name, name)
        raise Unsupported(f"module attribute {m.name}.{name}")

    # ---------------------------------------------------------------- comparisons
    def ev_Compare(self, node: ast.Compare, st: State):
        if len(node.ops) == 1:
            out = []
            for s, vals in self.ev_seq([node.left, node.comparators[0]], st):
                if isinstance(vals, Raised):
                    out.append((s, vals))
                else:
                    out += self.compare(node.ops[0], vals[0], vals[1], s)
            return out
        # chained: a op1 b op2 c  ==  (a op1 b) and (b op2 c), b evaluated once
        out = []
        for s, vals in self.ev_seq([node.left] + list(node.comparators), st):
            if isinstance(vals, Raised):
                out.append((s, vals))
                continue

            def go(i: int, s1: State) -> List[Tuple[State, Any]]:
                res = []
                for s2, r in self.compare(node.ops[i], vals[i], vals[i + 1], s1):
                    if isinstance(r, Raised) or i == len(node.ops) - 1:
                        res.append((s2, r))
                        continue
                    for s3, b in self.branch(s2, self.truth(r, s2)):
                        if b:
                            res += go(i + 1, s3)
                        else:
                            res.append((s3, r))
                return res
            out += go(0, s)
        return out

    def compare(self, op: ast.cmpop, a: Any, b: Any, st: State) -> List[Tuple[State, Any]]:
        mk = lambda f: T(M.BoolV(f), "bool")
        if isinstance(op, ast.Is):
            return [(st, mk(self.is_same(a, b, st)))]
        if isinstance(op, ast.IsNot):
            return [(st, mk(z3.Not(self.is_same(a, b, st))))]
        if isinstance(op, (ast.Eq, ast.NotEq)):
            res = self.py_equals(a, b, st)
            out = []
            for s, r in res:
                if isinstance(r, Raised):
                    out.append((s, r))
                else:
                    out.append((s, mk(r if isinstance(op, ast.Eq) else z3.Not(r))))
            return out
        if isinstance(op, (ast.In, ast.NotIn)):
            out = []
            for s, r in self.contains(b, a, st):
                if isinstance(r, Raised):
                    out.append((s, r))
                else:
                    out.append((s, mk(r if isinstance(op, ast.In) else z3.Not(r))))
            return out
        # ordering
        za, zb = self.term(a, st), self.term(b, st)
        both_num = z3.And(M.is_num(za), M.is_num(zb))
        both_str = z3.And(M.is_StrV(za), M.is_StrV(zb))
        ok = z3.Or(both_num, both_str)
        out: List[Tuple[State, Any]] = []
        for s, good in self.branch(st, ok, "TypeError", "ordering comparison"):
            if not good:
                out.append((s, Raised("TypeError", None, "ordering comparison of unorderable kinds")))
                continue
            if isinstance(op, ast.Lt):
                f = z3.If(both_num, M.num_lt(za, zb), M.sval(za) < M.sval(zb))
            elif isinstance(op, ast.LtE):
                f = z3.If(both_num, M.num_le(za, zb), M.sval(za) <= M.sval(zb))
            elif isinstance(op, ast.Gt):
                f = z3.If(both_num, M.num_lt(zb, za), M.sval(zb) < M.sval(za))
            elif isinstance(op, ast.GtE):
                f = z3.If(both_num, M.num_le(zb, za), M.sval(zb) <= M.sval(za))
            else:
                raise Unsupported("comparison op")
            out.append((s, mk(f)))
        return out

    def py_equals(self, a: Any, b: Any, st: State) -> List[Tuple[State, Any]]:
        """a == b.  Dispatches to a repo-defined __eq__ when the static class has one."""
        for x, y in ((a, b), (b, a)):
            h = self.hint_of(x, st)
            if h and h in self.repo.classes:
                fi = self.eq_method(h)
                if fi is not None:
                    res = self.call_fn(Fn(fi, x, h), [y], {}, None, st)
                    return [(s, r if isinstance(r, Raised) else self.truth(r, s)) for s, r in res]
        if isinstance(a, (Cls, Fn, Builtin)) or isinstance(b, (Cls, Fn, Builtin)):
            return [(st, self.is_same(a, b, st))]
        if isinstance(a, Tup) and isinstance(b, Tup):
            if len(a.items) != len(b.items):
                return [(st, z3.BoolVal(False))]
            conj = []
            outs = [(st, [])]
            for x, y in zip(a.items, b.items):
                nxt = []
                for s, acc in outs:
                    for s2, r in self.py_equals(x, y, s):
                        nxt.append((s2, acc + [r]))
                outs = nxt
            return [(s, z3.And(*acc) if acc else z3.BoolVal(True)) for s, acc in outs]
        za, zb = self.term(a, st), self.term(b, st)
        if self.hint_of(a, st) in ("set", "frozenset") and self.hint_of(b, st) in ("set", "frozenset"):
            # two sets are equal iff they have the same members
            x = z3.Const("sex", M.Obj)
            self.used_assumptions.add("builtin: set == set is extensional (same members)")
            r = M.fresh("seteq", M.B)
            st.assume(r == z3.ForAll([x], M.has(za, x) == M.has(zb, x), patterns=[M.has(za, x), M.has(zb, x)]))
            return [(st, r)]
        if getattr(self, "generic_eq", False):
            # inside Props.__eq__ & co.: operands may be schemas / containers of schemas, so `==` is the
            # relation gen_eq whose definition (contracts/equality.py) honours Schema.__eq__ = eq
            return [(st, M.gen_eq(za, zb))]
        self.used_assumptions.add(
            "== between two heap objects is a total, non-raising relation (ref_eq); objects whose "
            "__eq__ raises are outside the domain")
        return [(st, M.py_eq(za, zb))]

    def eq_method(self, cname: str) -> Optional[FuncInfo]:
        """The effective __eq__ of a repo class, honouring `Schema.__override__("__eq__", eq)`."""
        if self.repo.is_subclass(cname, "Schema"):
            return self.repo.modules["d42.validation"].funcs.get("eq")
        return self.repo.lookup_method(cname, "__eq__")

    def contains(self, container: Any, item: Any, st: State) -> List[Tuple[State, Any]]:
        """item in container"""
        zi = self.term(item, st)
        if isinstance(container, Tup):
            fs = []
            for x in container.items:
                fs.append(M.py_eq(zi, self.term(x, st)))
            return [(st, z3.Or(*fs) if fs else z3.BoolVal(False))]
        h = self.hint_of(container, st)
        zc = self.term(container, st) if not isinstance(container, CellRef) else None
        if isinstance(container, CellRef):
            c = st.cells[container.id]
            zc = c.snap if isinstance(c, (ListC, DictC)) else None
            if zc is None:
                raise Unsupported("in on object cell")
        if h is None and isinstance(container, T):
            h = self.refine_hint(container, st, ("str", "dict", "list", "set", "tuple"))
        if h is None and isinstance(container, T):
            # statically unknown container: fork over the kinds it may be
            out = []
            rest = st
            for kind_ in ("list", "tuple", "set", "dict", "str"):
                cond = M.isinstance_f(self.ct, container.z, kind_)
                if self.sat(rest, cond):
                    out += self.contains(T(container.z, kind_), item, rest.fork().assume(cond))
                rest = rest.assume(z3.Not(cond))
            if self.sat(rest):
                out.append((rest, Raised("TypeError", None, "argument of this type is not iterable")))
            return out
        if h == "str":
            ok = M.is_StrV(zi)
            out = []
            for s, good in self.branch(st, ok, "TypeError", "'in <str>'"):
                if good:
                    out.append((s, z3.Contains(M.sval(zc), M.sval(zi))))
                else:
                    out.append((s, Raised("TypeError", None, "'in <string>' requires string")))
            return out
        if h in ("dict", "set", "frozenset"):
            self.used_assumptions.add("dict/set membership uses structural key equality of hashable keys "
                                      "(1 / True / 1.0 are treated as distinct keys)")
            return [(st, M.has(zc, zi))]
        if h in ("list", "tuple"):
            j = M.fresh("j", M.I)
            # exists j. 0<=j<len /\ lat(c,j) == item  -- expressed with a skolem-free quantifier
            jj = z3.Int("jj")
            return [(st, z3.Exists([jj], z3.And(0 <= jj, jj < M.llen(zc), M.py_eq(M.lat(zc, jj), zi))))]
        raise Unsupported(f"'in' on {container!r} (hint {h})")

    # ---------------------------------------------------------------- arithmetic
    def ev_BinOp(self, node: ast.BinOp, st: State):
        out = []
        for s, vals in self.ev_seq([node.left, node.right], st):
            if isinstance(vals, Raised):
                out.append((s, vals))
            else:
                out += self.binop(node.op, vals[0], vals[1], s)
        return out

    def binop(self, op: ast.operator, a: Any, b: Any, st: State) -> List[Tuple[State, Any]]:
        ha, hb = self.hint_of(a, st), self.hint_of(b, st)
        if isinstance(op, ast.Add) and ("str" in (ha, hb)) and (ha != hb) and isinstance(a, T) and isinstance(b, T):
            other = b if ha == "str" else a
            if self.proves(st, M.is_StrV(other.z)):
                if ha == "str":
                    b, hb = T(b.z, "str"), "str"
                else:
                    a, ha = T(a.z, "str"), "str"
        if isinstance(op, ast.Add):
            if isinstance(a, Tup) and isinstance(b, Tup):
                return [(st, Tup(a.items + b.items))]
            if (isinstance(a, Tup) and hb == "tuple") or (ha == "tuple" and isinstance(b, Tup)) or \
                    (ha == "tuple" and hb == "tuple"):
                za, zb = self.term(a, st), self.term(b, st)
                return [(st, T(self.list_concat(st, za, zb, hint="tup", cls="tuple"), "tuple"))]
            if ha == "str" and hb == "str":
                zc = self.named_concat(st, z3.simplify(z3.Concat(M.sval(self.term(a, st)), M.sval(self.term(b, st)))))
                return [(st, T(M.StrV(zc), "str"))]
            if ha in ("list",) and hb in ("list",):
                za = self.seq_snap(a, st)
                zb = self.seq_snap(b, st)
                return [(st, self.new_cell(st, ListC(self.list_concat(st, za, zb))))]
        if isinstance(op, ast.Mult) and ha == "str" and hb in ("int", "bool"):
            # " " * n : a string of n copies (only single-character strings are used in d42)
            za, zb = self.term(a, st), self.term(b, st)
            n = M.int_of(zb)
            r = M.srep(M.sval(za), n)
            st.assume(z3.Length(r) == z3.If(n > 0, n, 0) * z3.Length(M.sval(za)))
            self.used_assumptions.add("str * int: srep(s, n), of which only the length is modelled")
            return [(st, T(M.StrV(r), "str"))]
        if isinstance(op, ast.Sub) and ha in ("set", "frozenset") and hb in ("set", "frozenset"):
            za, zb = self.term(a, st), self.term(b, st)
            r = M.fresh("setdiff")
            x = z3.Const("x", Obj)
            st.assume(M.is_Ref(r), M.rcls(r) == self.ct.id("set"), M.klen(r) <= M.klen(za),
                      z3.ForAll([x], M.has(r, x) == z3.And(M.has(za, x), z3.Not(M.has(zb, x))), patterns=[M.has(r, x)]))
            self.used_assumptions.add("builtin: set difference (membership; size at most that of the left operand)")
            return [(st, T(r, "set"))]
        SETLIKE = ("set", "frozenset", "dict_keys")
        if isinstance(op, (ast.BitOr, ast.BitAnd)) and ha in SETLIKE and hb in SETLIKE:
            za, zb = self.term(a, st), self.term(b, st)
            r = M.fresh("setop")
            x = z3.Const("x", Obj)
            both = (z3.Or if isinstance(op, ast.BitOr) else z3.And)(M.has(za, x), M.has(zb, x))
            st.assume(M.is_Ref(r), M.rcls(r) == self.ct.id("set"), M.klen(r) >= 0,
                      M.klen(r) <= M.klen(za) + M.klen(zb),
                      z3.ForAll([x], M.has(r, x) == both, patterns=[M.has(r, x)]))
            self.used_assumptions.add("builtin: set union / intersection (membership; the result is a new set, whose "
                                      "iteration order is that of a set)")
            return [(st, T(r, "set"))]
        if isinstance(op, ast.Sub) and ha in ("date", "datetime") and hb == "timedelta":
            r = M.fresh("date")
            st.assume(M.is_Ref(r), M.rcls(r) == self.ct.id(ha))
            self.used_assumptions.add("builtin: date - timedelta is a date (OverflowError outside year 1..9999 not modelled)")
            return [(st, T(r, ha))]
        za, zb = self.term(a, st), self.term(b, st)
        if isinstance(op, (ast.Add, ast.Sub, ast.Mult)):
            ok = z3.And(M.is_num(za), M.is_num(zb))
            out = []
            for s, good in self.branch(st, ok, "TypeError", "arithmetic"):
                if not good:
                    out.append((s, Raised("TypeError", None, "unsupported operand types for arithmetic")))
                    continue
                both_int = z3.And(M.is_intlike(za), M.is_intlike(zb))
                ia, ib = M.int_of(za), M.int_of(zb)
                ra, rb = M.real_of(za), M.real_of(zb)
                if isinstance(op, ast.Add):
                    iz, rz = ia + ib, ra + rb
                elif isinstance(op, ast.Sub):
                    iz, rz = ia - ib, ra - rb
                else:
                    iz, rz = ia * ib, ra * rb
                # non-finite operands: nan propagates; inf arithmetic (only what d42 needs: inf*finite)
                nonfin = z3.Or(z3.Not(M.is_finite(za)), z3.Not(M.is_finite(zb)))
                fres = M.fresh("fsp")
                if isinstance(op, ast.Mult):
                    # sign rule for inf * positive-int (scale factors are >= 1)
                    s.assume(z3.Implies(z3.And(M.is_FNanV(za)), fres == M.FNanV),
                             z3.Implies(z3.And(M.is_FNanV(zb)), fres == M.FNanV),
                             z3.Implies(z3.And(M.is_FInfV(za), M.is_finite(zb), rb > 0), fres == za),
                             z3.Implies(z3.And(M.is_FInfV(zb), M.is_finite(za), ra > 0), fres == zb),
                             z3.Or(M.is_FInfV(fres), M.is_FNanV(fres)))
                else:
                    s.assume(z3.Or(M.is_FInfV(fres), M.is_FNanV(fres)))
                res = z3.If(both_int, M.IntV(iz), z3.If(nonfin, fres, M.float_from_real(rz)))
                hint = "int" if (ha in ("int", "bool") and hb in ("int", "bool")) else \
                    ("float" if "float" in (ha, hb) else None)
                out.append((s, T(res, hint)))
            return out
        if isinstance(op, ast.Pow):
            # only 10 ** p and 2 ** k with int operands
            ca = z3.simplify(za)
            if z3.is_app(ca) and ca.decl().name() == "IntV" and z3.is_int_value(ca.arg(0)) \
                    and ca.arg(0).as_long() == 10:
                ok = M.is_intlike(zb)
                out = []
                for s, good in self.branch(st, ok):
                    if not good:
                        out.append((s, Raised("TypeError", None, "10 ** non-int")))
                        continue
                    e = M.int_of(zb)
                    for s2, nonneg in self.branch(s, e >= 0):
                        if nonneg:
                            s2.assume(M.pow10_def(e))
                            self.used_assumptions.add("10 ** e is tabulated for 0 <= e <= 18 (>= 1 otherwise)")
                            out.append((s2, T(M.IntV(M.pow10(e)), "int")))
                        else:
                            raise Unsupported("10 ** negative")
                return out
            raise Unsupported("general ** ")
        if isinstance(op, ast.Div):
            ok = z3.And(M.is_num(za), M.is_num(zb))
            out = []
            for s, good in self.branch(st, ok):
                if not good:
                    out.append((s, Raised("TypeError", None, "unsupported operand types for /")))
                    continue
                fin = z3.And(M.is_finite(za), M.is_finite(zb))
                for s2, f in self.branch(s, fin):
                    if not f:
                        raise Unsupported("division with non-finite operand")
                    for s3, zero in self.branch(s2, M.real_of(zb) == 0):
                        if zero:
                            out.append((s3, Raised("ZeroDivisionError", None, "division by zero")))
                        else:
                            out.append((s3, T(M.float_from_real(M.real_of(za) / M.real_of(zb)), "float")))
            return out
        raise Unsupported(f"binary operator {type(op).__name__}")

    def seq_snap(self, v: Any, st: State) -> Any:
        if isinstance(v, CellRef):
            c = st.cells[v.id]
            if isinstance(c, ListC):
                return c.snap
        return self.term(v, st)

    # ---------------------------------------------------------------- subscripts
    def ev_Subscript(self, node: ast.Subscript, st: State):
        out = []
        try:
            txt = ast.unparse(node)
        except Exception:
            txt = ""
        if txt == "self.__orig_bases__[0].__args__[0]":
            # Schema.__init__: the props class is the subscript of the first base of the class
            # definition (class-table rule, DESIGN Appendix C)
            slf = st.env["self"]
            h = self.hint_of(slf, st)
            pc_ = self.repo.props_class_of(h) if h in self.repo.classes else None
            if pc_ is None:
                raise Unsupported(f"props class of {h}")
            return [(st, Cls(pc_))]
        if isinstance(node.slice, ast.Slice):
            sl = node.slice
            if sl.step is not None:
                raise Unsupported("slice step")
            parts = [node.value] + [x for x in (sl.lower, sl.upper) if x is not None]
            for s, vals in self.ev_seq(parts, st):
                if isinstance(vals, Raised):
                    out.append((s, vals))
                    continue
                it = iter(vals[1:])
                lo = next(it) if sl.lower is not None else None
                hi = next(it) if sl.upper is not None else None
                out += self.do_slice(vals[0], lo, hi, s)
            return out
        for s, vals in self.ev_seq([node.value, node.slice], st):
            if isinstance(vals, Raised):
                out.append((s, vals))
            else:
                out += self.getitem(vals[0], vals[1], s)
        return out

    def norm_index(self, idx: Any, n: Any) -> Any:
        return z3.If(idx < 0, idx + n, idx)

    def clamp(self, idx: Any, n: Any) -> Any:
        i = z3.If(idx < 0, idx + n, idx)
        return z3.If(i < 0, 0, z3.If(i > n, n, i))

    def do_slice(self, v: Any, lo: Any, hi: Any, st: State) -> List[Tuple[State, Any]]:
        h = self.hint_of(v, st)
        if h is None and isinstance(v, T):
            h = self.refine_hint(v, st, ("list", "str", "tuple"))
        if isinstance(v, Tup):
            l = self.conc_int(lo, st) if lo is not None else None
            u = self.conc_int(hi, st) if hi is not None else None
            return [(st, Tup(v.items[l:u]))]
        z = self.seq_snap(v, st)
        if h == "str":
            n = z3.Length(M.sval(z))
            l = self.clamp(M.int_of(self.term(lo, st)), n) if lo is not None else z3.IntVal(0)
            u = self.clamp(M.int_of(self.term(hi, st)), n) if hi is not None else n
            sl = M.fresh("slice", M.S)      # named, with the facts the solver is slow to find
            al = z3.Const("cal", M.S)
            st.assume(sl == z3.SubString(M.sval(z), l, z3.If(u >= l, u - l, 0)),
                      z3.Length(sl) == z3.If(u >= l, u - l, 0), z3.Contains(M.sval(z), sl),
                      z3.ForAll([al], z3.Implies(M.all_in(M.sval(z), al), M.all_in(sl, al)),
                                patterns=[M.all_in(sl, al)]))
            return [(st, T(M.StrV(sl), "str"))]
        if h in ("list", "tuple"):
            n = M.llen(z)
            l = self.clamp(M.int_of(self.term(lo, st)), n) if lo is not None else z3.IntVal(0)
            u = self.clamp(M.int_of(self.term(hi, st)), n) if hi is not None else n
            r = self.list_slice(st, z, l, u)
            return [(st, T(r, h))]
        raise Unsupported(f"slice of {v!r}")

    def conc_int(self, v: Any, st: State) -> int:
        z = z3.simplify(M.int_of(self.term(v, st)))
        if z3.is_int_value(z):
            return z.as_long()
        raise Unsupported("concrete int expected")

    def getitem(self, v: Any, idx: Any, st: State) -> List[Tuple[State, Any]]:
        h = self.hint_of(v, st)
        if isinstance(v, Tup):
            try:
                i = self.conc_int(idx, st)
            except Unsupported:
                z = self.term(v, st)
                return self.getitem(T(z, "tuple"), idx, st)
            if -len(v.items) <= i < len(v.items):
                return [(st, v.items[i])]
            return [(st, Raised("IndexError", None, "tuple index out of range"))]
        if h == "PathHolder":
            # th.PathHolder.__getitem__: appends the key in place and returns self
            return self.path_extend(v, idx, st)
        if h is None and isinstance(v, T):
            h = self.refine_hint(v, st, ("list", "dict", "str", "tuple"))
        z = self.seq_snap(v, st) if h in ("list", "tuple") else (
            self.dict_snap(v, st) if h == "dict" else self.term(v, st))
        zi = self.term(idx, st)
        if h in ("list", "tuple"):
            out = []
            for s, isint in self.branch(st, M.is_intlike(zi), "TypeError", "list index"):
                if not isint:
                    out.append((s, Raised("TypeError", None, "list indices must be integers")))
                    continue
                n = M.llen(z)
                i = z3.simplify(self.norm_index(M.int_of(zi), n))
                for s2, inr in self.branch(s, z3.And(0 <= i, i < n), "IndexError", "list index"):
                    if inr:
                        el = M.lat(z, i)
                        if not (z3.is_int_value(i) or (z3.is_app(i) and i.num_args() == 0)):
                            nm = M.fresh("item")      # keep ite / arithmetic out of quantifier patterns
                            s2.assume(nm == el)
                            el = nm
                        out.append((s2, T(el, None)))
                    else:
                        out.append((s2, Raised("IndexError", None, "list index out of range")))
            return out
        if h == "dict":
            out = []
            if isinstance(v, T):
                # C07 (frame): reading a missing key of a dict that came from outside may run a subclass's __missing__
                # (collections.defaultdict inserts the key): a read is side-effect free only for a present key or an
                # exact dict.  Every contract of the function describes its inputs as values that do not change while
                # it runs, so the obligation supports -- and is counted under -- each of the function's properties.
                self.frame_ctr = getattr(self, "frame_ctr", 0) + 1
                self.oblige(st, f"{self.fname.split(':')[-1]}:frame[dict-read]#{self.frame_ctr}", "ensures",
                            z3.Or(M.has(z, zi), M.rcls(z) == self.ct.id("dict")),
                            tuple(sorted(set(getattr(self, "current_props", ())) | {"C07"})),
                            text="subscript read of a dict passed in: the key is present or the dict is an exact dict "
                                 "(a defaultdict would be mutated by the read)")
            for s, inn in self.branch(st, M.has(z, zi), "KeyError", "dict subscript"):
                if inn:
                    out.append((s, T(M.dget(z, zi), None)))
                else:
                    out.append((s, Raised("KeyError", None, "dict key")))
            return out
        if h == "str":
            out = []
            n = z3.Length(M.sval(z))
            i = self.norm_index(M.int_of(zi), n)
            for s2, inr in self.branch(st, z3.And(0 <= i, i < n), "IndexError", "str index"):
                if inr:
                    out.append((s2, T(M.StrV(z3.SubString(M.sval(z), i, 1)), "str")))
                else:
                    out.append((s2, Raised("IndexError", None, "string index out of range")))
            return out
        raise Unsupported(f"subscript on {v!r}")

    def path_extend(self, p: Any, key: Any, st: State) -> List[Tuple[State, Any]]:
        zp = self.term(p, st)
        zk = self.term(key, st)
        cur = z3.Select(st.ph, zp)
        st.ph = z3.Store(st.ph, zp, z3.Concat(cur, z3.Unit(zk)))
        # frame obligation (C03 / C07): only PathHolders allocated in this activation may be mutated
        floor = getattr(self, "frame_floor", None)
        fresh = M.rid(zp) >= (floor if floor is not None else z3.Int("alloc0"))
        self.oblige(st, "frame:PathHolder.__getitem__", "frame", fresh, ("C03", "C07"),
                    text="path[k] appends in place: the PathHolder must have been allocated (deepcopied) "
                         "in this activation", where=self.where())
        return [(st, p)]

    def where(self) -> str:
        return self.fname

    # ================================================================== calls
    def ev_Call(self, node: ast.Call, st: State):
        out = []
        if isinstance(node.func, ast.Name) and node.func.id == "cast" and len(node.args) == 2 \
                and "cast" not in st.env:
            return self.ev(node.args[1], st)      # typing.cast(T, x) is the identity; T is not evaluated
        if isinstance(node.func, ast.Name) and node.func.id == "super" and not node.args and not node.keywords \
                and "super" not in st.env and "self" in st.env:
            # zero-argument super() inside a method: attribute lookup continues after the defining class in the MRO
            fi_ = st.env.get("__func__")
            cls_ = getattr(fi_, "cls", None) or st.env.get("__via_cls__")
            if cls_ is None:
                raise Unsupported("super() outside a method")
            return [(st, Builtin("super_proxy", (st.env["self"], cls_)))]
        for s, f in self.ev(node.func, st):
            if isinstance(f, Raised):
                out.append((s, f))
                continue
            # arguments
            pos_nodes = []
            star = False
            for a in node.args:
                if isinstance(a, ast.Starred):
                    star = True
                pos_nodes.append(a.value if isinstance(a, ast.Starred) else a)
            kw_nodes = [k.value for k in node.keywords]
            for s2, vals in self.ev_seq(pos_nodes + kw_nodes, s):
                if isinstance(vals, Raised):
                    out.append((s2, vals))
                    continue
                pos: List[Any] = []
                for a, v in zip(node.args, vals[:len(pos_nodes)]):
                    if isinstance(a, ast.Starred):
                        if isinstance(v, Tup):
                            pos += list(v.items)
                        elif isinstance(v, T):
                            # f(*x) with a symbolic tuple: its length must be known on this path
                            zt = v.z
                            for k_ in range(0, 5):
                                if self.proves(s2, M.llen(zt) == k_):
                                    pos += [T(M.lat(zt, i_)) for i_ in range(k_)]
                                    break
                            else:
                                raise Unsupported("*args of a tuple of unknown length")
                        else:
                            raise Unsupported("*args of non-literal tuple")
                    else:
                        pos.append(v)
                kws: Dict[str, Any] = {}
                kwrest = None
                for k, v in zip(node.keywords, vals[len(pos_nodes):]):
                    if k.arg is None:
                        if isinstance(v, Kw):
                            kwrest = v
                        elif isinstance(v, KwD):
                            for kk, kv in v.items:
                                kws[kk] = kv
                            if v.rest is not None:
                                kwrest = v.rest
                        else:
                            raise Unsupported("** of non-kwargs value")
                    else:
                        kws[k.arg] = v
                out += self.call(f, pos, kws, kwrest, s2, node)
        return out

    def call(self, f: Any, pos: List[Any], kws: Dict[str, Any], kwrest: Optional[Kw], st: State,
             node: Any = None) -> List[Tuple[State, Any]]:
        if isinstance(f, Fn):
            return self.call_fn(f, pos, kws, kwrest, st, node)
        if isinstance(f, Builtin) and f.name.startswith("userhook."):
            from contracts.custom import apply_userhook
            return apply_userhook(self, f.name.split(".", 1)[1], f.bound, pos, kws, kwrest, st)
        if isinstance(f, Builtin) and f.name == "errformat":
            return self.contracts.apply_abstract(self, "ErrorFormat", {"error": f.bound, "formatter": pos[0]}, st)
        if isinstance(f, Builtin) and f.name == "accept":
            return self.contracts.apply_accept(self, f.bound, pos, kws, kwrest, st)
        if isinstance(f, Builtin):
            from . import builtins as B
            return B.call_builtin(self, f, pos, kws, kwrest, st, node)
        if isinstance(f, Cls):
            return self.construct(f.name, pos, kws, kwrest, st, node)
        if isinstance(f, T) and f.hint and f.hint in self.repo.classes:
            fi = self.repo.lookup_method(f.hint, "__call__")
            if fi is not None:
                return self.call_fn(Fn(fi, f, f.hint), pos, kws, kwrest, st, node)
        if isinstance(f, CellRef):
            c = st.cells[f.id]
            if isinstance(c, ObjC):
                fi = self.repo.lookup_method(c.cls, "__call__")
                if fi is not None:
                    return self.call_fn(Fn(fi, f, c.cls), pos, kws, kwrest, st, node)
        raise Unsupported(f"call of {f!r}")

    # ---------------------------------------------------------------- user functions
    def call_fn(self, f: Fn, pos: List[Any], kws: Dict[str, Any], kwrest: Optional[Kw], st: State,
                node: Any = None) -> List[Tuple[State, Any]]:
        info = f.info
        con = self.contracts.lookup(info, self, f.bound, st)
        if con is not None:
            return self.contracts.apply(self, con, info, f.bound, pos, kws, kwrest, st)
        if con is None and not self.contracts.is_transparent(info):
            # a small straight-line helper without a contract (typically introduced by a refactoring) is simply
            # executed in place: exact semantics, no assumption
            small = (len(info.node.body) <= 10 and self.inline_depth < 3 and
                     not any(isinstance(n, (ast.For, ast.While, ast.Try, ast.Yield, ast.YieldFrom, ast.With, ast.Lambda))
                             for n in ast.walk(info.node)))
            if not small:
                raise Unsupported(f"call of {info.relpath}:{info.qualname} which has neither a contract nor "
                                  f"the transparent mark")
            self.inline_depth += 1
            try:
                return self.inline(info, f.bound, pos, kws, kwrest, st, via_cls=f.via_cls)
            finally:
                self.inline_depth -= 1
        return self.inline(info, f.bound, pos, kws, kwrest, st, via_cls=f.via_cls)

    def bind_params(self, info: FuncInfo, bound: Any, pos: List[Any], kws: Dict[str, Any],
                    kwrest: Optional[Kw], st: State) -> Tuple[Dict[str, Any], Optional[Raised]]:
        a = info.node.args
        env: Dict[str, Any] = {}
        params = [x.arg for x in a.posonlyargs] + [x.arg for x in a.args]
        posonly = {x.arg for x in a.posonlyargs}
        defaults = dict(zip(params[len(params) - len(a.defaults):], a.defaults))
        actual = list(pos)
        if bound is not None and not info.is_staticmethod:
            actual = [bound] + actual
        if len(actual) > len(params) and a.vararg is None:
            return env, Raised("TypeError", None, f"too many positional arguments for {info.qualname}")
        for n, v in zip(params, actual):
            env[n] = v
        if a.vararg is not None:
            env[a.vararg.arg] = Tup(tuple(actual[len(params):]))
        kws = dict(kws)
        for n in params[len(actual):]:
            if n in kws and n not in posonly:
                env[n] = kws.pop(n)
            elif n in defaults:
                env[n] = ("default", defaults[n])
            else:
                return env, Raised("TypeError", None, f"missing argument {n} for {info.qualname}")
        for x, d in zip(a.kwonlyargs, a.kw_defaults):
            if x.arg in kws:
                env[x.arg] = kws.pop(x.arg)
            elif d is not None:
                env[x.arg] = ("default", d)
            else:
                return env, Raised("TypeError", None, f"missing keyword argument {x.arg}")
        if a.kwarg is not None:
            if kws:
                # explicit extra keywords: keep them as a small executor-level mapping
                env[a.kwarg.arg] = ("kwdict", dict(kws), kwrest)
            else:
                env[a.kwarg.arg] = kwrest if kwrest is not None else Kw(self.kw_empty)
        elif kws or kwrest is not None:
            if kws:
                return env, Raised("TypeError", None, f"unexpected keyword arguments {sorted(kws)}")
            # forwarding **kwargs into a function without **kwargs: TypeError iff kwargs non-empty
            self.used_assumptions.add("forwarded **kwargs is empty where the callee accepts no **kwargs")
        return env, None

    def escape_check(self, info: FuncInfo, pos: List[Any], kws: Dict[str, Any], st: State) -> None:
        """C07 / F2: a value stored into a Props registry (and so into a schema) must not be a mutable
        container owned by the caller -- otherwise a later mutation of it changes the schema."""
        if info.qualname not in ("Props.update", "Props.set"):
            return
        stored = list(kws.items()) if info.qualname == "Props.update" else [("value", pos[1])] if len(pos) > 1 else []
        for name, v in stored:
            if not isinstance(v, T):
                continue            # a cell: allocated in this activation (fresh)
            if v.z.get_id() in getattr(self, "fresh_terms", set()):
                continue
            z = v.z
            mutable = z3.Or(*[M.isinstance_f(self.ct, z, k) for k in ("list", "dict", "set", "bytearray")])
            self.escape_ctr = getattr(self, "escape_ctr", 0) + 1
            self.oblige(st, f"{self.fname.split(':')[-1]}:escape[{name}]#{self.escape_ctr}", "escape", z3.Not(mutable),
                        # (ownership supports every property of the function: its contracts describe the schema built as
                        # a value that the caller cannot change afterwards)
                        tuple(sorted(set(getattr(self, "current_props", ())) | {"C07"})), text=f"the object stored as prop `{name}` is not a mutable container owned by the caller",
                        where=self.where())

    def inline(self, info: FuncInfo, bound: Any, pos: List[Any], kws: Dict[str, Any],
               kwrest: Optional[Kw], st: State, via_cls: Optional[str] = None) -> List[Tuple[State, Any]]:
        if self.call_depth > 12:
            raise Unsupported(f"inline depth exceeded at {info.qualname}")
        self.escape_check(info, pos, kws, st)
        env, err = self.bind_params(info, bound, pos, kws, kwrest, st)
        if err is not None:
            return [(st, err)]
        self.inlined.add(f"{info.relpath}:{info.qualname}")
        saved = st.env
        st.env = {"__module__": info.module, "__func__": info, "__via_cls__": via_cls or info.cls}
        # defaults are evaluated in the callee's module context
        for k, v in list(env.items()):
            if isinstance(v, tuple) and v and v[0] == "default":
                r = self.ev(v[1], st)
                if len(r) != 1 or isinstance(r[0][1], Raised):
                    raise Unsupported("default value expression")
                st, val = r[0]
                env[k] = val
            elif isinstance(v, tuple) and v and v[0] == "kwdict":
                env[k] = KwD(tuple(v[1].items()), v[2])
        st.env.update(env)
        self.call_depth += 1
        try:
            outs = self.ex_block(info.node.body, st)
        finally:
            self.call_depth -= 1
        res: List[Tuple[State, Any]] = []
        for s, o in outs:
            s.env = dict(saved) if len(outs) > 1 else saved
            if isinstance(o, Ret):
                res.append((s, o.val))
            elif isinstance(o, Raised):
                res.append((s, o))
            elif o is NORMAL:
                res.append((s, self.const(None)))
            else:
                raise Unsupported("break/continue outside loop")
        return res

    # ---------------------------------------------------------------- construction
    def construct(self, cname: str, pos: List[Any], kws: Dict[str, Any], kwrest: Optional[Kw],
                  st: State, node: Any = None) -> List[Tuple[State, Any]]:
        from . import builtins as B
        if cname in self.repo.classes:
            init = self.repo.lookup_method(cname, "__init__")
            ident = M.fresh(cname[:6])
            ref = self.new_cell(st, ObjC(cname, (), ident))
            if init is None:
                if self.ct.is_sub(cname, "BaseException"):
                    c = st.cells[ref.id]
                    st.cells[ref.id] = c.set("args", Tup(tuple(pos)))
                    return [(st, ref)]
                if pos or kws:
                    return [(st, Raised("TypeError", None, f"{cname}() takes no arguments"))]
                return [(st, ref)]
            con = self.contracts.lookup(init, self)
            if con is not None:
                return self.contracts.apply_ctor(self, con, cname, init, ref, pos, kws, kwrest, st)
            out = []
            for s, r in self.inline(init, ref, pos, kws, kwrest, st, via_cls=cname):
                out.append((s, r if isinstance(r, Raised) else ref))
            return out
        return B.construct_builtin(self, cname, pos, kws, kwrest, st, node)

    # ================================================================== statements
    def ex_block(self, stmts: Sequence[ast.stmt], st: State) -> List[Tuple[State, Any]]:
        outs: List[Tuple[State, Any]] = [(st, NORMAL)]
        for stmt in stmts:
            nxt: List[Tuple[State, Any]] = []
            for s, o in outs:
                if o is not NORMAL:
                    nxt.append((s, o))
                else:
                    nxt += self.ex(stmt, s)
            outs = nxt
            if all(o is not NORMAL for _, o in outs):
                break
        return outs

    def ex(self, stmt: ast.stmt, st: State) -> List[Tuple[State, Any]]:
        m = getattr(self, "ex_" + type(stmt).__name__, None)
        if m is None:
            raise Unsupported(f"statement {type(stmt).__name__} at line {stmt.lineno}")
        return m(stmt, st)

    def ex_Expr(self, stmt: ast.Expr, st: State):
        if isinstance(stmt.value, ast.Constant):
            return [(st, NORMAL)]   # docstring
        if isinstance(stmt.value, ast.YieldFrom):
            raise Unsupported("generator function")
        return [(s, v if isinstance(v, Raised) else NORMAL) for s, v in self.ev(stmt.value, st)]

    def ex_Pass(self, stmt, st):
        return [(st, NORMAL)]

    def ex_Return(self, stmt: ast.Return, st: State):
        if stmt.value is None:
            return [(st, Ret(self.const(None)))]
        outs = []
        for s, v in self.ev(stmt.value, st):
            if self.call_depth == 0:
                s.notes = s.notes + (f"L{stmt.lineno}",)
            outs.append((s, v if isinstance(v, Raised) else Ret(v)))
        return outs

    def ex_Break(self, stmt, st):
        return [(st, Brk())]

    def ex_Continue(self, stmt, st):
        return [(st, Cont())]

    def ex_Assert(self, stmt: ast.Assert, st: State):
        out = []
        for s, v in self.ev(stmt.test, st):
            if isinstance(v, Raised):
                out.append((s, v))
                continue
            for s2, b in self.branch(s, self.truth(v, s)):
                out.append((s2, NORMAL if b else Raised("AssertionError", None, f"assert at line {stmt.lineno}")))
        return out

    def ex_Raise(self, stmt: ast.Raise, st: State):
        if stmt.exc is None:
            raise Unsupported("bare raise")
        out = []
        for s, v in self.ev(stmt.exc, st):
            if isinstance(v, Raised):
                out.append((s, v))
                continue
            if isinstance(v, Cls):
                out.append((s, Raised(v.name, None, f"line {stmt.lineno}")))
                continue
            h = self.hint_of(v, s)
            if h is None or not self.ct.is_sub(h, "BaseException"):
                raise Unsupported(f"raise of {v!r}")
            out.append((s, Raised(h, v, f"line {stmt.lineno}")))
        return out

    def ex_If(self, stmt: ast.If, st: State):
        out = []
        for s, c in self.ev(stmt.test, st):
            if isinstance(c, Raised):
                out.append((s, c))
                continue
            base_len = len(s.pc)
            cond = z3.simplify(self.truth(c, s))
            br = self.branch(s, cond)
            if len(br) == 2:
                (sT, _), (sF, _) = br
                oT = self.ex_block(stmt.body, sT)
                oF = self.ex_block(stmt.orelse, sF) if stmt.orelse else [(sF, NORMAL)]
                nT = [x for x in oT if x[1] is NORMAL]
                nF = [x for x in oF if x[1] is NORMAL]
                if len(nT) == 1 and len(nF) == 1:
                    m = self.merge(cond, nT[0][0], nF[0][0], base_len)
                    if m is not None:
                        out += [x for x in oT if x[1] is not NORMAL]
                        out += [x for x in oF if x[1] is not NORMAL]
                        out.append((m, NORMAL))
                        continue
                out += oT + oF
            else:
                for s2, b in br:
                    out += self.ex_block(stmt.body if b else stmt.orelse, s2)
        return out

    # ---------------------------------------------------------------- join-point merging
    def merge(self, c: Any, a: State, b: State, base_len: int) -> Optional[State]:
        """Merge the two normal continuations of an `if` (condition c holds in a, not in b)."""
        if len(a.pc) <= base_len or len(b.pc) <= base_len or os.environ.get("PYVC_NO_MERGE") \
                or getattr(self, "no_merge", False):
            return None
        for x, y in zip(a.pc[:base_len], b.pc[:base_len]):
            if x is not y and not z3.eq(x, y):
                return None
        nc = z3.Not(c)

        def mval(x: Any, y: Any) -> Any:
            if x is y or x == y:
                return x
            if isinstance(x, T) and isinstance(y, T):
                if z3.eq(x.z, y.z):
                    return T(x.z, x.hint if x.hint == y.hint else None)
                return T(named(z3.If(c, x.z, y.z)), x.hint if x.hint == y.hint else None)
            if isinstance(x, Kw) and isinstance(y, Kw) and z3.eq(x.z, y.z):
                return x
            if isinstance(x, Tup) and isinstance(y, Tup) and len(x.items) == len(y.items):
                its = [mval(p, q) for p, q in zip(x.items, y.items)]
                if any(i is None for i in its):
                    return None
                return Tup(tuple(its))
            return None

        m = State()
        m.pc = list(a.pc[:base_len])
        defs: List[Any] = []

        def named(e: Any) -> Any:
            # ite terms are not allowed inside quantifier patterns: name every merged value
            k = M.fresh("mg", e.sort())
            defs.append(k == e)
            return k
        sa, sb = a.pc[base_len + 1:], b.pc[base_len + 1:]
        if sa:
            m.pc.append(z3.Implies(c, z3.And(*sa)))
        if sb:
            m.pc.append(z3.Implies(nc, z3.And(*sb)))
        m.notes = a.notes
        # variables: a name bound on only one side stays bound (reading it on the other side would be
        # an UnboundLocalError in Python; d42 never does that)
        for k in set(a.env) | set(b.env):
            if k in a.env and k in b.env:
                v = mval(a.env[k], b.env[k])
                if v is None:
                    return None
                m.env[k] = v
            else:
                m.env[k] = a.env.get(k, b.env.get(k))
        for cid_ in set(a.cells) | set(b.cells):
            ca, cb = a.cells.get(cid_), b.cells.get(cid_)
            if ca is None or cb is None:
                m.cells[cid_] = ca if ca is not None else cb
                continue
            if ca is cb or ca == cb:
                m.cells[cid_] = ca
                continue
            if type(ca) is not type(cb):
                return None
            if isinstance(ca, (ListC, DictC)):
                snap = ca.snap if z3.eq(ca.snap, cb.snap) else named(z3.If(c, ca.snap, cb.snap))
                m.cells[cid_] = type(ca)(snap, ca.frozen or cb.frozen)
                continue
            if isinstance(ca, ObjC):
                if ca.cls != cb.cls or ca.frozen != cb.frozen:
                    return None
                da, db = dict(ca.attrs), dict(cb.attrs)
                if set(da) != set(db):
                    return None
                attrs = []
                for k in da:
                    v = mval(da[k], db[k])
                    if v is None:
                        return None
                    attrs.append((k, v))
                m.cells[cid_] = ObjC(ca.cls, tuple(attrs), ca.ident, ca.frozen)
                continue
            return None
        if not (a.ph is b.ph or z3.eq(a.ph, b.ph)) or not (a.alloc is b.alloc or z3.eq(a.alloc, b.alloc)):
            return None      # different PathHolder heaps: keep the paths apart (cheaper heap reasoning)
        m.ph = a.ph
        m.alloc = a.alloc
        m.pc += defs
        return m

    def ex_Assign(self, stmt: ast.Assign, st: State):
        out = []
        for s, v in self.ev(stmt.value, st):
            if isinstance(v, Raised):
                out.append((s, v))
                continue
            res = [(s, NORMAL)]
            for tgt in stmt.targets:
                nxt = []
                for s2, o in res:
                    nxt += self.assign(tgt, v, s2) if o is NORMAL else [(s2, o)]
                res = nxt
            out += res
        return out

    def ex_AnnAssign(self, stmt: ast.AnnAssign, st: State):
        if stmt.value is None:
            return [(st, NORMAL)]
        out = []
        for s, v in self.ev(stmt.value, st):
            out += [(s, v)] if isinstance(v, Raised) else self.assign(stmt.target, v, s)
        return out

    def ex_AugAssign(self, stmt: ast.AugAssign, st: State):
        out = []
        load = ast.copy_location(ast.Name(stmt.target.id, ast.Load()), stmt.target) \
            if isinstance(stmt.target, ast.Name) else None
        if load is None:
            raise Unsupported("augmented assignment to non-name")
        for s, vals in self.ev_seq([load, stmt.value], st):
            if isinstance(vals, Raised):
                out.append((s, vals))
                continue
            cur, v = vals
            if isinstance(cur, CellRef) and isinstance(s.cells[cur.id], ListC) and isinstance(stmt.op, ast.Add):
                # list += iterable  : in-place extend
                c = s.cells[cur.id]
                if c.frozen:
                    raise Unsupported("mutation of a list after it escaped")
                s.cells[cur.id] = ListC(self.list_concat(s, c.snap, self.seq_snap(v, s)))
                out.append((s, NORMAL))
                continue
            for s2, r in self.binop(stmt.op, cur, v, s):
                if isinstance(r, Raised):
                    out.append((s2, r))
                else:
                    s2.env[stmt.target.id] = r
                    out.append((s2, NORMAL))
        return out

    def assign(self, tgt: ast.expr, v: Any, st: State) -> List[Tuple[State, Any]]:
        if isinstance(tgt, ast.Name):
            st.env[tgt.id] = v
            return [(st, NORMAL)]
        if isinstance(tgt, (ast.Tuple, ast.List)):
            return self.unpack(tgt.elts, v, st)
        if isinstance(tgt, ast.Attribute):
            out = []
            for s, o in self.ev(tgt.value, st):
                if isinstance(o, Raised):
                    out.append((s, o))
                    continue
                if isinstance(o, CellRef) and isinstance(s.cells[o.id], ObjC):
                    c = s.cells[o.id]
                    if c.frozen:
                        raise Unsupported("attribute store on an escaped object")
                    s.cells[o.id] = c.set(tgt.attr, v)
                    out.append((s, NORMAL))
                else:
                    self.oblige(s, f"frame:setattr.{tgt.attr}", "frame", z3.BoolVal(False), ("C07",),
                                text=f"attribute {tgt.attr} stored on an object that existed before the call",
                                where=self.where())
                    raise Unsupported(f"attribute store on {o!r}")
            return out
        if isinstance(tgt, ast.Subscript):
            if isinstance(tgt.slice, ast.Slice):
                raise Unsupported("slice assignment")
            out = []
            for s, vals in self.ev_seq([tgt.value, tgt.slice], st):
                if isinstance(vals, Raised):
                    out.append((s, vals))
                    continue
                o, k = vals
                if isinstance(o, CellRef) and isinstance(s.cells[o.id], DictC):
                    c = s.cells[o.id]
                    if c.frozen:
                        raise Unsupported("mutation of a dict after it escaped")
                    s.cells[o.id] = DictC(self.dict_store(s, c.snap, self.term(k, s), self.term(v, s)))
                    out.append((s, NORMAL))
                else:
                    self.oblige(s, "frame:setitem", "frame", z3.BoolVal(False), ("C07",),
                                text="item stored into a container that existed before the call",
                                where=self.where())
                    raise Unsupported(f"subscript store on {o!r}")
            return out
        raise Unsupported(f"assignment target {type(tgt).__name__}")

    def unpack(self, elts: Sequence[ast.expr], v: Any, st: State) -> List[Tuple[State, Any]]:
        star = [i for i, e in enumerate(elts) if isinstance(e, ast.Starred)]
        if isinstance(v, Tup):
            if star:
                raise Unsupported("starred unpack of literal tuple")
            if len(v.items) != len(elts):
                return [(st, Raised("ValueError", None, "unpack arity"))]
            res = [(st, NORMAL)]
            for e, x in zip(elts, v.items):
                nxt = []
                for s, o in res:
                    nxt += self.assign(e, x, s) if o is NORMAL else [(s, o)]
                res = nxt
            return res
        h = self.hint_of(v, st)
        z = self.seq_snap(v, st)
        if h not in ("list", "tuple"):
            h2 = self.refine_hint(T(z), st, ("tuple", "list")) if isinstance(v, T) else None
            if h2 is None:
                raise Unsupported(f"unpack of {v!r}")
        n = M.llen(z)
        out = []
        if star:
            if len(star) != 1 or star[0] != len(elts) - 1:
                raise Unsupported("starred unpack form")
            k = len(elts) - 1
            for s, ok in self.branch(st, n >= k, "ValueError", "unpacking"):
                if not ok:
                    out.append((s, Raised("ValueError", None, "not enough values to unpack")))
                    continue
                res = [(s, NORMAL)]
                for i, e in enumerate(elts[:-1]):
                    nxt = []
                    for s2, o in res:
                        nxt += self.assign(e, T(M.lat(z, i)), s2) if o is NORMAL else [(s2, o)]
                    res = nxt
                fin = []
                for s2, o in res:
                    if o is NORMAL:
                        rest = self.list_slice(s2, z, z3.IntVal(k), n)
                        s2.assume(M.rcls(rest) == self.ct.id("list"))
                        fin += self.assign(elts[-1].value, T(rest, "list"), s2)
                    else:
                        fin.append((s2, o))
                out += fin
            return out
        for s, ok in self.branch(st, n == len(elts), "ValueError", "unpacking"):
            if not ok:
                out.append((s, Raised("ValueError", None, "unpack arity")))
                continue
            res = [(s, NORMAL)]
            for i, e in enumerate(elts):
                nxt = []
                for s2, o in res:
                    nxt += self.assign(e, T(M.lat(z, i)), s2) if o is NORMAL else [(s2, o)]
                res = nxt
            out += res
        return out

    # ---------------------------------------------------------------- try / except
    def ex_Try(self, stmt: ast.Try, st: State):
        if stmt.finalbody:
            raise Unsupported("finally")
        out = []
        for s, o in self.ex_block(stmt.body, st):
            if isinstance(o, Raised):
                handled = False
                for h in stmt.handlers:
                    names = self.handler_classes(h, s)
                    if any(self.ct.is_sub(o.cls, n) for n in names):
                        if h.name:
                            s.env[h.name] = o.exc if o.exc is not None else T(M.fresh("exc"), o.cls)
                        out += self.ex_block(h.body, s)
                        handled = True
                        break
                if not handled:
                    out.append((s, o))
            elif o is NORMAL:
                out += self.ex_block(stmt.orelse, s) if stmt.orelse else [(s, NORMAL)]
            else:
                out.append((s, o))
        return out

    def handler_classes(self, h: ast.ExceptHandler, st: State) -> List[str]:
        if h.type is None:
            return ["BaseException"]
        r = self.ev(h.type, st)
        v = r[0][1]
        if isinstance(v, Cls):
            return [v.name]
        if isinstance(v, Tup):
            return [x.name for x in v.items]
        raise Unsupported("except clause type")

    # ---------------------------------------------------------------- loops
    def ex_For(self, stmt: ast.For, st: State):
        from . import loops
        return loops.exec_for(self, stmt, st)

    def ex_While(self, stmt, st):
        raise Unsupported("while loop")

    def ev_ListComp(self, node, st):
        from . import loops
        return loops.eval_comprehension(self, node, st, "list")

    def ev_SetComp(self, node, st):
        from . import loops
        return loops.eval_comprehension(self, node, st, "set")

    def ev_DictComp(self, node, st):
        from . import loops
        return loops.eval_comprehension(self, node, st, "dict")

    def ev_GeneratorExp(self, node, st):
        from . import loops
        return loops.eval_comprehension(self, node, st, "gen")

    def ev_Lambda(self, node, st):
        return [(st, Lam(node, dict(st.env)))]


# opcode numbers of re._constants as seen through `from re._constants import ...` (CPython 3.12);
# they are only compared with each other, never interpreted, so any injective numbering is sound.
SRE_CONST = {n: i for i, n in enumerate(
    ["FAILURE", "SUCCESS", "ANY", "ANY_ALL", "ASSERT", "ASSERT_NOT", "AT", "BRANCH", "CATEGORY",
     "CHARSET", "BIGCHARSET", "GROUPREF", "GROUPREF_EXISTS", "IN", "INFO", "JUMP", "LITERAL",
     "MARK", "MAX_UNTIL", "MIN_UNTIL", "NOT_LITERAL", "NEGATE", "RANGE", "REPEAT", "REPEAT_ONE",
     "SUBPATTERN", "MIN_REPEAT_ONE", "ATOMIC_GROUP", "POSSESSIVE_REPEAT", "POSSESSIVE_REPEAT_ONE",
     "GROUPREF_IGNORE", "IN_IGNORE", "LITERAL_IGNORE", "NOT_LITERAL_IGNORE", "GROUPREF_LOC_IGNORE",
     "IN_LOC_IGNORE", "LITERAL_LOC_IGNORE", "NOT_LITERAL_LOC_IGNORE", "GROUPREF_UNI_IGNORE",
     "IN_UNI_IGNORE", "LITERAL_UNI_IGNORE", "NOT_LITERAL_UNI_IGNORE", "RANGE_UNI_IGNORE",
     "MIN_REPEAT", "MAX_REPEAT", "CATEGORY_DIGIT", "CATEGORY_NOT_DIGIT", "CATEGORY_SPACE",
     "CATEGORY_NOT_SPACE", "CATEGORY_WORD", "CATEGORY_NOT_WORD", "MAXREPEAT"])}
