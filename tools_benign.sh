#!/bin/bash
# behaviour-preserving refactorings (benign/*.diff, written by independent sub-agents) must never raise an alarm:
# runs the checks of the properties each file touches against a scratch worktree; writes benign/RESULTS.txt
cd /verif
cat benign/JOBS.txt | xargs -P 4 -L 1 ./tools_benign1.sh > /tmp/benign_results.txt 2>&1
sort /tmp/benign_results.txt > benign/RESULTS.txt
grep -c "exit=0" benign/RESULTS.txt; grep -v "exit=0" benign/RESULTS.txt | cut -c1-200
