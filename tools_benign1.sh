#!/bin/bash
# run_benign.sh <module>_<i> <props...>
name=$1; shift
wt=/tmp/bw_$name
git -C /repo worktree add --detach -q $wt HEAD || exit 1
(cd $wt && git apply /verif/benign/$name.diff) || { echo "$name patch-does-not-apply"; git -C /repo worktree remove --force $wt; exit 1; }
cd /verif
for p in "$@"; do
  out=$(PYVC_REPO=$wt PYVC_EVIDENCE_DIR=/tmp/bw_ev_$name ./check $p --tier quick 2>&1); rc=$?
  line=$(echo "$out" | grep -E "^VIOLATION|^UNDECIDED|CHECKER" | head -2 | cut -c1-200 | tr '\n' ' ')
  echo "$name $p exit=$rc $line"
done
git -C /repo worktree remove --force $wt
rm -rf /tmp/bw_ev_$name
