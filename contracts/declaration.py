"""Contracts for the declaration DSL (C10 class invariant + exact exceptional behaviour, reused by
C06 / C11 / C13 / C14).  Each refinement method gets an *exact* contract:
    raises DeclarationError  <=>  RAISE(view(self), args)
    otherwise returns a fresh schema whose registry is self's registry updated with UPDATE(...)
The tables RAISE/UPDATE mirror the guards of the code (they must: the bodies are verified against
them, both directions); the properties themselves (self-consistency, only-DeclarationError,
re-declaration rejected, order independence) are stated separately and proved from the tables.
"""
from __future__ import annotations

from typing import Any, Callable, Dict, List, Tuple

import z3

from pyvc import model as M
from pyvc.contracts import contract, invariant, transparent
from pyvc.model import Obj

from . import spec as S

T_ = "d42/declaration/types/"
FILES = {"Bool": "_bool_schema", "Int": "_int_schema", "Float": "_float_schema", "Str": "_str_schema",
         "List": "_list_schema", "Dict": "_dict_schema", "Any": "_any_schema", "Bytes": "_bytes_schema",
         "UUID4": "_uuid4_schema", "DateTime": "_datetime_schema", "Date": "_date_schema"}

ERR = "d42/declaration/errors/__init__.py"


def _make_error(c):
    ct = c.ct
    c.raises()
    c.returns("DeclarationError")
    c.ensures("is-declaration-error",
              lambda r, post: z3.And(M.is_Ref(r), M.rcls(r) == ct.id("DeclarationError")))


for _n in ["make_invalid_type_error", "make_already_declared_error", "make_incorrect_min_error",
           "make_incorrect_max_error", "make_incorrect_len_error", "make_incorrect_min_len_error",
           "make_incorrect_max_len_error", "make_incorrect_precision_error"]:
    contract(ERR, _n, props=(), trusted=True,
             note="assumed: builds a DeclarationError and raises nothing (message text via repr of the "
                  "receiver is not modelled)")(_make_error)


def view(Sx: Any, cls: str) -> Dict[str, Any]:
    return {n: S.prop(Sx, n) for n in S.PROP_NAMES[cls]}


def D(x: Any) -> Any:
    return x != M.NilV


def is_int(x):
    return M.is_intlike(x)


def is_float(x):
    return M.is_floatk(x)


def slen(x):
    return z3.Length(M.sval(x))


# ----------------------------------------------------------------------------- RAISE / UPDATE tables
SPEC: Dict[Tuple[str, str], Callable] = {}
PARAMS: Dict[Tuple[str, str], List[str]] = {}


def spec(cls: str, method: str, params: List[str]):
    def deco(fn):
        SPEC[(cls, method)] = fn
        PARAMS[(cls, method)] = params
        return fn
    return deco


def _value_call(cls: str, tname: str):
    def fn(ct, P, a):
        # FloatSchema.__call__ does not look at `precision` (a value may follow a precision)
        others = [D(P[n]) for n in S.PROP_NAMES[cls] if not (cls == "FloatSchema" and n == "precision")]
        bad_t = z3.Not(M.isinstance_f(ct, a["value"], tname))
        if cls == "UUID4Schema":
            bad_t = z3.Or(bad_t, z3.Not(M.py_eq(M.attr("version")(a["value"]), M.mk_int(4))))
        return z3.Or(bad_t, *others), {"value": a["value"]}
    return fn


for _cls, _t in [("BoolSchema", "bool"), ("IntSchema", "int"), ("FloatSchema", "float"),
                 ("StrSchema", "str"), ("BytesSchema", "bytes"), ("UUID4Schema", "UUID"),
                 ("DateTimeSchema", "datetime"), ("DateSchema", "date")]:
    spec(_cls, "__call__", ["value"])(_value_call(_cls, _t))


def _minmax(kind, which):
    def fn(ct, P, a):
        v = a["value"]
        ok_t = is_int(v) if kind == "int" else is_float(v)
        bad = M.num_lt(P["value"], v) if which == "min" else M.num_lt(v, P["value"])
        return z3.Or(z3.Not(ok_t), D(P[which]), z3.And(D(P["value"]), bad)), {which: v}
    return fn


for _cls, _k in [("IntSchema", "int"), ("FloatSchema", "float")]:
    spec(_cls, "min", ["value"])(_minmax(_k, "min"))
    spec(_cls, "max", ["value"])(_minmax(_k, "max"))


@spec("FloatSchema", "precision", ["value"])
def _precision(ct, P, a):
    v = a["value"]
    return z3.Or(z3.Not(is_int(v)), z3.Not(z3.And(1 <= M.int_of(v), M.int_of(v) <= 15)),
                 D(P["precision"])), {"precision": v}


def _len_spec(cls: str):
    def count(P):      # number of fixed characters / concrete elements the lengths are checked against
        return slen(P["value"])

    def fn(ct, P, a):
        x, y = a["val_or_min"], a["max"]
        pre = z3.Or(D(P["len"]), D(P["min_len"]), D(P["max_len"]))
        if cls == "StrSchema":
            pre = z3.Or(pre, D(P["pattern"]))
        hasv = D(P["value"])
        n = count(P)
        bad_max = lambda t: z3.Or(z3.Not(is_int(t)), z3.And(hasv, M.int_of(t) < n))
        bad_min = lambda t: z3.Or(z3.Not(is_int(t)), z3.And(hasv, M.int_of(t) > n))
        bad_len = lambda t: z3.Or(z3.Not(is_int(t)), z3.And(hasv, n != M.int_of(t)))
        case_max = x == M.EllV
        case_len = z3.And(x != M.EllV, y == M.NilV)
        case_min = z3.And(x != M.EllV, y != M.NilV, y == M.EllV)
        rc = z3.Or(pre,
                   z3.If(case_max, bad_max(y),
                   z3.If(case_len, bad_len(x),
                   z3.If(case_min, bad_min(x), z3.Or(bad_min(x), bad_max(y))))))
        upd = {"len": z3.If(case_len, x, P["len"]),
               "min_len": z3.If(z3.Or(case_max, case_len), P["min_len"], x),
               "max_len": z3.If(case_max, y, z3.If(z3.Or(case_len, case_min), P["max_len"], y))}
        return rc, upd
    return fn


spec("StrSchema", "len", ["val_or_min", "max"])(_len_spec("StrSchema"))


@spec("StrSchema", "alphabet", ["letters"])
def _alphabet(ct, P, a):
    l = a["letters"]
    return z3.Or(z3.Not(M.is_StrV(l)), D(P["alphabet"]), D(P["pattern"]),
                 z3.And(D(P["value"]), z3.Not(S.in_alphabet(M.sval(P["value"]), M.sval(l))))), {"alphabet": l}


@spec("StrSchema", "contains", ["substr"])
def _contains(ct, P, a):
    s = a["substr"]
    return z3.Or(z3.Not(M.is_StrV(s)), D(P["substr"]), D(P["pattern"]),
                 z3.And(D(P["value"]), z3.Not(z3.Contains(M.sval(P["value"]), M.sval(s))))), {"substr": s}


@spec("StrSchema", "regex", ["pattern"])
def _regex(ct, P, a):
    p = a["pattern"]
    return z3.Or(z3.Not(M.is_StrV(p)), D(P["pattern"]), D(P["alphabet"]), D(P["len"]), D(P["min_len"]),
                 D(P["max_len"]), D(P["substr"]), z3.Not(M.re_ok(M.sval(p))),
                 z3.And(D(P["value"]), z3.Not(M.re_search(M.sval(p), M.sval(P["value"]))))), {"pattern": p}


# ----------------------------------------------------------------------------- contracts from the tables
def decl_contract(cls: str, method: str):
    params = PARAMS[(cls, method)]

    def body(c):
        ct = c.ct
        Sx = c.sym("self", cls)
        args = {p: c.sym(p) for p in params}
        for f in S.reach_def(ct, cls, Sx):
            c.requires(f)
        for t in args.values():
            c.requires(S.float_range(t), "float-repr")
            # type invariant of inputs: every schema object handed in is itself a DSL-built schema
            c.requires(z3.Implies(S.is_schema(ct, t), z3.And(S.wf(t), S.reach(t))), "arg-schemas-reachable")
            if cls == "ListSchema" and method == "__call__":
                j = z3.Int("aj")
                c.requires(z3.Implies(M.isinstance_f(ct, t, "list"), z3.ForAll(
                    [j], z3.Implies(z3.And(0 <= j, j < M.llen(t), S.is_schema(ct, M.lat(t, j))),
                                    z3.And(S.wf(M.lat(t, j)), S.reach(M.lat(t, j)))), patterns=[M.lat(t, j)])),
                    "arg-items-reachable")
        P = view(Sx, cls)
        rc, upd = SPEC[(cls, method)](ct, P, args)
        c.raises("DeclarationError", props=("C10", "C11"))
        c.raises_when("DeclarationError", rc)
        c.returns(cls)
        c.reproducible()      # C17: the declared schema does not depend on the interpreter's hash seed / clock
        c.meta = {"method": method, "params": params}
        c.ensures("registry", lambda r, post: S.registry_is(ct, cls, r, Sx, upd), ("C10", "C11", "C06"))
        # the reachable-state invariant is what the generator (C01) and the representor (C06) contracts assume of every
        # schema they are given: a declaration method that stops maintaining it breaks those properties as well
        c.ensures("invariant", lambda r, post: z3.And(*S.reach_def(ct, cls, r)), ("C10", "C06", "C01"))
        c.ensures("unfold", lambda r, post: S.unfold_defs(ct, cls, r), ("C10",))
        if cls == "FloatSchema" and method in ("__call__", "min", "max"):
            c.known_region("C10-float-nan", f"FloatSchema.{method}:ensures[invariant]", M.is_FNanV(args["value"]))
    return body


for (_cls, _m) in list(SPEC):
    _short = _cls[:-len("Schema")]
    contract(T_ + FILES[_short] + ".py", f"{_cls}.{_m}", props=("C10", "C11", "C07", "C17", "C06", "C01"),
             group="declaration")(decl_contract(_cls, _m))

transparent(T_ + "_str_schema.py", "StrSchema.__declare_len", "StrSchema.__declare_min_len",
            "StrSchema.__declare_max_len")


# ----------------------------------------------------------------------------- C11: order independence (lemma)
from pyvc.contracts import lemma  # noqa: E402

REFINEMENTS = {
    "IntSchema": ["min", "max"],
    "FloatSchema": ["min", "max", "precision"],
    "StrSchema": ["len", "alphabet", "contains", "regex"],
    "ListSchema": ["len"],
}


def apply_view(P: Dict[str, Any], upd: Dict[str, Any]) -> Dict[str, Any]:
    Q = dict(P)
    Q.update(upd)
    return Q


@lemma("C11.commute", props=("C11",))
def _c11(lc):
    """Pairwise commutation of refinements from every reachable state (value optionally fixed):
    executing the *contracts* (exact RAISE/UPDATE tables, each proved against its real body) in both
    orders either raises in both or yields equal registries.  Adjacent transpositions generate every
    permutation, so this covers sets of any size."""
    ct = lc.ct
    for cls, methods in REFINEMENTS.items():
        for i, m1 in enumerate(methods):
            for m2 in methods[i:]:
                Sx = z3.Const(f"S_{cls}", Obj)
                a = {p: z3.Const(f"a_{p}", Obj) for p in PARAMS[(cls, m1)]}
                b = {p: z3.Const(f"b_{p}", Obj) for p in PARAMS[(cls, m2)]}
                hyp = list(S.reach_def(ct, cls, Sx))
                P0 = view(Sx, cls)
                rc1, u1 = SPEC[(cls, m1)](ct, P0, a)
                rc2_after1, u2_after1 = SPEC[(cls, m2)](ct, apply_view(P0, u1), b)
                rc2, u2 = SPEC[(cls, m2)](ct, P0, b)
                rc1_after2, u1_after2 = SPEC[(cls, m1)](ct, apply_view(P0, u2), a)
                raiseA = z3.Or(rc1, rc2_after1)
                raiseB = z3.Or(rc2, rc1_after2)
                PA = apply_view(apply_view(P0, u1), u2_after1)
                PB = apply_view(apply_view(P0, u2), u1_after2)
                inputs = {"self": Sx}
                inputs.update({f"a.{k}": v for k, v in a.items()})
                inputs.update({f"b.{k}": v for k, v in b.items()})
                meta = {"cls": cls, "m1": m1, "m2": m2, "a": list(a), "b": list(b)}
                lc.oblige(f"{cls}.{m1}<->{m2}:same-outcome", hyp, raiseA == raiseB, inputs, meta,
                          text=f"{m1} then {m2} is rejected iff {m2} then {m1} is rejected")
                same = z3.And(*[PA[n] == PB[n] for n in S.PROP_NAMES[cls]])
                lc.oblige(f"{cls}.{m1}<->{m2}:same-schema", hyp + [z3.Not(raiseA), z3.Not(raiseB)], same,
                          inputs, meta, text=f"{m1} then {m2} yields the same registry as {m2} then {m1}")


# ----------------------------------------------------------------------------- ListSchema
LS = T_ + "_list_schema.py"
transparent(LS, "ListSchema.__declare_len", "ListSchema.__declare_min_len", "ListSchema.__declare_max_len")


def elems_ok(ct, x: Any) -> Any:
    """every item is a Schema or `...`, `...` only first or last, and not exactly [..., ...]"""
    j = z3.Int("ej")
    m = M.llen(x)
    return z3.And(
        z3.ForAll([j], z3.Implies(z3.And(0 <= j, j < m),
                                  z3.And(z3.Or(S.is_schema(ct, M.lat(x, j)), M.lat(x, j) == M.EllV),
                                         z3.Implies(M.lat(x, j) == M.EllV, z3.Or(j == 0, j == m - 1)))),
                  patterns=[M.lat(x, j)]),
        z3.Not(z3.And(m == 2, M.lat(x, 0) == M.EllV, M.lat(x, 1) == M.EllV)))


@spec("ListSchema", "__call__", ["elements_or_type"])
def _list_call(ct, P, a):
    x = a["elements_or_type"]
    is_list = M.isinstance_f(ct, x, "list")
    is_sch = S.is_schema(ct, x)
    declared_any = z3.Or(*[D(P[n]) for n in S.PROP_NAMES["ListSchema"]])
    rc = z3.Or(z3.Not(z3.Or(is_list, is_sch)), declared_any, z3.And(z3.Not(is_sch), z3.Not(elems_ok(ct, x))))
    return rc, {"elements": z3.If(is_sch, P["elements"], x), "type": z3.If(is_sch, x, P["type"])}


def _list_len(ct, P, a):
    x, y = a["val_or_min"], a["max"]
    pre = z3.Or(D(P["len"]), D(P["min_len"]), D(P["max_len"]))
    E = P["elements"]
    hasE = D(E)
    n = M.nonell_count(E)
    full = n == M.llen(E)
    bad_max = lambda t: z3.Or(z3.Not(is_int(t)), z3.And(hasE, M.int_of(t) < n))
    bad_min = lambda t: z3.Or(z3.Not(is_int(t)), z3.And(hasE, M.int_of(t) > n))
    bad_len = lambda t: z3.Or(z3.Not(is_int(t)),
                              z3.And(hasE, z3.If(full, M.int_of(t) != n, M.int_of(t) < n)))
    case_max = x == M.EllV
    case_len = z3.And(x != M.EllV, y == M.NilV)
    case_min = z3.And(x != M.EllV, y != M.NilV, y == M.EllV)
    rc = z3.Or(pre, z3.If(case_max, bad_max(y), z3.If(case_len, bad_len(x),
                          z3.If(case_min, bad_min(x), z3.Or(bad_min(x), bad_max(y))))))
    upd = {"len": z3.If(case_len, x, P["len"]),
           "min_len": z3.If(z3.Or(case_max, case_len), P["min_len"], x),
           "max_len": z3.If(case_max, y, z3.If(z3.Or(case_len, case_min), P["max_len"], y))}
    return rc, upd


spec("ListSchema", "len", ["val_or_min", "max"])(_list_len)
for _m in ("__call__", "len"):
    contract(LS, f"ListSchema.{_m}", props=("C10", "C11", "C07", "C17", "C06", "C01"), group="declaration")(decl_contract("ListSchema", _m))


@invariant(LS, "ListSchema.__call__", loop=0)
def _inv_list_call(L):
    ct = L.ct
    x = L.v("elements_or_type")
    m = M.llen(x)
    j = z3.Int("ij")
    return z3.ForAll([j], z3.Implies(z3.And(0 <= j, j < L.i),
                                     z3.And(z3.Or(S.is_schema(ct, M.lat(x, j)), M.lat(x, j) == M.EllV),
                                            z3.Implies(M.lat(x, j) == M.EllV, z3.Or(j == 0, j == m - 1)))),
                     patterns=[M.lat(x, j)])


# ----------------------------------------------------------------------------- DictSchema.__call__ (assumed for now)
def plain_key(ct, k: Any) -> Any:
    return z3.And(k != M.EllV, z3.Not(M.isinstance_f(ct, k, "optional")))


def dict_item_bad(ct, k: Any, v: Any) -> Any:
    """the item DictSchema.__call__ refuses: `...` on one side only, or a non-schema value"""
    return z3.If(z3.Or(k == M.EllV, v == M.EllV), z3.Not(z3.And(k == M.EllV, v == M.EllV)), z3.Not(S.is_schema(ct, v)))


@contract(T_ + "_dict_schema.py", "DictSchema.__call__", props=("C10", "C14", "C07", "C17", "C15", "C06", "C01"), group="declaration")
def _dict_call(c):
    """only DeclarationError; for an input dict whose keys are plain (no `...`, no optional(...)) and whose values are
    schemas, the result's key table maps each key, in order, to (schema, False) and has no other key (loop L16)"""
    ct = c.ct
    c.reproducible()
    Sx = c.sym("self", "DictSchema")
    keys = c.sym("keys")
    c.raises("DeclarationError")
    x = z3.Const("dk", Obj)
    isdict = M.isinstance_f(ct, keys, "dict")
    all_plain = z3.ForAll([x], z3.Implies(M.has(keys, x), z3.And(plain_key(ct, x), S.is_schema(ct, M.dget(keys, x)))),
                          patterns=[M.has(keys, x)])
    jb = z3.Int("dcj")
    c.raises_when("DeclarationError", z3.Or(z3.Not(isdict), S.declared(Sx, "keys"), z3.Exists(
        [jb], z3.And(0 <= jb, jb < M.klen(keys), dict_item_bad(ct, M.kat(keys, jb), M.dget(keys, M.kat(keys, jb)))),
        patterns=[M.kat(keys, jb)])))
    c.returns("DictSchema")

    def post(r, post_):
        K = S.prop(r, "keys")
        pair = M.dget(K, x)
        if c.mode == "verify":
            bk = z3.Const("badkey", Obj)
            wrap = lambda f: z3.Exists([bk], f, patterns=[M.has(keys, bk)])
        else:
            bk = M.fresh("badkey")      # at call sites: an explicit witness of `not all_plain` (Skolem constant)
            wrap = lambda f: f
        not_plain_at = wrap(z3.And(M.has(keys, bk), z3.Not(z3.And(plain_key(ct, bk), S.is_schema(ct, M.dget(keys, bk))))))
        return z3.And(*S.shape(ct, r, "DictSchema"), S.declared(r, "keys"), M.isinstance_f(ct, K, "dict"),
                      z3.Or(not_plain_at, z3.And(
                          M.klen(K) == M.klen(keys),
                          z3.ForAll([x], M.has(K, x) == M.has(keys, x), patterns=[M.has(K, x), M.has(keys, x)]),
                          z3.ForAll([x], z3.Implies(M.has(keys, x), z3.And(
                              M.is_Ref(pair), M.rcls(pair) == ct.id("tuple"), M.llen(pair) == 2,
                              M.lat(pair, 0) == M.dget(keys, x), M.lat(pair, 1) == M.mk_bool(False))),
                              patterns=[M.dget(K, x)]))))
    c.ensures("keys", post)
    # whatever mapping the caller declared from (OrderedDict, defaultdict, ...), the stored key table is an exact dict:
    # schema equality compares it with ==, and only dict == dict is an order-insensitive equivalence (C15)
    c.ensures("key-table-is-a-plain-dict", lambda r, post_: M.rcls(S.prop(r, "keys")) == ct.id("dict"), ("C15", "C10"))
    c.ensures("unfold", lambda r, post_: S.unfold_defs(ct, "DictSchema", r))
    vals_ok = z3.ForAll([x], z3.Implies(z3.And(M.has(keys, x), S.is_schema(ct, M.dget(keys, x))),
                                        z3.And(S.wf(M.dget(keys, x)), S.reach(M.dget(keys, x)))),
                        patterns=[M.has(keys, x)])
    c.ensures("members-carry-over", lambda r, post_: z3.Implies(vals_ok, z3.And(S.wf(r), S.reach(r))))


@invariant(T_ + "_dict_schema.py", "DictSchema.__call__", loop=0)
def _inv_dict_call(L):
    """L16: no item seen so far is refused; and unless one of them has a non-plain key (`...` / optional), `real_keys`
    holds exactly the keys seen so far, in order, each mapped to (schema, False)"""
    ct = L.ct
    keys, real = L.v("keys"), L.v("real_keys")
    j, b = z3.Ints("dj db")
    x = z3.Const("dx", Obj)
    pair = M.dget(real, x)
    val_at = lambda t: M.dget(keys, M.kat(keys, t))
    return z3.And(
        M.is_Ref(real), M.rcls(real) == ct.id("dict"),
        z3.ForAll([j], z3.Implies(z3.And(0 <= j, j < L.i), z3.Not(dict_item_bad(ct, M.kat(keys, j), val_at(j)))),
                  patterns=[M.kat(keys, j)]),
        # whatever the keys look like: every entry is a (member, flag) pair whose member is the value of an item seen
        # so far (the `...: ...` entry is stored as (..., False))
        z3.ForAll([x], z3.Implies(M.has(real, x), z3.And(
            M.is_Ref(pair), M.rcls(pair) == ct.id("tuple"), M.llen(pair) == 2, M.is_BoolV(M.lat(pair, 1)),
            z3.If(x == M.EllV, z3.And(M.lat(pair, 0) == M.EllV, M.lat(pair, 1) == M.mk_bool(False)),
                  z3.And(S.is_schema(ct, M.lat(pair, 0)),
                         z3.Exists([b], z3.And(0 <= b, b < L.i, M.lat(pair, 0) == val_at(b)), patterns=[M.kat(keys, b)]))))),
            patterns=[M.has(real, x)]),
        z3.Or(z3.Exists([b], z3.And(0 <= b, b < L.i, z3.Not(plain_key(ct, M.kat(keys, b)))), patterns=[M.kat(keys, b)]),
              z3.And(
                  M.klen(real) == L.i,
                  z3.ForAll([j], z3.Implies(z3.And(0 <= j, j < L.i), M.kat(real, j) == M.kat(keys, j)), patterns=[M.kat(real, j)]),
                  z3.ForAll([x], M.has(real, x) == z3.And(M.has(keys, x), M.kidx(keys, x) < L.i), patterns=[M.has(real, x)]),
                  z3.ForAll([x], z3.Implies(M.has(real, x), z3.And(
                      M.is_Ref(pair), M.rcls(pair) == ct.id("tuple"), M.llen(pair) == 2,
                      M.lat(pair, 0) == M.dget(keys, x), M.lat(pair, 1) == M.mk_bool(False))), patterns=[M.dget(real, x)]))))


def _optional_invariant(ct) -> List[Any]:
    """class invariant of `optional` (trusted): optional.__init__ raises TypeError for `...` and `_key` is never
    reassigned, so no optional object wraps an Ellipsis"""
    o = z3.Const("opt_o", Obj)
    return [z3.ForAll([o], z3.Implies(z3.And(M.is_Ref(o), M.rcls(o) == ct.id("optional")), M.attr("_key")(o) != M.EllV),
                      patterns=[M.attr("_key")(o)])]


from pyvc.contracts import REG as _REGD  # noqa: E402
_REGD.axiom_fns.append(_optional_invariant)
