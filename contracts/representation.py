"""Contracts for d42/representation (C06): repr(schema) is DSL source that rebuilds an equal schema.

Method (DESIGN 4.6).  The executor keeps an f-string result as a concatenation of source-literal
fragments and holes.  For every path of `Representor.visit_x` the *template* (fragments + holes) is read
off the returned term, the holes are replaced by placeholder names, the text is parsed by Python's own
`ast.parse`, and the resulting call chain `schema.int(h0).min(h1)...` is run through the exact
RAISE / UPDATE tables of the declaration methods (contracts/declaration.py, each proved against its real
body) with each hole standing for the prop value it was printed from.  Obligation: no call of the
chain raises and the final registry view equals the original one -- under the path condition and the
reachable-state invariant Reach_T.

Trusted: Python's parser; eval(repr(x)) == x for the leaf kinds None/bool/int/finite float/str/bytes/
UUID/datetime/date; a member's text (Accept[Representor]) evaluates to that member (induction hypothesis).
"""
from __future__ import annotations

import ast
from typing import Any, Dict, List, Optional, Tuple

import z3

from pyvc import model as M
from pyvc.contracts import contract, invariant, transparent
from pyvc.model import Obj

from . import declaration as D
from . import spec as S
from .custom import rtext

REP = "d42/representation/_representor.py"
RINIT = "d42/representation/__init__.py"
transparent(REP, "Representor.__init__", "Representor.name")

FACADE = {"none": "NoneSchema", "bool": "BoolSchema", "int": "IntSchema", "float": "FloatSchema",
          "str": "StrSchema", "list": "ListSchema", "dict": "DictSchema", "any": "AnySchema",
          "bytes": "BytesSchema", "uuid4": "UUID4Schema", "datetime": "DateTimeSchema", "date": "DateSchema"}


class TemplateError(Exception):
    pass


def flat(z: Any) -> List[Any]:
    if z3.is_app(z) and z.decl().kind() == z3.Z3_OP_SEQ_CONCAT:
        out: List[Any] = []
        for c in z.children():
            out += flat(c)
        return out
    return [z]


def template_of(r: Any) -> Tuple[str, Dict[str, Any]]:
    """(python source with placeholders, placeholder -> z3 value term it evaluates to)"""
    z = z3.simplify(M.sval(r))
    holes: Dict[str, Any] = {}
    src = ""
    for part in flat(z):
        if z3.is_string_value(part):
            src += part.as_string().replace("\\u{a}", "\n")
            continue
        name = f"__h{len(holes)}__"
        d = part.decl().name() if z3.is_app(part) else ""
        if d == "repr_s":
            holes[name] = ("value", part.arg(0))
        elif d == "rtext":
            holes[name] = ("member", part.arg(0))
        else:
            raise TemplateError(f"text fragment that is neither a literal nor repr(prop): {part}")
        src += name
    return src, holes


def eval_chain(ct, node: ast.expr, holes: Dict[str, Any]):
    """Symbolically evaluate a DSL expression over the declaration tables.
    Returns (cls, view, no_raise_conditions)."""
    if isinstance(node, ast.Attribute) and isinstance(node.value, ast.Name) and node.value.id == "schema":
        cls = FACADE.get(node.attr)
        if cls is None:
            raise TemplateError(f"schema.{node.attr} is not a facade property")
        return cls, {n: M.NilV for n in S.PROP_NAMES[cls]}, []
    if isinstance(node, ast.Call):
        f = node.func
        args = [arg_value(a, holes) for a in node.args]
        if node.keywords:
            raise TemplateError("keyword arguments in the printed DSL")
        if isinstance(f, ast.Attribute) and isinstance(f.value, ast.Name) and f.value.id == "schema":
            cls, view, conds = eval_chain(ct, f, holes)
            method = "__call__"
        elif isinstance(f, ast.Attribute):
            cls, view, conds = eval_chain(ct, f.value, holes)
            method = f.attr
        else:
            raise TemplateError("call of something that is not a DSL method")
        key = (cls, method)
        if key not in D.SPEC:
            raise TemplateError(f"no declaration table for {cls}.{method}")
        params = D.PARAMS[key]
        if len(args) > len(params):
            raise TemplateError(f"too many arguments for {cls}.{method}")
        a = {p: (args[i] if i < len(args) else M.NilV) for i, p in enumerate(params)}
        rc, upd = D.SPEC[key](ct, view, a)
        view2 = dict(view)
        view2.update(upd)
        return cls, view2, conds + [z3.Not(rc)]
    raise TemplateError(f"unexpected syntax {type(node).__name__} in the printed DSL")


def arg_value(a: ast.expr, holes: Dict[str, Any]) -> Any:
    if isinstance(a, ast.Name) and a.id in holes:
        return holes[a.id][1]
    if isinstance(a, ast.Constant) and a.value is Ellipsis:
        return M.EllV
    if isinstance(a, ast.List) and not a.elts:
        lit = M.fresh("emptylist")                      # the value of the literal []
        LITERAL_FACTS.append(lambda ct, lit=lit: z3.And(M.is_Ref(lit), M.rcls(lit) == ct.id("list"), M.llen(lit) == 0))
        return lit
    raise TemplateError(f"argument {ast.dump(a)} is neither a printed prop nor `...`")


LITERAL_FACTS: List[Any] = []


def rebuilds(ct, cls: str, Sx: Any, r: Any) -> Any:
    """the obligation described in the module docstring, as one z3 formula"""
    del LITERAL_FACTS[:]
    try:
        src, holes = template_of(r)
        tree = ast.parse(src, mode="eval")
        cls2, view, conds = eval_chain(ct, tree.body, holes)
    except (TemplateError, SyntaxError) as e:
        b = z3.Bool("template_error: " + str(e)[:160])
        return z3.And(b, z3.Not(b))
    if cls2 != cls:
        return z3.BoolVal(False)
    same = []
    for n in S.PROP_NAMES[cls]:
        if n == "elements":      # lists are compared by content
            a_, b_ = view[n], S.prop(Sx, n)
            islist = M.isinstance_f(ct, b_, "list")
            same.append(z3.If(islist, z3.And(a_ != M.NilV, M.llen(a_) == M.llen(b_), M.llen(b_) == 0), a_ == b_))
        else:
            same.append(view[n] == S.prop(Sx, n))
    lits = [f(ct) for f in LITERAL_FACTS]
    goal = z3.And(*(conds + same))
    return z3.Implies(z3.And(*lits), goal) if lits else goal


def rep_visit(cls: str):
    def body(c):
        ct = c.ct
        c.built_self("Representor")
        Sx = c.sym("schema", cls)
        ind = c.sym("indent", "int")
        c.kwargs()
        for f in S.reach_def(ct, cls, Sx):
            c.requires(f)
        c.requires(M.is_intlike(ind), "indent-int")
        c.raises(props=("C06",))
        c.returns("str")
        c.ensures("text-rebuilds-the-schema", lambda r, post: rebuilds(ct, cls, Sx, r), ("C06",))
        c.meta = {"cls": cls}
        c.no_merge = True        # every path keeps its own literal template
    return body


for _m, _cls in [("visit_none", "NoneSchema"), ("visit_bool", "BoolSchema"), ("visit_int", "IntSchema"),
                 ("visit_float", "FloatSchema"), ("visit_str", "StrSchema"), ("visit_bytes", "BytesSchema"),
                 ("visit_uuid4", "UUID4Schema"), ("visit_datetime", "DateTimeSchema"), ("visit_date", "DateSchema")]:
    contract(REP, f"Representor.{_m}", props=("C06", "C07"), group="representor")(rep_visit(_cls))


# ----------------------------------------------------------------------------- typed / plain lists (no element list)
def rep_visit_list(c):
    ct = c.ct
    c.built_self("Representor")
    Sx = c.sym("schema", "ListSchema")
    ind = c.sym("indent", "int")
    c.kwargs()
    for f in S.reach_def(ct, "ListSchema", Sx):
        c.requires(f)
    c.requires(M.is_intlike(ind), "indent-int")
    # domain of this contract: no element list, or the empty one (the rendering of non-empty element lists
    # goes through a loop and a join of member texts: not yet under contract)
    E = S.prop(Sx, "elements")
    c.requires(z3.Or(z3.Not(S.declared(Sx, "elements")), M.llen(E) == 0), "no-element-list")
    c.raises(props=("C06",))
    c.returns("str")
    c.ensures("text-rebuilds-the-schema", lambda r, post: rebuilds(ct, "ListSchema", Sx, r), ("C06",))
    c.meta = {"cls": "ListSchema"}
    c.no_merge = True


contract(REP, "Representor.visit_list", props=("C06", "C07"), group="representor")(rep_visit_list)


@invariant(REP, "Representor.visit_list", loop=0)
def _inv_rep_list(L):
    # only the empty element list is inside the contract's domain: the loop then runs zero times
    return z3.And(M.is_Ref(L.v("elems")), M.llen(L.v("elems")) == L.i)
