"""Contracts for d42/representation (C06): repr(schema) is DSL source that rebuilds an equal schema.

Method (DESIGN 4.6).  The executor keeps an f-string result as a concatenation of source-literal
fragments and holes.  For every path of `Representor.visit_x` the *template* (fragments + holes) is read
off the returned term, the holes are replaced by placeholder names, the text is parsed by Python's own
`ast.parse`, and the resulting call chain `schema.int(h0).min(h1)...` is run through the exact
RAISE / UPDATE tables of the declaration methods (contracts/declaration.py, each proved against its real
body) with each hole standing for the prop value it was printed from.  Obligation: no call of the
chain raises and the final registry view equals the original one -- under the path condition and the
reachable-state invariant Reach_T.

Trusted: Python's parser; eval(repr(x)) == x for the leaf kinds None/bool/int/finite float/str/bytes/
UUID/datetime/date; a member's text (Accept[Representor]) evaluates to that member (induction hypothesis).
"""
from __future__ import annotations

import ast
from typing import Any, Dict, List, Optional, Tuple

import z3

from pyvc import model as M
from pyvc.contracts import contract, invariant, transparent
from pyvc.model import Obj

from . import declaration as D
from . import spec as S
from .custom import rtext

REP = "d42/representation/_representor.py"
RINIT = "d42/representation/__init__.py"
transparent(REP, "Representor.__init__", "Representor.name")

FACADE = {"none": "NoneSchema", "bool": "BoolSchema", "int": "IntSchema", "float": "FloatSchema",
          "str": "StrSchema", "list": "ListSchema", "dict": "DictSchema", "any": "AnySchema",
          "bytes": "BytesSchema", "uuid4": "UUID4Schema", "datetime": "DateTimeSchema", "date": "DateSchema"}


class TemplateError(Exception):
    pass


# pyval(text): the object a Python expression text evaluates to in the DSL namespace (uninterpreted; the only facts
# about it are the ones below, each a statement about Python's grammar / the induction hypothesis)
pyval = z3.Function("pyval", M.S, Obj)


def _lit(p: Any) -> Optional[str]:
    if z3.is_string_value(p):
        return p.as_string().replace("\\u{a}", "\n")
    return None


def is_ws(p: Any) -> bool:
    """a part that is whitespace only: a literal, or ' ' * n"""
    t = _lit(p)
    if t is not None:
        return t.strip(" \n\t") == ""
    if z3.is_app(p) and p.decl().name() == "srep":
        t = _lit(p.arg(0))
        return t is not None and t.strip(" \t") == ""
    return False


def _pyval_axioms(ct) -> List[Any]:
    m, k = z3.Consts("pv_m pv_k", Obj)
    i = z3.Int("pv_i")
    return [pyval(z3.StringVal("...")) == M.EllV,
            # induction hypothesis (trusted, as for typed lists): the text printed for a member evaluates to that member
            z3.ForAll([m, i, k], pyval(rtext(m, i, k)) == m, patterns=[rtext(m, i, k)])]


def _concat_hook(ex, st, z, parts) -> None:
    """whitespace around an expression does not change what it evaluates to (inside brackets; eval() also strips
    leading blanks): a concatenation whose only non-blank part is one printed expression evaluates to that part's value"""
    core = [p for p in parts if not is_ws(p)]
    if not core or len(core) == len(parts):
        return
    if len(core) == 1 and _lit(core[0]) is None:
        st.assume(pyval(z) == pyval(core[0]))
    elif all(_lit(p) is not None for p in core) and "".join(_lit(p) for p in core).strip() == "...":
        st.assume(pyval(z) == M.EllV)


from pyvc.contracts import REG as _REGR  # noqa: E402
_REGR.axiom_fns.append(_pyval_axioms)
if not hasattr(_REGR, "concat_hooks"):
    _REGR.concat_hooks = []
_REGR.concat_hooks.append(_concat_hook)


def flat(z: Any) -> List[Any]:
    if z3.is_app(z) and z.decl().kind() == z3.Z3_OP_SEQ_CONCAT:
        out: List[Any] = []
        for c in z.children():
            out += flat(c)
        return out
    return [z]


def template_of(r: Any, blank: str = " ") -> Tuple[str, Dict[str, Any]]:
    """(python source with placeholders, placeholder -> z3 value term it evaluates to).
    `' ' * n` is rendered as `blank`; `sep.join(texts)` with a separator that is a comma between blanks is rendered
    as the starred placeholder `*__hN__` (a sequence of expressions, one per text, separated by commas)."""
    z = z3.simplify(M.sval(r))
    holes: Dict[str, Any] = {}
    src = ""
    for part in flat(z):
        if z3.is_string_value(part):
            src += _lit(part)
            continue
        name = f"__h{len(holes)}__"
        d = part.decl().name() if z3.is_app(part) else ""
        if d == "repr_s":
            holes[name] = ("value", part.arg(0))
        elif d == "rtext":
            holes[name] = ("member", part.arg(0))
        elif d == "srep" and is_ws(part):
            src += blank
            continue
        elif d == "joined":
            sep = _lit(part.arg(0))
            if sep is None or sep.strip(" \n\t") != ",":
                raise TemplateError(f"join with a separator that is not a comma between blanks: {part.arg(0)}")
            holes[name] = ("seq", part.arg(1))
            src += "*" + name
            continue
        else:
            raise TemplateError(f"text fragment that is neither a literal nor repr(prop): {part}")
        src += name
    return src, holes


def eval_chain(ct, node: ast.expr, holes: Dict[str, Any]):
    """Symbolically evaluate a DSL expression over the declaration tables.
    Returns (cls, view, no_raise_conditions)."""
    if isinstance(node, ast.Attribute) and isinstance(node.value, ast.Name) and node.value.id == "schema":
        cls = FACADE.get(node.attr)
        if cls is None:
            raise TemplateError(f"schema.{node.attr} is not a facade property")
        return cls, {n: M.NilV for n in S.PROP_NAMES[cls]}, []
    if isinstance(node, ast.Call) and isinstance(node.func, ast.Attribute) and isinstance(node.func.value, ast.Name) \
            and node.func.value.id == "schema" and node.func.attr == "any":
        return any_call(ct, node, holes)
    if isinstance(node, ast.Call):
        f = node.func
        args = [arg_value(a, holes) for a in node.args]
        if node.keywords:
            raise TemplateError("keyword arguments in the printed DSL")
        if isinstance(f, ast.Attribute) and isinstance(f.value, ast.Name) and f.value.id == "schema":
            cls, view, conds = eval_chain(ct, f, holes)
            method = "__call__"
        elif isinstance(f, ast.Attribute):
            cls, view, conds = eval_chain(ct, f.value, holes)
            method = f.attr
        else:
            raise TemplateError("call of something that is not a DSL method")
        key = (cls, method)
        if key not in D.SPEC:
            raise TemplateError(f"no declaration table for {cls}.{method}")
        params = D.PARAMS[key]
        if len(args) > len(params):
            raise TemplateError(f"too many arguments for {cls}.{method}")
        a = {p: (args[i] if i < len(args) else M.NilV) for i, p in enumerate(params)}
        rc, upd = D.SPEC[key](ct, view, a)
        view2 = dict(view)
        view2.update(upd)
        return cls, view2, conds + [z3.Not(rc)]
    raise TemplateError(f"unexpected syntax {type(node).__name__} in the printed DSL")


def any_call(ct, node: ast.Call, holes: Dict[str, Any]):
    """`schema.any(*texts)`: the contract of AnySchema.__call__ (contracts/combinators.py, proved against the real body:
    raises exactly when an argument is not a schema -- the receiver `schema.any` has nothing declared --, and keeps the
    arguments as the alternatives, in order, when none of them is itself a declared union), applied to the argument
    sequence the texts evaluate to.  `schema.any()` without arguments is a TypeError."""
    from .combinators import no_declared_any
    if node.keywords or len(node.args) != 1 or not isinstance(node.args[0], ast.Starred) or \
            not isinstance(node.args[0].value, ast.Name) or holes.get(node.args[0].value.id, ("",))[0] != "seq":
        raise TemplateError("schema.any(...) with arguments that are not one joined sequence of member texts")
    L = holes[node.args[0].value.id][1]
    R = M.fresh("anyargs")
    j = z3.Int("aaj")
    LITERAL_FACTS.append(lambda ct, R=R, L=L: z3.And(
        M.is_Ref(R), M.rcls(R) == ct.id("tuple"), M.llen(R) == M.llen(L),
        z3.ForAll([j], z3.Implies(z3.And(0 <= j, j < M.llen(L)), M.lat(R, j) == pyval(M.sval(M.lat(L, j)))),
                  patterns=[M.lat(R, j)])))
    conds = [M.llen(L) >= 1,
             z3.ForAll([j], z3.Implies(z3.And(0 <= j, j < M.llen(R)), S.is_schema(ct, M.lat(R, j))), patterns=[M.lat(R, j)]),
             no_declared_any(ct, R)]
    view = {n: M.NilV for n in S.PROP_NAMES["AnySchema"]}
    view["types"] = R
    return "AnySchema", view, conds


def arg_value(a: ast.expr, holes: Dict[str, Any]) -> Any:
    if isinstance(a, ast.Name) and a.id in holes:
        return holes[a.id][1]
    if isinstance(a, ast.Constant) and a.value is Ellipsis:
        return M.EllV
    if isinstance(a, ast.List) and not a.elts:
        lit = M.fresh("emptylist")                      # the value of the literal []
        LITERAL_FACTS.append(lambda ct, lit=lit: z3.And(M.is_Ref(lit), M.rcls(lit) == ct.id("list"), M.llen(lit) == 0))
        return lit
    if isinstance(a, ast.List) and len(a.elts) == 1 and isinstance(a.elts[0], ast.Starred) and \
            isinstance(a.elts[0].value, ast.Name) and holes.get(a.elts[0].value.id, ("",))[0] == "seq":
        # [ *texts ]: the list display whose items are the printed expressions, in order
        L = holes[a.elts[0].value.id][1]
        lit = M.fresh("listdisplay")
        j = z3.Int("ldj")
        LITERAL_FACTS.append(lambda ct, lit=lit, L=L: z3.And(
            M.is_Ref(lit), M.rcls(lit) == ct.id("list"), M.llen(lit) == M.llen(L),
            z3.ForAll([j], z3.Implies(z3.And(0 <= j, j < M.llen(L)), M.lat(lit, j) == pyval(M.sval(M.lat(L, j)))),
                      patterns=[M.lat(lit, j)])))
        return lit
    raise TemplateError(f"argument {ast.dump(a)} is neither a printed prop nor `...`")


LITERAL_FACTS: List[Any] = []


def rebuilds(ct, cls: str, Sx: Any, r: Any) -> Any:
    """the obligation described in the module docstring, as one z3 formula"""
    del LITERAL_FACTS[:]
    try:
        src, holes = template_of(r)
        tree = ast.parse(src, mode="eval")
        # an indentation of zero blanks must not change the reading
        if ast.dump(ast.parse(template_of(r, blank="")[0], mode="eval")) != ast.dump(tree):
            raise TemplateError("the text reads differently when an indentation is empty")
        cls2, view, conds = eval_chain(ct, tree.body, holes)
    except (TemplateError, SyntaxError) as e:
        b = z3.Bool("template_error: " + str(e)[:160])
        return z3.And(b, z3.Not(b))
    if cls2 != cls:
        return z3.BoolVal(False)
    same = []
    for n in S.PROP_NAMES[cls]:
        if n in ("elements", "types"):      # lists / tuples are compared by content
            a_, b_ = view[n], S.prop(Sx, n)
            islist = z3.Or(M.isinstance_f(ct, b_, "list"), M.isinstance_f(ct, b_, "tuple"))
            ej = z3.Int("sej")
            same.append(z3.If(islist, z3.And(
                a_ != M.NilV, M.llen(a_) == M.llen(b_),
                z3.ForAll([ej], z3.Implies(z3.And(0 <= ej, ej < M.llen(b_)), M.lat(a_, ej) == M.lat(b_, ej)),
                          patterns=[M.lat(b_, ej)])), a_ == b_))
        else:
            same.append(view[n] == S.prop(Sx, n))
    lits = [f(ct) for f in LITERAL_FACTS]
    goal = z3.And(*(conds + same))
    return z3.Implies(z3.And(*lits), goal) if lits else goal


def rep_visit(cls: str):
    def body(c):
        ct = c.ct
        c.built_self("Representor")
        Sx = c.sym("schema", cls)
        ind = c.sym("indent", "int")
        c.kwargs()
        for f in S.reach_def(ct, cls, Sx):
            c.requires(f)
        c.requires(M.is_intlike(ind), "indent-int")
        c.raises(props=("C06",))
        c.returns("str")
        c.ensures("text-rebuilds-the-schema", lambda r, post: rebuilds(ct, cls, Sx, r), ("C06",))
        c.meta = {"cls": cls}
        c.no_merge = True        # every path keeps its own literal template
    return body


for _m, _cls in [("visit_none", "NoneSchema"), ("visit_bool", "BoolSchema"), ("visit_int", "IntSchema"),
                 ("visit_float", "FloatSchema"), ("visit_str", "StrSchema"), ("visit_bytes", "BytesSchema"),
                 ("visit_uuid4", "UUID4Schema"), ("visit_datetime", "DateTimeSchema"), ("visit_date", "DateSchema")]:
    contract(REP, f"Representor.{_m}", props=("C06", "C07"), group="representor")(rep_visit(_cls))


# ----------------------------------------------------------------------------- typed / plain lists (no element list)
def rep_visit_list(c):
    ct = c.ct
    c.built_self("Representor")
    Sx = c.sym("schema", "ListSchema")
    ind = c.sym("indent", "int")
    c.kwargs()
    for f in S.reach_def(ct, "ListSchema", Sx):
        c.requires(f)
    c.requires(M.is_intlike(ind), "indent-int")
    c.raises(props=("C06",))
    c.returns("str")
    c.ensures("text-rebuilds-the-schema", lambda r, post: rebuilds(ct, "ListSchema", Sx, r), ("C06",))
    c.meta = {"cls": "ListSchema"}
    c.no_merge = True


contract(REP, "Representor.visit_list", props=("C06", "C07"), group="representor")(rep_visit_list)


@invariant(REP, "Representor.visit_list", loop=0)
def _inv_rep_list(L):
    """the texts collected so far are, one per element and in order, expressions that evaluate to `...` for an
    ellipsis and to the member otherwise"""
    elems = L.v("elems")
    E = S.prop(L.v("schema"), "elements")
    j = z3.Int("rlj")
    return z3.And(M.is_Ref(elems), M.llen(elems) == L.i,
                  z3.ForAll([j], z3.Implies(z3.And(0 <= j, j < L.i),
                                            z3.And(M.is_StrV(M.lat(elems, j)),
                                                   pyval(M.sval(M.lat(elems, j))) == M.lat(E, j))),
                            patterns=[M.lat(elems, j)]))


# ----------------------------------------------------------------------------- unions
def rep_visit_any(c):
    ct = c.ct
    c.built_self("Representor")
    Sx = c.sym("schema", "AnySchema")
    ind = c.sym("indent", "int")
    c.kwargs()
    for f in S.reach_def(ct, "AnySchema", Sx):
        c.requires(f)
    # domain of C06: schemas built through the declaration DSL -- AnySchema.__call__ (ensures[union], proved) leaves no
    # declared union among the alternatives
    from .combinators import no_declared_any, schemas_tuple
    c.requires(z3.Implies(S.declared(Sx, "types"), z3.And(schemas_tuple(ct, S.prop(Sx, "types")),
                                                          no_declared_any(ct, S.prop(Sx, "types")))), "alternatives-flat")
    c.requires(M.is_intlike(ind), "indent-int")
    c.raises(props=("C06",))
    c.returns("str")
    c.ensures("text-rebuilds-the-schema", lambda r, post: rebuilds(ct, "AnySchema", Sx, r), ("C06",))
    c.meta = {"cls": "AnySchema"}
    c.no_merge = True


contract(REP, "Representor.visit_any", props=("C06", "C07"), group="representor")(rep_visit_any)


# ----------------------------------------------------------------------------- the public entry point
@contract(RINIT, "represent", props=("C06", "C07", "C16"), group="representor")
def _represent_entry(c):
    """represent(schema, **kwargs) (also repr(schema): Schema.__override__('__repr__', represent)) is the member
    dispatch with the module's Representor, indent 0, kwargs handed on unchanged"""
    ct = c.ct
    Sx = c.sym("self")
    kw = c.kwargs()
    c.requires(S.is_schema(ct, Sx), "is-schema")
    c.requires(z3.And(S.wf(Sx), S.reach(Sx)), "wf")
    c.raises(props=("C06",))
    c.returns("str")
    c.ensures("text-of-the-dispatch", lambda r, post: r == M.StrV(rtext(Sx, z3.IntVal(0), kw)), ("C06", "C16"))
