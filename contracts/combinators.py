"""Contracts for the schema combinators (C13): union / AnySchema.__call__ / _flatten_schemas,
DictSchema.__add__ / __getitem__ / keys, SchemaFacade.alias, make_required."""
from __future__ import annotations

from typing import Any, List

import z3

from pyvc import model as M
from pyvc.contracts import contract, invariant, lemma, transparent
from pyvc.model import Obj

from . import spec as S

ANY = "d42/declaration/types/_any_schema.py"
DICT = "d42/declaration/types/_dict_schema.py"
FAC = "d42/declaration/_schema_facade.py"
DECL = "d42/declaration/__init__.py"
MKR = "d42/utils/_make_required.py"

transparent(FAC, "SchemaFacade.any", "SchemaFacade.dict", "SchemaFacade.int",
            "SchemaFacade.str", "SchemaFacade.list", "SchemaFacade.none", "SchemaFacade.bool",
            "SchemaFacade.float", "SchemaFacade.bytes", "SchemaFacade.uuid4", "SchemaFacade.datetime",
            "SchemaFacade.date")


def schemas_tuple(ct, t: Any) -> Any:
    """a tuple/list whose items are reachable schemas"""
    j = z3.Int("sj")
    return z3.ForAll([j], z3.Implies(z3.And(0 <= j, j < M.llen(t)),
                                     z3.And(S.is_schema(ct, M.lat(t, j)), S.wf(M.lat(t, j)), S.reach(M.lat(t, j)))),
                     patterns=[M.lat(t, j)])


def covers(A: Any, na: Any, B: Any, nb: Any) -> Any:
    """whatever one of the first na alternatives of A accepts, one of the first nb of B accepts
    (element-wise form: it triggers on conforms(A[k], v))"""
    k = z3.Int("ck")
    v = z3.Const("cv", Obj)
    return z3.ForAll([k, v], z3.Implies(z3.And(0 <= k, k < na, M.conforms(M.lat(A, k), v)), M.anyok(B, nb, v)),
                     patterns=[M.conforms(M.lat(A, k), v)])


def same_union(R: Any, T_: Any, nr: Any = None, nt: Any = None) -> Any:
    """the alternatives R accept exactly what the alternatives T_ accept"""
    nr = M.llen(R) if nr is None else nr
    nt = M.llen(T_) if nt is None else nt
    return z3.And(covers(R, nr, T_, nt), covers(T_, nt, R, nr))


def no_declared_any(ct, R: Any, n: Any = None) -> Any:
    j = z3.Int("nj")
    return z3.ForAll([j], z3.Implies(z3.And(0 <= j, j < (M.llen(R) if n is None else n)),
                                     z3.Not(z3.And(M.isinstance_f(ct, M.lat(R, j), "AnySchema"),
                                                   S.declared(M.lat(R, j), "types")))),
                     patterns=[M.lat(R, j)])


def same_items(A: Any, B: Any, n: Any) -> Any:
    """the first n items of A are those of B, in order"""
    j = z3.Int("sij")
    return z3.ForAll([j], z3.Implies(z3.And(0 <= j, j < n), M.lat(A, j) == M.lat(B, j)), patterns=[M.lat(A, j)])


@contract(ANY, "AnySchema._flatten_schemas", props=("C13", "C10", "C07", "C17", "C06", "C01"), group="combinators")
def _flatten(c):
    c.reproducible()      # C17: the schema built does not depend on the interpreter's hash seed
    ct = c.ct
    c.sym("self", "AnySchema")
    t = c.sym("schemas", "tuple")
    c.requires(M.isinstance_f(ct, t, "tuple"), "tuple")
    c.requires(schemas_tuple(ct, t), "schemas")
    c.raises()
    c.returns("tuple")
    c.ensures("shape", lambda r, post: z3.And(M.isinstance_f(ct, r, "tuple"), schemas_tuple(ct, r),
                                              (M.llen(r) == 0) == (M.llen(t) == 0) if False else z3.BoolVal(True)))
    c.ensures("schemas", lambda r, post: schemas_tuple(ct, r))
    c.ensures("same-union", lambda r, post: same_union(r, t), ("C13",))
    c.ensures("flat", lambda r, post: no_declared_any(ct, r), ("C13",))
    c.ensures("non-empty", lambda r, post: z3.Implies(M.llen(t) > 0, M.llen(r) > 0), ("C13", "C12"))
    # nothing to flatten: the alternatives are kept as they are, in order (what repr / eval round-trips rely on, C06)
    c.ensures("identity-when-flat", lambda r, post: z3.Implies(
        no_declared_any(ct, t), z3.And(M.llen(r) == M.llen(t), same_items(r, t, M.llen(t)))), ("C06", "C13"))


@invariant(ANY, "AnySchema._flatten_schemas", loop=0)
def _inv_flatten(L):
    ct = L.ct
    fl, t = L.v("flattened"), L.v("schemas")
    v = z3.Const("iv", Obj)
    return z3.And(M.is_Ref(fl), M.rcls(fl) == ct.id("list"), schemas_tuple(ct, fl), no_declared_any(ct, fl),
                  z3.Implies(L.i > 0, M.llen(fl) > 0),
                  same_union(fl, t, M.llen(fl), L.i),
                  z3.Implies(no_declared_any(ct, t, L.i), z3.And(M.llen(fl) == L.i, same_items(fl, t, L.i))))


def _any_unfold_axioms(ct) -> List[Any]:
    """Definition of wf / reach / conforms for objects of class AnySchema (the class whose members
    _flatten_schemas looks into)."""
    m = z3.Const("am", Obj)
    return [z3.ForAll([m], z3.Implies(z3.And(M.is_Ref(m), M.rcls(m) == ct.id("AnySchema")),
                                      S.unfold_defs(ct, "AnySchema", m)),
                      patterns=[M.attr("_props")(m)])]


from pyvc.contracts import REG as _REG  # noqa: E402
_REG.axiom_fns.append(_any_unfold_axioms)


# ----------------------------------------------------------------------------- AnySchema.__call__ / union
@contract(ANY, "AnySchema.__call__", props=("C13", "C10", "C07", "C17", "C06", "C01"), group="combinators")
def _any_call(c):
    c.reproducible()      # C17: the schema built does not depend on the interpreter's hash seed
    ct = c.ct
    Sx = c.sym("self", "AnySchema")
    t0 = c.sym("type_")
    ts = c.sym("types", "tuple")
    for f in S.reach_def(ct, "AnySchema", Sx):
        c.requires(f)
    c.requires(M.isinstance_f(ct, ts, "tuple"), "varargs-tuple")
    j = z3.Int("aj")
    ok = lambda x: z3.Implies(S.is_schema(ct, x), z3.And(S.wf(x), S.reach(x)))
    c.requires(z3.And(ok(t0), z3.ForAll([j], z3.Implies(z3.And(0 <= j, j < M.llen(ts)), ok(M.lat(ts, j))),
                                        patterns=[M.lat(ts, j)])), "arg-schemas-reachable")
    all_schemas = z3.And(S.is_schema(ct, t0),
                         z3.ForAll([j], z3.Implies(z3.And(0 <= j, j < M.llen(ts)), S.is_schema(ct, M.lat(ts, j))),
                                   patterns=[M.lat(ts, j)]))
    c.raises("DeclarationError", props=("C10", "C13"))
    c.raises_when("DeclarationError", z3.Or(z3.Not(all_schemas), S.declared(Sx, "types")))
    c.returns("AnySchema")
    v = z3.Const("cv2", Obj)

    def union_ok(r, post):
        R = S.prop(r, "types")
        return z3.And(
            *S.shape(ct, r, "AnySchema"), S.declared(r, "types"), M.isinstance_f(ct, R, "tuple"),
            schemas_tuple(ct, R), no_declared_any(ct, R), M.llen(R) > 0,
            z3.ForAll([v], M.anyok(R, M.llen(R), v) ==
                      z3.Or(M.conforms(t0, v), M.anyok(ts, M.llen(ts), v)),
                      patterns=[M.anyok(R, M.llen(R), v)]))
    c.ensures("union", union_ok, ("C13", "C06"))

    def kept_when_flat(r, post):
        # no argument is itself a declared union: the alternatives are the arguments, in order (C06 relies on it)
        R = S.prop(r, "types")
        dany = lambda x: z3.And(M.isinstance_f(ct, x, "AnySchema"), S.declared(x, "types"))
        jj = z3.Int("kfj")
        return z3.Implies(z3.And(z3.Not(dany(t0)), no_declared_any(ct, ts)),
                          z3.And(M.llen(R) == 1 + M.llen(ts), M.lat(R, 0) == t0,
                                 z3.ForAll([jj], z3.Implies(z3.And(0 <= jj, jj < M.llen(ts)), M.lat(R, jj + 1) == M.lat(ts, jj)),
                                           patterns=[M.lat(ts, jj)])))
    c.ensures("alternatives-kept-when-flat", kept_when_flat, ("C06", "C13"))
    c.ensures("invariant", lambda r, post: z3.And(*S.reach_def(ct, "AnySchema", r)), ("C10", "C06", "C01"))
    c.ensures("unfold", lambda r, post: S.unfold_defs(ct, "AnySchema", r), ("C13",))


@invariant(ANY, "AnySchema.__call__", loop=0)
def _inv_any_call(L):
    ct = L.ct
    t = L.v("types_")
    j = z3.Int("ij")
    return z3.ForAll([j], z3.Implies(z3.And(0 <= j, j < L.i), S.is_schema(ct, M.lat(t, j))), patterns=[M.lat(t, j)])


@contract(DECL, "union", props=("C13", "C17", "C06", "C01"), group="combinators")
def _union(c):
    c.reproducible()      # C17: the schema built does not depend on the interpreter's hash seed
    ct = c.ct
    a = c.sym("self")
    b = c.sym("other")
    c.requires(z3.And(S.is_schema(ct, a), S.wf(a), S.reach(a)), "self-schema")
    c.requires(z3.Implies(S.is_schema(ct, b), z3.And(S.wf(b), S.reach(b))), "other-reachable")
    c.raises("DeclarationError", props=("C13",))
    c.raises_when("DeclarationError", z3.Not(S.is_schema(ct, b)))
    c.returns("AnySchema")
    v = z3.Const("uv3", Obj)
    c.ensures("accepts-the-union", lambda r, post: z3.ForAll(
        [v], S.conforms(r, v) == z3.Or(S.conforms(a, v), S.conforms(b, v)), patterns=[S.conforms(r, v)]), ("C13",))
    c.ensures("is-schema", lambda r, post: z3.And(S.is_schema(ct, r), S.wf(r), S.reach(r)), ("C13", "C06", "C01"))
    # the alternatives are flat (no alternative is itself a declared union): what Representor.visit_any assumes of every
    # union it prints -- AnySchema.__call__ establishes it, every other producer has to keep it
    c.ensures("alternatives-flat", lambda r, post: no_declared_any(ct, S.prop(r, "types")), ("C06", "C13"))


# ----------------------------------------------------------------------------- alias
@contract(FAC, "SchemaFacade.alias", props=("C13", "C17"), group="combinators")
def _alias(c):
    c.reproducible()      # C17: the schema built does not depend on the interpreter's hash seed
    ct = c.ct
    c.declare("self", "SchemaFacade")
    n, t = c.sym("name"), c.sym("type_")
    c.requires(z3.And(S.is_schema(ct, t), S.wf(t), S.reach(t)), "target-schema")
    c.requires(M.is_StrV(n), "name-is-a-str")      # type invariant of the input (alias(name: str, ...)); stored as given
    c.raises()
    c.returns("TypeAliasSchema")
    v = z3.Const("av3", Obj)
    c.ensures("accepts-what-the-target-accepts", lambda r, post: z3.ForAll(
        [v], S.conforms(r, v) == S.conforms(t, v), patterns=[S.conforms(r, v)]), ("C13",))
    c.ensures("is-schema", lambda r, post: z3.And(S.is_schema(ct, r), S.wf(r), S.reach(r)), ("C13",))


# ----------------------------------------------------------------------------- DictSchema.__add__ / __getitem__ / keys
def keys_or_empty(Sx: Any):
    """(has, get) of `self.props.keys if declared else {}`"""
    K = S.prop(Sx, "keys")
    d = S.declared(Sx, "keys")
    return (lambda x: z3.And(d, M.has(K, x))), (lambda x: M.dget(K, x))


@contract(DICT, "DictSchema.__add__", props=("C13", "C07", "C17"), group="combinators")
def _dict_add(c):
    c.reproducible()      # C17: the schema built does not depend on the interpreter's hash seed
    ct = c.ct
    a = c.sym("self", "DictSchema")
    b = c.sym("other")
    for f in S.reach_def(ct, "DictSchema", a):
        c.requires(f)
    c.requires(z3.Implies(M.isinstance_f(ct, b, "DictSchema"), z3.And(*S.reach_def(ct, "DictSchema", b))),
               "other-reachable")
    c.raises("TypeError", props=("C13",))
    c.raises_when("TypeError", z3.Not(M.isinstance_f(ct, b, "DictSchema")))
    c.returns("DictSchema")
    ha, ga = keys_or_empty(a)
    hb, gb = keys_or_empty(b)
    x = z3.Const("mx", Obj)

    def merged(r, post):
        K = S.prop(r, "keys")
        return z3.And(*S.shape(ct, r, "DictSchema"), S.declared(r, "keys"), M.isinstance_f(ct, K, "dict"),
                      z3.ForAll([x], M.has(K, x) == z3.Or(ha(x), hb(x)), patterns=[M.has(K, x)]),
                      z3.ForAll([x], z3.Implies(M.has(K, x), M.dget(K, x) == z3.If(hb(x), gb(x), ga(x))),
                                patterns=[M.dget(K, x)]))
    c.ensures("right-biased-merge", merged, ("C13",))
    c.ensures("invariant", lambda r, post: z3.And(*S.reach_def(ct, "DictSchema", r)), ("C13", "C10"))
    c.ensures("unfold", lambda r, post: S.unfold_defs(ct, "DictSchema", r), ("C13",))


@contract(DICT, "DictSchema.__getitem__", props=("C13",), group="combinators")
def _dict_getitem(c):
    ct = c.ct
    a = c.sym("self", "DictSchema")
    k = c.sym("key")
    for f in S.reach_def(ct, "DictSchema", a):
        c.requires(f)
    K = S.prop(a, "keys")
    missing = z3.Or(z3.Not(S.declared(a, "keys")), z3.Not(M.has(K, k)), k == M.EllV)
    c.raises("KeyError", props=("C13",))
    c.raises_when("KeyError", missing)
    c.ensures("declared-member", lambda r, post: r == M.lat(M.dget(K, k), 0), ("C13",))


@contract(DICT, "DictSchema.keys", props=("C13",), group="combinators")
def _dict_keys(c):
    ct = c.ct
    a = c.sym("self", "DictSchema")
    for f in S.reach_def(ct, "DictSchema", a):
        c.requires(f)
    c.raises()
    c.returns("set")
    K = S.prop(a, "keys")
    x = z3.Const("kx", Obj)
    j = z3.Int("kj")
    c.ensures("declared-keys", lambda r, post: z3.And(
        M.is_Ref(r), M.rcls(r) == ct.id("set"),
        z3.ForAll([x], M.has(r, x) == z3.And(S.declared(a, "keys"), M.has(K, x)), patterns=[M.has(r, x)]),
        z3.Implies(S.declared(a, "keys"), z3.And(M.klen(r) == M.klen(K),
                                                 z3.ForAll([j], M.kat(r, j) == M.kat(K, j), patterns=[M.kat(r, j)]))),
        z3.Implies(z3.Not(S.declared(a, "keys")), M.klen(r) == 0)), ("C13",))


# ----------------------------------------------------------------------------- make_required
def member_of(ct, keys: Any, k: Any) -> Any:
    """k in keys  for keys a set / list / tuple"""
    j = z3.Int("mj")
    isset = M.isinstance_f(ct, keys, "set")
    return z3.If(isset, M.has(keys, k),
                 z3.Exists([j], z3.And(0 <= j, j < M.llen(keys), M.py_eq(M.lat(keys, j), k)), patterns=[M.lat(keys, j)]))


@contract(MKR, "make_required", props=("C13", "C07", "C17"), group="combinators")
def _make_required(c):
    c.reproducible()      # C17: the schema built does not depend on the interpreter's hash seed
    ct = c.ct
    d = c.sym("schema", "DictSchema")    # dispatch hint only: the body checks isinstance first
    ks = c.sym("keys")
    isdict = M.isinstance_f(ct, d, "DictSchema")
    c.requires(z3.Implies(isdict, z3.And(*S.reach_def(ct, "DictSchema", d))), "schema-reachable")
    kinds_ok = z3.Or(M.isinstance_f(ct, ks, "set"), M.isinstance_f(ct, ks, "list"), M.isinstance_f(ct, ks, "tuple"),
                     M.is_NoneV(ks))
    K = S.prop(d, "keys")
    hasK = lambda x: z3.And(S.declared(d, "keys"), M.has(K, x))
    x = z3.Const("rx2", Obj)
    j = z3.Int("rj2")
    listed = lambda k: z3.If(M.is_NoneV(ks), hasK(k), member_of(ct, ks, k))
    unknown_key = z3.If(M.is_NoneV(ks), False,
                        z3.If(M.isinstance_f(ct, ks, "set"),
                              z3.Exists([x], z3.And(M.has(ks, x), z3.Not(hasK(x)))),
                              z3.Exists([j], z3.And(0 <= j, j < M.llen(ks), z3.Not(hasK(M.lat(ks, j)))))))
    c.raises("DeclarationError", props=("C13",))
    c.raises_when("DeclarationError", z3.Or(z3.Not(isdict), z3.Not(kinds_ok), unknown_key))
    c.returns("DictSchema")

    def post(r, post_):
        K2 = S.prop(r, "keys")
        pair, pair2 = M.dget(K, x), M.dget(K2, x)
        return z3.If(z3.Not(S.declared(d, "keys")), r == d, z3.And(
            *S.shape(ct, r, "DictSchema"), S.declared(r, "keys"), M.isinstance_f(ct, K2, "dict"),
            z3.ForAll([x], M.has(K2, x) == M.has(K, x), patterns=[M.has(K2, x), M.has(K, x)]),
            z3.ForAll([x], z3.Implies(M.has(K, x), z3.And(
                M.is_Ref(pair2), M.rcls(pair2) == ct.id("tuple"), M.llen(pair2) == 2,
                M.lat(pair2, 0) == M.lat(pair, 0),
                M.lat(pair2, 1) == z3.If(listed(x), M.mk_bool(False), M.lat(pair, 1)))),
                patterns=[M.dget(K2, x)])))
    c.ensures("same-keys-listed-required", post, ("C13",))


@invariant(MKR, "make_required", loop=0)
def _inv_mkreq_check(L):
    """L31: every listed key seen so far is a declared key"""
    ct = L.ct
    pk = L.v("props_keys")
    dom = L.ex.loop_domain
    j = z3.Int("ij")
    ks = L.v("keys")
    if getattr(dom, "elem_term", None) is not None:
        # iterating a set: membership form (positions are those of the set's iteration order)
        x = z3.Const("ix", Obj)
        hs = L.ex.hashseed
        return z3.ForAll([x], z3.Implies(z3.And(M.has(ks, x), M.setidx(hs, ks, x) < L.i), M.has(pk, x)),
                         patterns=[M.has(ks, x)])
    return z3.ForAll([j], z3.Implies(z3.And(0 <= j, j < L.i), M.has(pk, M.lat(ks, j))), patterns=[M.lat(ks, j)])


@invariant(MKR, "make_required", loop=1)
def _inv_mkreq_build(L):
    """L32: updated_keys holds the declared keys seen so far, same member, optional flag cleared iff listed"""
    ct = L.ct
    pk, up, ks = L.v("props_keys"), L.v("updated_keys"), L.v("keys")
    x = z3.Const("bx", Obj)
    j = z3.Int("bj")
    pair, pair2 = M.dget(pk, x), M.dget(up, x)
    return z3.And(
        M.is_Ref(up), M.rcls(up) == ct.id("dict"),
        # ... in the same order (C17: the key order of the result is that of the declared keys)
        M.klen(up) == L.i,
        z3.ForAll([j], z3.Implies(z3.And(0 <= j, j < L.i), M.kat(up, j) == M.kat(pk, j)), patterns=[M.kat(up, j)]),
        z3.ForAll([x], M.has(up, x) == z3.And(M.has(pk, x), M.kidx(pk, x) < L.i), patterns=[M.has(up, x)]),
        z3.ForAll([x], z3.Implies(M.has(up, x), z3.And(
            M.is_Ref(pair2), M.rcls(pair2) == ct.id("tuple"), M.llen(pair2) == 2,
            M.lat(pair2, 0) == M.lat(pair, 0),
            M.lat(pair2, 1) == z3.If(member_of(ct, ks, x), M.mk_bool(False), M.lat(pair, 1)))),
            patterns=[M.dget(up, x)]))


# ----------------------------------------------------------------------------- C13 lemmas over the contracts
@lemma("C13.meaning", props=("C13",))
def _c13(lc):
    ct = lc.ct
    # make_required: from its exact post (same key set and members, optional flag cleared iff listed) and the
    # definition of conforms for dict schemas: R accepts exactly what d accepts with the listed keys present
    d, R, ks, v = z3.Consts("d R ks v", Obj)
    x = z3.Const("lx", Obj)
    K, K2 = S.prop(d, "keys"), S.prop(R, "keys")
    pair, pair2 = M.dget(K, x), M.dget(K2, x)
    listed = lambda k: z3.If(M.is_NoneV(ks), M.has(K, k), member_of(ct, ks, k))
    hyp = list(S.reach_def(ct, "DictSchema", d)) + [
        S.declared(d, "keys"),
        *S.shape(ct, R, "DictSchema"), S.declared(R, "keys"), M.isinstance_f(ct, K2, "dict"),
        z3.ForAll([x], M.has(K2, x) == M.has(K, x), patterns=[M.has(K2, x), M.has(K, x)]),
        z3.ForAll([x], z3.Implies(M.has(K, x), z3.And(
            M.is_Ref(pair2), M.rcls(pair2) == ct.id("tuple"), M.llen(pair2) == 2,
            M.lat(pair2, 0) == M.lat(pair, 0),
            M.lat(pair2, 1) == z3.If(listed(x), M.mk_bool(False), M.lat(pair, 1)))),
            patterns=[M.dget(K2, x)])]
    present = z3.ForAll([x], z3.Implies(z3.And(M.has(K, x), x != M.EllV, listed(x)), M.has(v, x)),
                        patterns=[M.has(K, x)])
    lc.oblige("make_required:exactly-d-with-listed-keys-present", hyp,
              S.dict_conforms(ct, R, v) == z3.And(S.dict_conforms(ct, d, v), present),
              {"schema": d, "keys": ks, "value": v}, {"kind": "make_required"},
              text="make_required(d, keys) accepts exactly the values d accepts in which the listed keys are present")
    # d1 + d2: relaxed iff either operand is; a key of d2 overrides d1's
    a, b, r = z3.Consts("a b r", Obj)
    Ka, Kb, Kr = S.prop(a, "keys"), S.prop(b, "keys"), S.prop(r, "keys")
    ha = lambda t: z3.And(S.declared(a, "keys"), M.has(Ka, t))
    hb = lambda t: z3.And(S.declared(b, "keys"), M.has(Kb, t))
    hyp2 = [z3.ForAll([x], M.has(Kr, x) == z3.Or(ha(x), hb(x)), patterns=[M.has(Kr, x)]),
            z3.ForAll([x], z3.Implies(M.has(Kr, x), M.dget(Kr, x) == z3.If(hb(x), M.dget(Kb, x), M.dget(Ka, x))),
                      patterns=[M.dget(Kr, x)])]
    lc.oblige("add:relaxed-iff-either", hyp2, M.has(Kr, M.EllV) == z3.Or(ha(M.EllV), hb(M.EllV)),
              {"self": a, "other": b}, {"kind": "add"}, text="d1 + d2 is relaxed iff d1 or d2 is")
    lc.oblige("add:right-operand-overrides", hyp2 + [hb(x)], z3.And(M.has(Kr, x), M.dget(Kr, x) == M.dget(Kb, x)),
              {"self": a, "other": b}, {"kind": "add"}, text="a key of d2 carries d2's member and optionality")
    lc.oblige("add:left-operand-kept", hyp2 + [ha(x), z3.Not(hb(x))],
              z3.And(M.has(Kr, x), M.dget(Kr, x) == M.dget(Ka, x)),
              {"self": a, "other": b}, {"kind": "add"}, text="a key only in d1 keeps d1's member and optionality")
