"""Specification library (DESIGN §3): the oracles, written from the property statements.

`conforms(S, v)` is an uninterpreted relation; `conforms_def(cls, S, v)` is its definition for a
schema of class `cls`, expressed over the schema's registry and -- for members -- over `conforms`
itself.  Proofs unfold the definition for the schema at hand (structural induction over the finite
schema tree: members only ever appear under `conforms`, whose meaning is supplied by the callee's
contract).
"""
from __future__ import annotations

from typing import Any, Callable, Dict, List, Optional

import z3

from pyvc import model as M
from pyvc.model import Obj

conforms = M.conforms                                    # C02: value conforms to schema
sub_ok = z3.Function("sub_ok", Obj, Obj, M.B)            # partial conformance (SubstitutorValidator)
wf = z3.Function("wf", Obj, M.B)                         # schema is well-formed (C10 invariant)
satisfiable = z3.Function("satisfiable", Obj, M.B)       # exists w. conforms(S, w)
reach = z3.Function("reach", Obj, M.B)                   # S is a DSL-reachable state (class invariant, C10)
custom_ok = z3.Function("custom_ok", Obj, Obj, M.B)

CT: Any = None      # the class table of the run (set by pyvc.cli.load_all / the test drivers)


def S_(s: str) -> Any:
    return M.mk_str(s)


def props_of(S: Any) -> Any:
    return M.attr("_props")(S)


def reg_of(S: Any) -> Any:
    return M.attr("_registry")(props_of(S))


def prop(S: Any, name: str) -> Any:
    """`schema.props.<name>`: Props.get(name) -> registry.get(name, Nil)."""
    return M.propf(S, S_(name))


def declared(S: Any, name: str) -> Any:
    return prop(S, name) != M.NilV


PROPS_CLASS = {
    "NoneSchema": "NoneProps", "BoolSchema": "BoolProps", "IntSchema": "IntProps",
    "FloatSchema": "FloatProps", "StrSchema": "StrProps", "ListSchema": "ListProps",
    "DictSchema": "DictProps", "AnySchema": "AnyProps", "BytesSchema": "BytesProps",
    "UUID4Schema": "UUID4Props", "DateTimeSchema": "DateTimeProps", "DateSchema": "DateProps",
    "TypeAliasSchema": "TypeAliasProps",
}

PROP_NAMES = {
    "NoneSchema": [], "BoolSchema": ["value"], "IntSchema": ["value", "min", "max"],
    "FloatSchema": ["value", "min", "max", "precision"],
    "StrSchema": ["value", "len", "min_len", "max_len", "alphabet", "substr", "pattern"],
    "ListSchema": ["elements", "type", "len", "min_len", "max_len"],
    "DictSchema": ["keys"], "AnySchema": ["types"], "BytesSchema": ["value"],
    "UUID4Schema": ["value"], "DateTimeSchema": ["value"], "DateSchema": ["value"],
    "TypeAliasSchema": ["name", "type"],
}

VALUE_TYPE = {
    "NoneSchema": "NoneType", "BoolSchema": "bool", "IntSchema": "int", "FloatSchema": "float",
    "StrSchema": "str", "ListSchema": "list", "DictSchema": "dict", "BytesSchema": "bytes",
    "UUID4Schema": "UUID", "DateTimeSchema": "datetime", "DateSchema": "date",
}


def shape(ct, S: Any, cls: str, props_cls: Optional[str] = None) -> List[Any]:
    """Object shape of a schema instance: Schema.__init__ stores a Props object whose registry is a
    dict with string keys."""
    pc = props_cls or PROPS_CLASS[cls]
    p, r = props_of(S), reg_of(S)
    return [M.is_Ref(S), M.rcls(S) == ct.id(cls),
            M.is_Ref(p), M.rcls(p) == ct.id(pc),
            M.is_Ref(r), M.rcls(r) == ct.id("dict")]


def float_range(x: Any) -> Any:
    """representation invariant of the float model: a finite float lies within +-DBL_MAX"""
    return z3.Or(z3.Not(M.is_FloatV(x)), z3.And(M.fval(x) <= M.DBL_MAX, M.fval(x) >= -M.DBL_MAX))


def deep_range(x: Any) -> Any:
    """the same for every float reachable from x (list items, dict values, schema props): the predicate
    model.inp, closed under those accessors by axioms"""
    return M.inp(x)


def nil_or(x: Any, pred: Any) -> Any:
    return z3.Or(x == M.NilV, pred)


def is_schema(ct, x: Any) -> Any:
    return M.isinstance_f(ct, x, "Schema")


def wf_def(ct, cls: str, S: Any) -> List[Any]:
    """Kinds of the declared props (what the declaration methods establish; C10 proves it)."""
    f: List[Any] = shape(ct, S, cls)
    P = lambda n: prop(S, n)
    if cls == "BoolSchema":
        f.append(nil_or(P("value"), M.is_BoolV(P("value"))))
    elif cls == "IntSchema":
        for n in ("value", "min", "max"):
            f.append(nil_or(P(n), M.is_intlike(P(n))))
    elif cls == "FloatSchema":
        for n in ("value", "min", "max"):
            f.append(nil_or(P(n), M.is_floatk(P(n))))
            f.append(float_range(P(n)))
        pr = P("precision")
        f.append(nil_or(pr, z3.And(M.is_intlike(pr), 1 <= M.int_of(pr), M.int_of(pr) <= 15)))
    elif cls == "StrSchema":
        for n in ("value", "alphabet", "substr", "pattern"):
            f.append(nil_or(P(n), M.is_StrV(P(n))))
        for n in ("len", "min_len", "max_len"):
            f.append(nil_or(P(n), M.is_intlike(P(n))))
        f.append(nil_or(P("pattern"), M.re_ok(M.sval(P("pattern")))))
    elif cls == "BytesSchema":
        f.append(nil_or(P("value"), M.is_BytesV(P("value"))))
    elif cls in ("UUID4Schema", "DateTimeSchema", "DateSchema"):
        f.append(nil_or(P("value"), M.isinstance_f(ct, P("value"), VALUE_TYPE[cls])))
    elif cls == "ListSchema":
        for n in ("len", "min_len", "max_len"):
            f.append(nil_or(P(n), M.is_intlike(P(n))))
        t = P("type")
        f.append(nil_or(t, z3.And(is_schema(ct, t), wf(t))))
        e = P("elements")
        j = z3.Int("j")
        f.append(nil_or(e, z3.And(
            M.isinstance_f(ct, e, "list"),
            z3.ForAll([j], z3.Implies(z3.And(0 <= j, j < M.llen(e)),
                                      z3.Or(z3.And(M.lat(e, j) == M.EllV,
                                                   z3.Or(j == 0, j == M.llen(e) - 1)),
                                            z3.And(is_schema(ct, M.lat(e, j)), wf(M.lat(e, j))))),
                      patterns=[M.lat(e, j)]),
            z3.Not(z3.And(M.llen(e) == 2, M.lat(e, 0) == M.EllV, M.lat(e, 1) == M.EllV)))))
        f.append(z3.Or(t == M.NilV, e == M.NilV))
    elif cls == "DictSchema":
        k = P("keys")
        x = z3.Const("x", Obj)
        pair = M.dget(k, x)
        f.append(nil_or(k, z3.And(
            M.isinstance_f(ct, k, "dict"),
            z3.ForAll([x], z3.Implies(M.has(k, x), z3.And(
                M.is_Ref(pair), M.rcls(pair) == ct.id("tuple"), M.llen(pair) == 2,
                M.is_BoolV(M.lat(pair, 1)),
                z3.If(x == M.EllV,
                      z3.And(M.lat(pair, 0) == M.EllV, M.lat(pair, 1) == M.mk_bool(False)),
                      z3.And(is_schema(ct, M.lat(pair, 0)), wf(M.lat(pair, 0)))))),
                patterns=[M.has(k, x)]))))
    elif cls == "AnySchema":
        t = P("types")
        j = z3.Int("j")
        f.append(nil_or(t, z3.And(
            M.isinstance_f(ct, t, "tuple"),
            z3.ForAll([j], z3.Implies(z3.And(0 <= j, j < M.llen(t)),
                                      z3.And(is_schema(ct, M.lat(t, j)), wf(M.lat(t, j)))),
                      patterns=[M.lat(t, j)]))))
    elif cls == "TypeAliasSchema":
        # SchemaFacade.alias always stores `type`; a stored non-schema (it is not checked) is outside wf
        r = reg_of(S)
        t = M.dget(r, S_("type"))
        f.append(z3.Implies(M.has(r, S_("type")), z3.And(is_schema(ct, t), wf(t))))
    return f


# ----------------------------------------------------------------------------- conforms
def feq(a: Any, b: Any, precision: Any) -> Any:
    """Float equality under the declared precision (C02: `equals its fixed value`): without a
    precision the documented tolerance (isclose); with precision p, equality after rounding to p
    decimals -- where a scaled operand leaves the float range (or is not finite) rounding to p
    decimals is the identity, so plain equality."""
    sc = z3.ToReal(M.pow10(M.int_of(precision)))
    inrange = lambda x: z3.And(M.is_finite(x), M.real_of(x) * sc <= M.DBL_MAX, M.real_of(x) * sc >= -M.DBL_MAX)
    exact = z3.If(z3.And(inrange(a), inrange(b)),
                  M.rnd(M.real_of(a) * sc) == M.rnd(M.real_of(b) * sc),
                  M.num_eq(a, b))
    return z3.If(precision == M.NilV, M.isclose_f(a, b), exact)


def in_alphabet(v: Any, alphabet: Any) -> Any:
    """every character of string v occurs in string alphabet (model.all_in, defined by two axioms)"""
    return M.all_in(v, alphabet)


def conforms_def(ct, cls: str, S: Any, v: Any) -> Any:
    P = lambda n: prop(S, n)
    D = lambda n: declared(S, n)
    if cls == "NoneSchema":
        return M.is_NoneV(v)
    if cls in ("BoolSchema", "BytesSchema", "DateTimeSchema", "DateSchema"):
        return z3.And(M.isinstance_f(ct, v, VALUE_TYPE[cls]),
                      z3.Implies(D("value"), M.py_eq(v, P("value"))))
    if cls == "UUID4Schema":
        return z3.And(M.isinstance_f(ct, v, "UUID"), M.py_eq(M.attr("version")(v), M.mk_int(4)),
                      z3.Implies(D("value"), M.py_eq(v, P("value"))))
    if cls == "IntSchema":
        return z3.And(M.is_intlike(v),
                      z3.Implies(D("value"), M.py_eq(v, P("value"))),
                      z3.Implies(D("min"), M.num_le(P("min"), v)),
                      z3.Implies(D("max"), M.num_le(v, P("max"))))
    if cls == "FloatSchema":
        return z3.And(M.is_floatk(v),
                      z3.Implies(D("value"), feq(v, P("value"), P("precision"))),
                      z3.Implies(D("min"), M.num_le(P("min"), v)),
                      z3.Implies(D("max"), M.num_le(v, P("max"))))
    if cls == "StrSchema":
        s = M.sval(v)
        n = z3.Length(s)
        return z3.And(M.is_StrV(v),
                      z3.Implies(D("value"), s == M.sval(P("value"))),
                      z3.Implies(D("pattern"), M.re_search(M.sval(P("pattern")), s)),
                      z3.Implies(D("len"), n == M.int_of(P("len"))),
                      z3.Implies(D("min_len"), n >= M.int_of(P("min_len"))),
                      z3.Implies(D("max_len"), n <= M.int_of(P("max_len"))),
                      z3.Implies(D("substr"), z3.Contains(s, M.sval(P("substr")))),
                      z3.Implies(D("alphabet"), in_alphabet(s, M.sval(P("alphabet")))))
    if cls == "AnySchema":
        t = P("types")
        j = z3.Int("cj")
        return z3.Implies(D("types"), M.anyok(t, M.llen(t), v))
    if cls == "TypeAliasSchema":
        r = reg_of(S)
        return z3.Implies(M.has(r, S_("type")), conforms(M.dget(r, S_("type")), v))
    if cls == "ListSchema":
        return list_conforms(ct, S, v)
    if cls == "DictSchema":
        return dict_conforms(ct, S, v)
    raise KeyError(cls)


def list_len_ok(S: Any, n: Any) -> Any:
    P = lambda nm: prop(S, nm)
    D = lambda nm: declared(S, nm)
    return z3.And(z3.Implies(D("len"), n == M.int_of(P("len"))),
                  z3.Implies(D("min_len"), n >= M.int_of(P("min_len"))),
                  z3.Implies(D("max_len"), n <= M.int_of(P("max_len"))))


def window_ok(E: Any, eoff: Any, k: Any, v: Any, voff: Any) -> Any:
    """forall j<k. conforms(E[eoff+j], v[voff+j])   (model.winok, defined by two axioms)"""
    as_int = lambda t: z3.IntVal(t) if isinstance(t, int) else t
    return M.winok(E, as_int(eoff), as_int(k), v, as_int(voff))


def list_conforms(ct, S: Any, v: Any) -> Any:
    P = lambda nm: prop(S, nm)
    D = lambda nm: declared(S, nm)
    n = M.llen(v)
    E = P("elements")
    t = P("type")
    m = M.llen(E)
    j = z3.Int("lj")
    i = z3.Int("li")
    typed = z3.ForAll([j], z3.Implies(z3.And(0 <= j, j < n), conforms(t, M.lat(v, j))),
                      patterns=[M.lat(v, j)])
    first_ell = M.lat(E, 0) == M.EllV
    last_ell = M.lat(E, m - 1) == M.EllV
    contains = z3.And(m > 2, first_ell, last_ell)
    head = z3.And(m >= 2, last_ell, z3.Not(contains))
    tail = z3.And(m >= 1, first_ell, z3.Not(contains), z3.Not(head))
    elems = z3.If(contains,
                  z3.Exists([i], z3.And(0 <= i, i + (m - 2) <= n, window_ok(E, 1, m - 2, v, i)),
                            patterns=[window_ok(E, 1, m - 2, v, i)]),
            z3.If(head, z3.And(m - 1 <= n, window_ok(E, 0, m - 1, v, 0)),
            z3.If(tail, z3.And(m - 1 <= n, window_ok(E, 1, m - 1, v, n - (m - 1))),
                  z3.And(n == m, window_ok(E, 0, m, v, 0)))))
    return z3.And(M.isinstance_f(ct, v, "list"), list_len_ok(S, n),
                  z3.Implies(D("type"), typed),
                  z3.Implies(z3.And(z3.Not(D("type")), D("elements")), elems))


def dict_conforms(ct, S: Any, v: Any) -> Any:
    K = prop(S, "keys")
    x = z3.Const("dk", Obj)
    pair = M.dget(K, x)
    per_key = z3.ForAll([x], z3.Implies(
        z3.And(M.has(K, x), x != M.EllV),
        z3.If(M.has(v, x), conforms(M.lat(pair, 0), M.dget(v, x)), M.lat(pair, 1) == M.mk_bool(True))),
        patterns=[M.has(K, x)])
    no_extra = z3.ForAll([x], z3.Implies(M.has(v, x), M.has(K, x)), patterns=[M.has(v, x)])
    return z3.And(M.isinstance_f(ct, v, "dict"),
                  z3.Implies(declared(S, "keys"),
                             z3.And(per_key, z3.Or(M.has(K, M.EllV), no_extra))))


# ----------------------------------------------------------------------------- validation results
def errors_of(r: Any) -> Any:
    return M.attr("_errors")(r)


def no_errors(r: Any) -> Any:
    return M.llen(errors_of(r)) == 0


def is_result(ct, r: Any) -> List[Any]:
    e = errors_of(r)
    return [M.is_Ref(r), M.rcls(r) == ct.id("ValidationResult"),
            M.is_Ref(e), M.rcls(e) == ct.id("list")]


def path_ok(ct, p: Any, alloc: Any) -> Any:
    """a `path` argument: Nil or a PathHolder that exists before the call"""
    return z3.Or(p == M.NilV,
                 z3.And(M.is_Ref(p), M.rcls(p) == ct.id("PathHolder"), M.rid(p) < alloc))


def pathseq_in(ph: Any, p: Any) -> Any:
    return z3.If(p == M.NilV, z3.Empty(M.SeqObj), z3.Select(ph, p))


# ----------------------------------------------------------------------------- reachable states (C10 invariant)
def reach_def(ct, cls: str, Sx: Any, regex_maxlen_fixed: bool = True) -> List[Any]:
    """`Reach_T` of DESIGN Appendix C: well-formed kinds + the mutual-exclusion rules of the DSL +
    self-consistency (a declared value conforms to the schema itself -- the C10 class invariant)."""
    f = wf_def(ct, cls, Sx)
    D = lambda n: declared(Sx, n)
    P = lambda n: prop(Sx, n)
    if cls == "StrSchema":
        f.append(z3.Implies(D("len"), z3.And(z3.Not(D("min_len")), z3.Not(D("max_len")))))
        f.append(z3.Implies(D("pattern"), z3.And(z3.Not(D("alphabet")), z3.Not(D("len")),
                                                  z3.Not(D("min_len")), z3.Not(D("max_len")),
                                                  z3.Not(D("substr")))))
    if cls == "ListSchema":
        f.append(z3.Implies(D("len"), z3.And(z3.Not(D("min_len")), z3.Not(D("max_len")))))
        E = P("elements")
        m = M.llen(E)
        j = z3.Int("rj")
        ell0 = z3.And(m > 0, M.lat(E, 0) == M.EllV)
        ellL = z3.And(m > 1, M.lat(E, m - 1) == M.EllV)
        c = m - z3.If(ell0, 1, 0) - z3.If(ellL, 1, 0)       # number of concrete elements
        has_ell = z3.Or(ell0, ellL)
        ln, mn, mx = M.int_of(P("len")), M.int_of(P("min_len")), M.int_of(P("max_len"))
        f.append(z3.Implies(D("elements"), z3.And(
            z3.Implies(D("len"), z3.If(has_ell, ln >= c, ln == c)),
            z3.Implies(D("min_len"), mn <= c),
            z3.Implies(D("max_len"), mx >= c),
            z3.ForAll([j], z3.Implies(z3.And(0 <= j, j < m, M.lat(E, j) != M.EllV), reach(M.lat(E, j))),
                      patterns=[M.lat(E, j)]))))
        f.append(z3.Implies(D("type"), reach(P("type"))))
    if cls == "DictSchema":
        K = P("keys")
        x = z3.Const("rx", Obj)
        f.append(z3.Implies(D("keys"), z3.ForAll([x], z3.Implies(z3.And(M.has(K, x), x != M.EllV),
                                                                  reach(M.lat(M.dget(K, x), 0))),
                                                 patterns=[M.has(K, x)])))
    if cls == "AnySchema":
        t = P("types")
        j = z3.Int("rj")
        f.append(z3.Implies(D("types"), z3.And(
            M.llen(t) > 0,
            z3.ForAll([j], z3.Implies(z3.And(0 <= j, j < M.llen(t)), reach(M.lat(t, j))), patterns=[M.lat(t, j)]))))
        # (flatness of the alternatives -- no alternative is itself a declared union -- is deliberately NOT part of this
        # recursive definition: stated here it made the unfolding axiom of AnySchema re-trigger itself on the Skolem
        # witness of its own negation, a matching loop that exhausted memory; it is a separate clause of the producers
        # `AnySchema.__call__` / `union` and a precondition of `Representor.visit_any`)
    if cls == "TypeAliasSchema":
        r = reg_of(Sx)
        f.append(z3.Implies(M.has(r, S_("type")), reach(M.dget(r, S_("type")))))
    if "value" in PROP_NAMES[cls]:
        f.append(z3.Implies(D("value"), conforms_def(ct, cls, Sx, P("value"))))
    return f


def _pattern_ok(t: Any) -> bool:
    from pyvc.executor import pattern_ok
    return pattern_ok(t)


def registry_is(ct, cls: str, R: Any, Sx: Any, upd: Dict[str, Any]) -> Any:
    """R is a `cls` instance whose props *view* (what Props.get returns for every prop name of the
    class; a missing key and a stored Nil are the same observation) is Sx's view updated with `upd`."""
    conj = list(shape(ct, R, cls))
    j = z3.Int("rj3")
    for n in PROP_NAMES[cls]:
        want = upd[n] if n in upd else prop(Sx, n)
        got = prop(R, n)
        if n == "elements":
            # a list-valued prop is compared by content (the schema keeps its own copy of the list)
            def same_as(w: Any) -> Any:
                if z3.is_app(w) and w.decl().kind() == z3.Z3_OP_ITE:
                    c_, a_, b_ = w.children()
                    return z3.If(c_, same_as(a_), same_as(b_))
                content = z3.And(M.isinstance_f(ct, got, "list"), M.llen(got) == M.llen(w),
                                 z3.ForAll([j], z3.Implies(z3.And(0 <= j, j < M.llen(w)), M.lat(got, j) == M.lat(w, j)),
                                           patterns=[M.lat(got, j)] + ([M.lat(w, j)] if _pattern_ok(w) else [])))
                return z3.If(M.isinstance_f(ct, w, "list"), content, got == w)
            conj.append(same_as(want))
        else:
            conj.append(got == want)
    return z3.And(*conj)


def unfold_defs(ct, cls: str, R: Any) -> Any:
    """Definitional unfolding of the specification relations for a schema object of known class
    (wf / reach / conforms are *defined* by cases on the class)."""
    w = z3.Const("uw", Obj)
    return z3.And(wf(R) == z3.And(*wf_def(ct, cls, R)),
                  reach(R) == z3.And(*reach_def(ct, cls, R)),
                  z3.ForAll([w], conforms(R, w) == conforms_def(ct, cls, R, w), patterns=[conforms(R, w)]))


# ----------------------------------------------------------------------------- observational equality of results (C17)
def _content_eq(ct, a: Any, b: Any, depth: int) -> Any:
    """same value, or two containers of the same class with equal content in the same order (to `depth` levels)"""
    if depth == 0:
        return a == b
    j = z3.Int(f"oj{depth}")
    k = z3.Const(f"ok{depth}", Obj)
    seq = z3.And(M.llen(a) == M.llen(b),
                 z3.ForAll([j], z3.Implies(z3.And(0 <= j, j < M.llen(a)), _content_eq(ct, M.lat(a, j), M.lat(b, j), depth - 1)),
                           patterns=[M.lat(a, j)]))
    dic = z3.And(M.klen(a) == M.klen(b),
                 z3.ForAll([j], z3.Implies(z3.And(0 <= j, j < M.klen(a)), M.kat(a, j) == M.kat(b, j)), patterns=[M.kat(a, j)]),
                 z3.ForAll([k], z3.And(M.has(a, k) == M.has(b, k),
                                       z3.Implies(M.has(a, k), _content_eq(ct, M.dget(a, k), M.dget(b, k), depth - 1))),
                           patterns=[M.has(a, k)]))
    is_seq = z3.Or(M.rcls(a) == ct.id("list"), M.rcls(a) == ct.id("tuple"))
    return z3.Or(a == b, z3.And(M.is_Ref(a), M.is_Ref(b), M.rcls(a) == M.rcls(b),
                                z3.Or(z3.And(is_seq, seq), z3.And(M.rcls(a) == ct.id("dict"), dic))))


def obs_eq(ct, r: Any, r2: Any) -> Any:
    names = sorted({n for ns in PROP_NAMES.values() for n in ns})
    return z3.And(M.is_Ref(r), M.is_Ref(r2), M.rcls(r) == M.rcls(r2), is_schema(ct, r),
                  *[_content_eq(ct, prop(r, n), prop(r2, n), 2) for n in names])


from pyvc.contracts import REG as _REG2  # noqa: E402
_REG2.obs_eq = obs_eq
