"""The relaxed validator used by the Substitutor (d42/substitution/_validator.py: SubstitutorValidator, and the methods it
inherits from Validator when they run with a SubstitutorValidator receiver): verdict contracts against a second
specification relation `rconforms` (placeholders `...` at the ends of a typed list are skipped, dict keys may be missing,
a `...` dict value is skipped).  Only the verdict is specified here (C04 / C05 / C12 need nothing about error locations).

The bodies verified are the real ones: `SubstitutorValidator.visit_list / visit_dict`, and `Validator.visit_list /
_validate_elements / visit_any / visit_type_alias` a second time with `self: SubstitutorValidator` (contract variant
"relaxed", chosen at call sites by the class of the receiver).
"""
from __future__ import annotations

from typing import Any, List

import z3

from pyvc import model as M
from pyvc.contracts import REG, accept_contract, contract, invariant
from pyvc.model import Obj

from . import spec as S
from . import validation as V

VAL = "d42/validation/_validator.py"
SVAL = "d42/substitution/_validator.py"
PROPS = ("C04", "C05", "C12", "C07", "C08")

rconforms = z3.Function("rconforms", Obj, Obj, M.B)
rwinok = z3.Function("rwinok", Obj, M.I, M.I, Obj, M.I, M.B)     # forall j<k. rconforms(E[eo+j], v[vo+j])
rwinwit = z3.Function("rwinwit", Obj, M.I, M.I, Obj, M.I, M.I)
ranyok = z3.Function("ranyok", Obj, M.I, Obj, M.B)               # exists j<n. rconforms(L[j], v)
ranywit = z3.Function("ranywit", Obj, M.I, Obj, M.I)


def _axioms(ct) -> List[Any]:
    E_, v_, aL, av = z3.Consts("rwE rwv raL rav", Obj)
    eo, kk, vo, ix, an, aj = z3.Ints("rweo rwk rwvo rwix ran raj")
    ww = rwinwit(E_, eo, kk, v_, vo)
    aw = ranywit(aL, an, av)
    return [
        z3.ForAll([E_, eo, kk, v_, vo, ix], z3.Implies(z3.And(rwinok(E_, eo, kk, v_, vo), eo <= ix, ix < eo + kk),
                                                       rconforms(M.lat(E_, ix), M.lat(v_, vo + (ix - eo)))),
                  patterns=[z3.MultiPattern(rwinok(E_, eo, kk, v_, vo), M.lat(E_, ix))]),
        z3.ForAll([E_, eo, kk, v_, vo, ix], z3.Implies(z3.And(rwinok(E_, eo, kk, v_, vo), vo <= ix, ix < vo + kk),
                                                       rconforms(M.lat(E_, eo + (ix - vo)), M.lat(v_, ix))),
                  patterns=[z3.MultiPattern(rwinok(E_, eo, kk, v_, vo), M.lat(v_, ix))]),
        z3.ForAll([E_, eo, kk, v_, vo], z3.Implies(z3.Not(rwinok(E_, eo, kk, v_, vo)), z3.And(
            eo <= ww, ww < eo + kk, z3.Not(rconforms(M.lat(E_, ww), M.lat(v_, vo + (ww - eo)))))),
            patterns=[rwinok(E_, eo, kk, v_, vo)]),
        z3.ForAll([aL, an, av], z3.Implies(ranyok(aL, an, av), z3.And(0 <= aw, aw < an, rconforms(M.lat(aL, aw), av))),
                  patterns=[ranyok(aL, an, av)]),
        z3.ForAll([aL, an, av, aj], z3.Implies(z3.And(0 <= aj, aj < an, rconforms(M.lat(aL, aj), av)), ranyok(aL, an, av)),
                  patterns=[z3.MultiPattern(ranyok(aL, an, av), M.lat(aL, aj))]),
    ]


REG.axiom_fns.append(_axioms)


def rwindow_ok(E: Any, eoff: Any, k: Any, v: Any, voff: Any) -> Any:
    as_int = lambda t: z3.IntVal(t) if isinstance(t, int) else t
    return rwinok(E, as_int(eoff), as_int(k), v, as_int(voff))


def skipped(v: Any, j: Any) -> Any:
    """a `...` placeholder at the first or last position of a typed-list value is not validated"""
    return z3.And(M.lat(v, j) == M.EllV, z3.Or(j == 0, j == M.llen(v) - 1))


def rlist_elems(ct, Sx: Any, v: Any) -> Any:
    """the element-list forms (no type): the strict window logic over the relaxed member relation"""
    E = S.prop(Sx, "elements")
    n, m = M.llen(v), M.llen(E)
    i = z3.Int("rli")
    first_ell, last_ell = M.lat(E, 0) == M.EllV, M.lat(E, m - 1) == M.EllV
    contains = z3.And(m > 2, first_ell, last_ell)
    head = z3.And(m >= 2, last_ell, z3.Not(contains))
    tail = z3.And(m >= 1, first_ell, z3.Not(contains), z3.Not(head))
    return z3.If(contains, z3.Exists([i], z3.And(0 <= i, i + (m - 2) <= n, rwindow_ok(E, 1, m - 2, v, i)),
                                     patterns=[rwindow_ok(E, 1, m - 2, v, i)]),
           z3.If(head, z3.And(m - 1 <= n, rwindow_ok(E, 0, m - 1, v, 0)),
           z3.If(tail, z3.And(m - 1 <= n, rwindow_ok(E, 1, m - 1, v, n - (m - 1))),
                 z3.And(n == m, rwindow_ok(E, 0, m, v, 0)))))


def rconforms_def(ct, cls: str, Sx: Any, v: Any) -> Any:
    P = lambda nm: S.prop(Sx, nm)
    D = lambda nm: S.declared(Sx, nm)
    if cls == "AnySchema":
        t = P("types")
        return z3.Implies(D("types"), ranyok(t, M.llen(t), v))
    if cls == "TypeAliasSchema":
        r = S.reg_of(Sx)
        return z3.Implies(M.has(r, S.S_("type")), rconforms(M.dget(r, S.S_("type")), v))
    if cls == "ListSchema":
        n = M.llen(v)
        j = z3.Int("rlj")
        typed = z3.ForAll([j], z3.Implies(z3.And(0 <= j, j < n), z3.Or(skipped(v, j), rconforms(P("type"), M.lat(v, j)))),
                          patterns=[M.lat(v, j)])
        return z3.And(M.isinstance_f(ct, v, "list"), S.list_len_ok(Sx, n),
                      z3.Implies(D("type"), typed),
                      z3.Implies(z3.And(z3.Not(D("type")), D("elements")), rlist_elems(ct, Sx, v)))
    if cls == "DictSchema":
        K = P("keys")
        x = z3.Const("rdk", Obj)
        pair = M.dget(K, x)
        per_key = z3.ForAll([x], z3.Implies(z3.And(M.has(K, x), x != M.EllV, M.has(v, x), M.dget(v, x) != M.EllV),
                                            rconforms(M.lat(pair, 0), M.dget(v, x))), patterns=[M.has(K, x)])
        no_extra = z3.ForAll([x], z3.Implies(M.has(v, x), M.has(K, x)), patterns=[M.has(v, x)])
        return z3.And(M.isinstance_f(ct, v, "dict"),
                      z3.Implies(D("keys"), z3.And(per_key, z3.Or(M.has(K, M.EllV), no_extra))))
    return S.conforms_def(ct, cls, Sx, v)      # the scalar visits are inherited unchanged


@accept_contract("SubstitutorValidator", props=PROPS)
def _accept_relaxed(c):
    """Accept[SubstitutorValidator]: what every visit_* run by the relaxed validator is separately proved to satisfy"""
    ct = c.ct
    Mx = c.sym("schema")
    v = c.sym("value")
    p = c.sym("path", "PathHolder")
    c.requires(S.is_schema(ct, Mx), "member-is-schema")
    c.requires(S.wf(Mx), "member-wf")
    c.requires(S.path_ok(ct, p, c.pre_alloc), "path")
    c.paths()
    c.returns("ValidationResult")
    c.raises()
    c.ensures("result", lambda r, post: z3.And(*S.is_result(ct, r)))
    c.ensures("verdict", lambda r, post: S.no_errors(r) == rconforms(Mx, v))
    c.ensures("errors-wf", lambda r, post: V.errs_alloc(S.errors_of(r), post.alloc))
    c.ensures("path-frame", lambda r, post: V.path_frame(post))


def relaxed_visit(cls: str, requires_untyped: bool = False):
    def body(c):
        ct = c.ct
        c.built_self("SubstitutorValidator")
        Sx = c.sym("schema", cls)
        v = c.sym("value")
        p = c.sym("path", "PathHolder")
        c.kwargs()
        for f in S.wf_def(ct, cls, Sx):
            c.requires(f)
        if requires_untyped:
            c.requires(S.prop(Sx, "type") == M.NilV, "reached-only-for-element-lists")
        c.requires(S.path_ok(ct, p, c.pre_alloc), "path")
        c.requires(S.deep_range(v), "float-repr")
        c.paths()
        c.returns("ValidationResult")
        c.raises(props=("C12", "C08"))
        c.ensures("result", lambda r, post: z3.And(*S.is_result(ct, r)), ("C12",))
        c.ensures("verdict", lambda r, post: S.no_errors(r) == rconforms_def(ct, cls, Sx, v), ("C04", "C05", "C12"))
        if c.mode == "call":      # the name the Substitutor contracts and lemmas use for this verdict
            c.ensures("rvalid", lambda r, post: S.no_errors(r) == V.rvalid(Sx, v), ("C12",))
        c.ensures("errors-wf", lambda r, post: V.errs_alloc(S.errors_of(r), post.alloc), ("C12",))
        c.ensures("path-frame", lambda r, post: V.path_frame(post), ("C07",))
    return body


contract(SVAL, "SubstitutorValidator.visit_list", props=PROPS, group="substitutor")(relaxed_visit("ListSchema"))
contract(SVAL, "SubstitutorValidator.visit_dict", props=PROPS, group="substitutor")(relaxed_visit("DictSchema"))
contract(VAL, "Validator.visit_list", props=PROPS, group="substitutor", variant="relaxed")(relaxed_visit("ListSchema", True))
contract(VAL, "Validator.visit_any", props=PROPS, group="substitutor", variant="relaxed")(relaxed_visit("AnySchema"))
contract(VAL, "Validator.visit_type_alias", props=PROPS, group="substitutor", variant="relaxed")(relaxed_visit("TypeAliasSchema"))


@contract(VAL, "Validator._validate_elements", props=PROPS, group="substitutor", variant="relaxed")
def _validate_elements_relaxed(c):
    ct = c.ct
    c.built_self("SubstitutorValidator")
    p = c.sym("path", "PathHolder")
    v = c.sym("value", "list")
    El = c.sym("elements", "list")
    st = c.sym("start", "int")
    c.kwargs()
    n, k, s0 = M.llen(v), M.llen(El), M.int_of(st)
    c.requires(z3.And(M.is_Ref(p), M.rcls(p) == ct.id("PathHolder"), M.rid(p) < c.pre_alloc), "path")
    c.requires(M.isinstance_f(ct, v, "list"), "value-is-list")
    c.requires(V.elements_wf(ct, El), "elements-wf")
    c.requires(z3.And(M.is_intlike(st), s0 >= 0, z3.Or(k > 0, s0 <= n)), "start")
    c.paths()
    c.raises()
    c.returns("list")
    c.ensures("is-list", lambda r, post: z3.And(M.is_Ref(r), M.rcls(r) == ct.id("list")))
    c.ensures("verdict", lambda r, post: (M.llen(r) == 0) == z3.And(s0 + k <= n, rwindow_ok(El, 0, k, v, s0)),
              ("C04", "C05", "C12"))
    c.ensures("errors-wf", lambda r, post: V.errs_alloc(r, post.alloc), ("C12",))
    c.ensures("path-frame", lambda r, post: V.path_frame(post), ("C07",))


def _variant_hook(ex, info, bound, st):
    """which contract of an inherited Validator method applies: by the class of the receiver"""
    try:
        return "relaxed" if ex.hint_of(bound, st) == "SubstitutorValidator" else ""
    except Exception:
        return ""


REG.variant_hook = _variant_hook


# ----------------------------------------------------------------------------- invariants (verdict only)
@invariant(VAL, "Validator._validate_elements@relaxed", loop=0)
def _inv_ve(L):
    ct = L.ct
    errs, v, El = L.v("errors"), L.v("value"), L.v("elements")
    s0 = M.int_of(L.v("start"))
    n = M.llen(v)
    j = z3.Int("rij")
    return z3.And(M.is_Ref(errs), M.rcls(errs) == ct.id("list"),
                  z3.ForAll([j], z3.Implies(z3.And(0 <= j, j < L.i), s0 + j < n), patterns=[M.lat(El, j)]),
                  z3.Implies(L.i > 0, s0 + L.i - 1 < n),
                  (M.llen(errs) == 0) == rwindow_ok(El, 0, L.i, v, s0),
                  V.errs_alloc(errs, L.alloc),
                  z3.Select(L.ph, L.v("path")) == z3.Select(L.ph_entry, L.v("path")))


@invariant(VAL, "Validator.visit_any@relaxed", loop=0)
def _inv_any(L):
    """no alternative seen so far accepts the value (relaxedly); nothing has been recorded"""
    v, Sx = L.v("value"), L.v("schema")
    t = S.prop(Sx, "types")
    j = z3.Int("raj2")
    return z3.And(L.v("result") == L.pre("result"),
                  z3.ForAll([j], z3.Implies(z3.And(0 <= j, j < L.i), z3.Not(rconforms(M.lat(t, j), v))), patterns=[M.lat(t, j)]),
                  V._path_fixed(L))


@invariant(VAL, "Validator.visit_list@relaxed", loop=1)
def _inv_list_contains(L):
    """all_errors[m] is the error list of window m: empty iff the window fits and conforms relaxedly"""
    ct = L.ct
    ae, v, El = L.v("all_errors"), L.v("value"), L.v("elements")
    n, kk = M.llen(v), M.llen(El) - 2
    m = z3.Int("rwm")
    inner = lambda mm: M.lat(ae, mm)
    win_ok = lambda mm: z3.And(mm + kk <= n, rwindow_ok(El, 1, kk, v, mm))
    return z3.And(
        M.is_Ref(ae), M.rcls(ae) == ct.id("list"), M.llen(ae) == L.i,
        L.v("result") == L.pre("result"),
        z3.ForAll([m], z3.Implies(z3.And(0 <= m, m < L.i), z3.And(
            M.is_Ref(inner(m)), M.rcls(inner(m)) == ct.id("list"),
            (M.llen(inner(m)) == 0) == win_ok(m), V.errs_alloc(inner(m), L.alloc))),
            patterns=[M.lat(ae, m), rwindow_ok(El, 1, kk, v, m)]),
        V._path_fixed(L))


# the surplus-element loop records ExtraElement errors whatever the member relation is: the strict invariant L5 as it is
invariant(VAL, "Validator.visit_list@relaxed", loop=2)(V._inv_list_extra)


@invariant(SVAL, "SubstitutorValidator.visit_list", loop=0)
def _inv_sv_typed(L):
    """typed list: no error so far iff every element seen so far is a skipped `...` or conforms relaxedly"""
    ct = L.ct
    errs, v = L.v("result"), L.v("value")
    t = L.v("type_schema")
    j = z3.Int("rtj")
    return z3.And(M.is_Ref(errs), M.rcls(errs) == ct.id("list"),
                  (M.llen(errs) == 0) == z3.ForAll([j], z3.Implies(z3.And(0 <= j, j < L.i),
                                                                   z3.Or(skipped(v, j), rconforms(t, M.lat(v, j)))),
                                                   patterns=[M.lat(v, j)]),
                  V.errs_alloc(errs, L.alloc), V._path_fixed(L))


def rdict_key_ok(K: Any, v: Any, x: Any) -> Any:
    return z3.Or(x == M.EllV, z3.Not(M.has(v, x)), M.dget(v, x) == M.EllV, rconforms(M.lat(M.dget(K, x), 0), M.dget(v, x)))


@invariant(SVAL, "SubstitutorValidator.visit_dict", loop=0)
def _inv_sv_dict0(L):
    ct = L.ct
    errs, v, Sx = L.v("result"), L.v("value"), L.v("schema")
    K = S.prop(Sx, "keys")
    j = z3.Int("rkj")
    return z3.And(M.is_Ref(errs), M.rcls(errs) == ct.id("list"),
                  (M.llen(errs) == 0) == z3.ForAll([j], z3.Implies(z3.And(0 <= j, j < L.i), rdict_key_ok(K, v, M.kat(K, j))),
                                                   patterns=[M.kat(K, j)]),
                  V.errs_alloc(errs, L.alloc), V._path_fixed(L))


@invariant(SVAL, "SubstitutorValidator.visit_dict", loop=1)
def _inv_sv_dict1(L):
    ct = L.ct
    errs, pre, v, Sx = L.v("result"), L.pre("result"), L.v("value"), L.v("schema")
    K = S.prop(Sx, "keys")
    j = z3.Int("rxj")
    return z3.And(M.is_Ref(errs), M.rcls(errs) == ct.id("list"),
                  (M.llen(errs) == 0) == z3.And(M.llen(pre) == 0,
                                                z3.ForAll([j], z3.Implies(z3.And(0 <= j, j < L.i), M.has(K, M.kat(v, j))),
                                                          patterns=[M.kat(v, j)])),
                  V.errs_alloc(errs, L.alloc), V._path_fixed(L))


# a schema object built concretely (e.g. the AnySchema() default of an alias without type): unfold rconforms for its class
_strict_hook = REG.schema_freeze_hook


def _freeze_hook(ex, st, cls: str, ident: Any) -> None:
    _strict_hook(ex, st, cls, ident)
    if cls in S.PROP_NAMES:
        w = z3.Const("ruv", Obj)
        st.assume(z3.ForAll([w], rconforms(ident, w) == rconforms_def(ex.ct, cls, ident, w), patterns=[rconforms(ident, w)]))


REG.schema_freeze_hook = _freeze_hook
