"""Contracts for d42/generation (C01: generated data conforms to its schema for every RNG outcome;
C17: the result is a function of the schema and the RNG stream only)."""
from __future__ import annotations

from typing import Any, List

import z3

from pyvc import model as M
from pyvc.contracts import accept_contract, contract, invariant, transparent
from pyvc.model import Obj

from . import spec as S

GEN = "d42/generation/_generator.py"
RND = "d42/generation/_random.py"
GINIT = "d42/generation/__init__.py"

transparent(GEN, "Generator.__init__", "Generator.random")

regex_gen_ok = z3.Function("regex_gen_ok", M.S, M.B)   # pattern lies in the generator's supported grammar (C09)


# ----------------------------------------------------------------------------- Random
@contract(RND, "Random.set_seed", props=("C17",), group="generator")
def _set_seed(c):
    """C17: the stream is seeded with a value that is a function of the argument only (obligation `seed-reproducible`
    at the random.seed() call); an unsupported seed type is random.seed's own TypeError"""
    c.sym("self", "Random")
    c.sym("seed")
    c.raises("TypeError")
    c.reproducible()


@contract(RND, "Random.random_int", props=("C01", "C17"), group="generator")
def _random_int(c):
    c.declare("self", "Random")
    a, b = c.sym("start"), c.sym("end")
    c.requires(z3.And(M.is_intlike(a), M.is_intlike(b)), "ints")
    c.requires(M.int_of(a) <= M.int_of(b), "non-empty-range")
    c.raises()
    c.returns("int")
    c.ensures("in-range", lambda r, post: z3.And(M.is_IntV(r), M.int_of(a) <= M.ival(r), M.ival(r) <= M.int_of(b)))
    c.reproducible()


@contract(RND, "Random.random_choice", props=("C01", "C17"), group="generator")
def _random_choice(c):
    c.declare("self", "Random")
    s = c.sym("sequence")
    ct = c.ct
    isstr = M.is_StrV(s)
    isseq = z3.And(M.is_Ref(s), z3.Or(ct.sub_formula(M.rcls(s), "tuple"), ct.sub_formula(M.rcls(s), "list")))
    c.requires(z3.Or(isstr, isseq), "sequence")
    c.requires(z3.If(isstr, z3.Length(M.sval(s)) > 0, M.llen(s) > 0), "non-empty")
    c.raises()
    j = z3.Int("cj")
    c.ensures("member", lambda r, post: z3.And(
        z3.Implies(isstr, z3.And(M.is_StrV(r), z3.Length(M.sval(r)) == 1, z3.Contains(M.sval(s), M.sval(r)),
                                 M.chin(M.sval(s), M.sval(r)))),
        z3.Implies(z3.Not(isstr),
                   z3.Exists([j], z3.And(0 <= j, j < M.llen(s), r == M.lat(s, j)), patterns=[M.lat(s, j)]))))
    c.reproducible()


@contract(RND, "Random.random_str", props=("C01", "C17"), group="generator")
def _random_str(c):
    c.declare("self", "Random")
    n, a = c.sym("length"), c.sym("alphabet")
    c.requires(z3.And(M.is_intlike(n), M.is_StrV(a)), "types")
    c.requires(z3.Or(M.int_of(n) <= 0, z3.Length(M.sval(a)) > 0), "alphabet-non-empty")
    c.raises()
    c.returns("str")
    ln = z3.If(M.int_of(n) > 0, M.int_of(n), 0)
    c.ensures("shape", lambda r, post: z3.And(M.is_StrV(r), z3.Length(M.sval(r)) == ln,
                                              M.all_in(M.sval(r), M.sval(a))))
    c.reproducible()


@contract(RND, "Random.random_float", props=("C01", "C17"), group="generator")
def _random_float(c):
    c.declare("self", "Random")
    a, b, p = c.sym("start"), c.sym("end"), c.sym("precision")
    rng = lambda t: z3.And(M.fval(t) <= M.DBL_MAX, M.fval(t) >= -M.DBL_MAX)
    c.requires(z3.And(M.is_FloatV(a), M.is_FloatV(b), rng(a), rng(b)), "finite-floats")
    c.requires(M.fval(a) <= M.fval(b), "non-empty-range")
    c.requires(z3.Or(p == M.NilV, z3.And(M.is_intlike(p), 1 <= M.int_of(p), M.int_of(p) <= 15)), "precision")
    c.raises()
    c.returns("float")
    c.ensures("in-range", lambda r, post: z3.And(M.is_FloatV(r), M.fval(a) <= M.fval(r), M.fval(r) <= M.fval(b)))
    c.reproducible()
    c.known_region("C01-float-precision-grid", "Random.random_float:ensures[in-range]", p != M.NilV)
    c.known_region("C01-float-precision-grid", "call:Random.random_int", p != M.NilV)
    c.known_region("C01-float-precision-grid", "Random.random_float:raises", p != M.NilV)


# ----------------------------------------------------------------------------- Generator visits
def gen_self(c):
    """`_generator = Generator(_random, RegexGenerator(_random))` (d42/generation/__init__.py)"""
    from pyvc.values import Cls
    ex, st = c.ex, c.st
    r = ex.construct("Random", [], {}, None, st)
    rnd = r[0][1]
    rg = ex.construct("RegexGenerator", [rnd], {}, None, st)
    c.built_self("Generator", rnd, rg[0][1])


def gen_visit(cls: str):
    def body(c):
        ct = c.ct
        if c.mode == "verify":
            gen_self(c)
        Sx = c.sym("schema", cls)
        c.kwargs()
        for f in S.reach_def(ct, cls, Sx):
            c.requires(f)
        w0 = z3.Const("w_sat", Obj)
        c.requires(S.conforms_def(ct, cls, Sx, w0), "satisfiable")       # Skolem witness of `satisfiable(S)`
        c.requires(S.deep_range(w0), "float-repr")
        c.requires(S.deep_range(Sx), "float-repr-schema")
        c.extra_inputs = {"w_sat": w0}
        if cls == "StrSchema":
            c.requires(z3.Implies(S.declared(Sx, "pattern"), regex_gen_ok(M.sval(S.prop(Sx, "pattern")))),
                       "pattern-supported")
        c.raises(props=("C01",))
        if cls == "StrSchema":
            c.known_region("C09-negated-class-exhausts-alphabet", "raises[IndexError]", z3.BoolVal(True))
        # C17: unfixed uuid4 / datetime / date draw from the OS and the clock and are exempt
        c.reproducible(when=S.declared(Sx, "value") if cls in ("UUID4Schema", "DateTimeSchema", "DateSchema") else None)
        def goal(r, post):
            g = S.conforms_def(ct, cls, Sx, r)
            if cls == "ListSchema":
                # proof hint: name the window term at offset 0 so that it can trigger the existential of
                # the contains form (a definition of a fresh Boolean: logically neutral)
                E = S.prop(Sx, "elements")
                b = M.fresh("hint", M.B)
                g = z3.Implies(b == S.window_ok(E, 1, M.llen(E) - 2, r, 0), g)
            return g
        # C04's `every value the result generates carries the substituted data` = pins (accepted => pinned, proved on the
        # substitution side) + this clause, so a change here fails C04 as well
        c.ensures("conforms", goal, ("C01", "C04"))
        if cls == "FloatSchema":
            nonfin = lambda t: z3.And(t != M.NilV, z3.Not(M.is_FloatV(t)))
            c.known_region("C01-float-nonfinite-bound", "call:Random.random_float:requires",
                           z3.Or(nonfin(S.prop(Sx, "min")), nonfin(S.prop(Sx, "max"))))
        if cls == "AnySchema":
            t = S.prop(Sx, "types")
            j = z3.Int("uj")
            c.known_region("C01-any-unsat-alternative", "call:Accept[Generator]:requires[member-satisfiable]",
                           z3.Exists([j], z3.And(0 <= j, j < M.llen(t), z3.Not(S.satisfiable(M.lat(t, j))))))
        if cls == "ListSchema":
            E = S.prop(Sx, "elements")
            m = M.llen(E)
            has_ell = z3.Or(z3.And(m > 0, M.lat(E, 0) == M.EllV), z3.And(m > 1, M.lat(E, m - 1) == M.EllV))
            c.known_region("C01-list-unsat-type", "call:Accept[Generator]:requires[member-satisfiable]",
                           z3.And(S.declared(Sx, "type"), z3.Not(S.satisfiable(S.prop(Sx, "type")))))
            c.known_region("C01-list-ellipsis-len", "Generator.visit_list:ensures[conforms]",
                           z3.And(S.declared(Sx, "elements"), has_ell,
                                  z3.Or(S.declared(Sx, "len"), S.declared(Sx, "min_len"))))
        if cls == "StrSchema":
            c.known_region("C01-empty-alphabet", "call:Random.random_str:requires[alphabet-non-empty]",
                           z3.And(S.declared(Sx, "alphabet"), z3.Length(M.sval(S.prop(Sx, "alphabet"))) == 0))
    return body


for _m, _cls in [("visit_none", "NoneSchema"), ("visit_bool", "BoolSchema"), ("visit_int", "IntSchema"),
                 ("visit_float", "FloatSchema"), ("visit_str", "StrSchema"), ("visit_bytes", "BytesSchema"),
                 ("visit_datetime", "DateTimeSchema"), ("visit_uuid4", "UUID4Schema"), ("visit_date", "DateSchema")]:
    contract(GEN, f"Generator.{_m}", props=("C01", "C17", "C07", "C04"), group="generator")(gen_visit(_cls))


transparent("d42/generation/_regex_generator.py", "RegexGenerator.__init__")


# ----------------------------------------------------------------------------- containers
@accept_contract("Generator", props=("C01", "C16", "C17"))
def _accept_generator(c):
    """Accept[Generator]: for a reachable, satisfiable member schema the generated value conforms."""
    ct = c.ct
    Mx = c.sym("schema")
    c.requires(S.is_schema(ct, Mx), "member-is-schema")
    c.requires(S.reach(Mx), "member-reachable")
    c.requires(S.satisfiable(Mx), "member-satisfiable")
    c.raises()
    c.result_is_function_of_args = True
    c.ensures("conforms", lambda r, post: z3.And(S.conforms(Mx, r), S.float_range(r)))


for _m, _cls in [("visit_list", "ListSchema"), ("visit_dict", "DictSchema"), ("visit_any", "AnySchema"),
                 ("visit_type_alias", "TypeAliasSchema")]:
    contract(GEN, f"Generator.{_m}", props=("C01", "C17", "C07", "C16", "C04"), group="generator")(gen_visit(_cls))


@invariant(GEN, "Generator.visit_list", loop=0)
def _inv_gen_elements(L):
    """L12: `elements` holds one generated value per concrete element schema seen so far, each conforming."""
    ct = L.ct
    out, Sx = L.v("elements"), L.v("schema")
    E = S.prop(Sx, "elements")
    m = M.llen(E)
    ell0 = z3.And(m > 0, M.lat(E, 0) == M.EllV)
    off = z3.If(ell0, 1, 0)
    seen_ell0 = z3.If(z3.And(ell0, L.i > 0), 1, 0)
    seen_ellL = z3.If(z3.And(m > 1, M.lat(E, m - 1) == M.EllV, L.i == m), 1, 0)
    k = z3.Int("gk")
    return z3.And(M.is_Ref(out), M.rcls(out) == ct.id("list"),
                  M.llen(out) == L.i - seen_ell0 - seen_ellL,
                  z3.ForAll([k], z3.Implies(z3.And(0 <= k, k < M.llen(out)),
                                            z3.And(S.conforms(M.lat(E, k + off), M.lat(out, k)),
                                                   S.float_range(M.lat(out, k)))),
                            patterns=[M.lat(out, k)]))


@invariant(GEN, "Generator.visit_dict", loop=0)
def _inv_gen_dict(L):
    """L13: `generated` has exactly the required non-ellipsis keys seen so far, each value conforming."""
    ct = L.ct
    g, Sx = L.v("generated"), L.v("schema")
    K = S.prop(Sx, "keys")
    x = z3.Const("gx", Obj)
    j = z3.Int("gj")
    req = lambda k: z3.And(k != M.EllV, M.lat(M.dget(K, k), 1) != M.mk_bool(True))
    return z3.And(M.is_Ref(g), M.rcls(g) == ct.id("dict"),
                  z3.ForAll([x], z3.Implies(M.has(g, x), z3.And(M.has(K, x), req(x), M.kidx(K, x) < L.i,
                                                                S.conforms(M.lat(M.dget(K, x), 0), M.dget(g, x)))),
                            patterns=[M.has(g, x)]),
                  z3.ForAll([j], z3.Implies(z3.And(0 <= j, j < L.i, req(M.kat(K, j))), M.has(g, M.kat(K, j))),
                            patterns=[M.kat(K, j)]))


@contract(GINIT, "generate", props=("C01", "C17", "C07"), group="generator")
def _generate(c):
    ct = c.ct
    Sx = c.sym("schema")
    c.kwargs()
    c.requires(S.is_schema(ct, Sx), "is-schema")
    c.requires(S.reach(Sx), "reachable")
    c.requires(S.satisfiable(Sx), "satisfiable")
    c.raises(props=("C01",))
    c.ensures("conforms", lambda r, post: S.conforms(Sx, r), ("C01",))
    c.reproducible()
