"""Contracts for d42/generation (C01: generated data conforms to its schema for every RNG outcome;
C17: the result is a function of the schema and the RNG stream only)."""
from __future__ import annotations

from typing import Any, List

import z3

from pyvc import model as M
from pyvc.contracts import accept_contract, contract, invariant, transparent
from pyvc.model import Obj

from . import spec as S

GEN = "d42/generation/_generator.py"
RND = "d42/generation/_random.py"
GINIT = "d42/generation/__init__.py"

transparent(GEN, "Generator.__init__", "Generator.random")

regex_gen_ok = z3.Function("regex_gen_ok", M.S, M.B)   # pattern lies in the generator's supported grammar (C09)


# ----------------------------------------------------------------------------- Random
@contract(RND, "Random.random_int", props=("C01", "C17"), group="generator")
def _random_int(c):
    c.declare("self", "Random")
    a, b = c.sym("start"), c.sym("end")
    c.requires(z3.And(M.is_intlike(a), M.is_intlike(b)), "ints")
    c.requires(M.int_of(a) <= M.int_of(b), "non-empty-range")
    c.raises()
    c.returns("int")
    c.ensures("in-range", lambda r, post: z3.And(M.is_IntV(r), M.int_of(a) <= M.ival(r), M.ival(r) <= M.int_of(b)))


@contract(RND, "Random.random_choice", props=("C01", "C17"), group="generator")
def _random_choice(c):
    c.declare("self", "Random")
    s = c.sym("sequence")
    ct = c.ct
    isstr = M.is_StrV(s)
    isseq = z3.And(M.is_Ref(s), z3.Or(ct.sub_formula(M.rcls(s), "tuple"), ct.sub_formula(M.rcls(s), "list")))
    c.requires(z3.Or(isstr, isseq), "sequence")
    c.requires(z3.If(isstr, z3.Length(M.sval(s)) > 0, M.llen(s) > 0), "non-empty")
    c.raises()
    j = z3.Int("cj")
    c.ensures("member", lambda r, post: z3.And(
        z3.Implies(isstr, z3.And(M.is_StrV(r), z3.Length(M.sval(r)) == 1, z3.Contains(M.sval(s), M.sval(r)))),
        z3.Implies(z3.Not(isstr),
                   z3.Exists([j], z3.And(0 <= j, j < M.llen(s), r == M.lat(s, j)), patterns=[M.lat(s, j)]))))


@contract(RND, "Random.random_str", props=("C01", "C17"), group="generator")
def _random_str(c):
    c.declare("self", "Random")
    n, a = c.sym("length"), c.sym("alphabet")
    c.requires(z3.And(M.is_intlike(n), M.is_StrV(a)), "types")
    c.requires(z3.Or(M.int_of(n) <= 0, z3.Length(M.sval(a)) > 0), "alphabet-non-empty")
    c.raises()
    c.returns("str")
    ln = z3.If(M.int_of(n) > 0, M.int_of(n), 0)
    c.ensures("shape", lambda r, post: z3.And(M.is_StrV(r), z3.Length(M.sval(r)) == ln,
                                              M.all_in(M.sval(r), M.sval(a))))


@contract(RND, "Random.random_float", props=("C01", "C17"), group="generator")
def _random_float(c):
    c.declare("self", "Random")
    a, b, p = c.sym("start"), c.sym("end"), c.sym("precision")
    c.requires(z3.And(M.is_FloatV(a), M.is_FloatV(b), S.float_range(a), S.float_range(b)), "finite-floats")
    c.requires(M.fval(a) <= M.fval(b), "non-empty-range")
    c.requires(z3.Or(p == M.NilV, z3.And(M.is_intlike(p), 1 <= M.int_of(p), M.int_of(p) <= 15)), "precision")
    c.raises()
    c.returns("float")
    c.ensures("in-range", lambda r, post: z3.And(M.is_FloatV(r), M.fval(a) <= M.fval(r), M.fval(r) <= M.fval(b)))
    c.known_region("C01-float-precision-grid", "Random.random_float:ensures[in-range]", p != M.NilV)
    c.known_region("C01-float-precision-grid", "call:Random.random_int", p != M.NilV)
    c.known_region("C01-float-precision-grid", "Random.random_float:raises", p != M.NilV)


# ----------------------------------------------------------------------------- Generator visits
def gen_self(c):
    """`_generator = Generator(_random, RegexGenerator(_random))` (d42/generation/__init__.py)"""
    from pyvc.values import Cls
    ex, st = c.ex, c.st
    r = ex.construct("Random", [], {}, None, st)
    rnd = r[0][1]
    rg = ex.construct("RegexGenerator", [rnd], {}, None, st)
    c.built_self("Generator", rnd, rg[0][1])


def gen_visit(cls: str):
    def body(c):
        ct = c.ct
        if c.mode == "verify":
            gen_self(c)
        Sx = c.sym("schema", cls)
        c.kwargs()
        for f in S.reach_def(ct, cls, Sx):
            c.requires(f)
        w0 = z3.Const("w_sat", Obj)
        c.requires(S.conforms_def(ct, cls, Sx, w0), "satisfiable")       # Skolem witness of `satisfiable(S)`
        c.requires(S.float_range(w0), "float-repr")
        c.extra_inputs = {"w_sat": w0}
        if cls == "StrSchema":
            c.requires(z3.Implies(S.declared(Sx, "pattern"), regex_gen_ok(M.sval(S.prop(Sx, "pattern")))),
                       "pattern-supported")
        c.raises(props=("C01",))
        c.ensures("conforms", lambda r, post: S.conforms_def(ct, cls, Sx, r), ("C01",))
        if cls == "FloatSchema":
            nonfin = lambda t: z3.And(t != M.NilV, z3.Not(M.is_FloatV(t)))
            c.known_region("C01-float-nonfinite-bound", "call:Random.random_float:requires",
                           z3.Or(nonfin(S.prop(Sx, "min")), nonfin(S.prop(Sx, "max"))))
        if cls == "StrSchema":
            c.known_region("C01-empty-alphabet", "call:Random.random_str:requires[alphabet-non-empty]",
                           z3.And(S.declared(Sx, "alphabet"), z3.Length(M.sval(S.prop(Sx, "alphabet"))) == 0))
    return body


for _m, _cls in [("visit_none", "NoneSchema"), ("visit_bool", "BoolSchema"), ("visit_int", "IntSchema"),
                 ("visit_float", "FloatSchema"), ("visit_str", "StrSchema"), ("visit_bytes", "BytesSchema"),
                 ("visit_datetime", "DateTimeSchema"), ("visit_uuid4", "UUID4Schema"), ("visit_date", "DateSchema")]:
    contract(GEN, f"Generator.{_m}", props=("C01", "C17", "C07"), group="generator")(gen_visit(_cls))


@contract("d42/generation/_regex_generator.py", "RegexGenerator.generate", props=("C09",), trusted=True,
          note="assumed until C09 is built: for a pattern in the supported grammar the result matches it")
def _regex_generate(c):
    c.declare("self", "RegexGenerator")
    p = c.sym("pattern")
    c.requires(M.is_StrV(p))
    c.requires(regex_gen_ok(M.sval(p)), "pattern-supported")
    c.raises()
    c.returns("str")
    c.ensures("matches", lambda r, post: z3.And(M.is_StrV(r), M.re_search(M.sval(p), M.sval(r))))


transparent("d42/generation/_regex_generator.py", "RegexGenerator.__init__")
