"""Contracts for custom schema types (C16): Schema.__accept__ -> visitor.visit -> __d42_*__ -> user hook.

The user's four hooks are the assumed contract of C16 ("a CustomSchema that forwards ... to a built-in
schema"): hook(visitor, **kw) == inner.__accept__(visitor, **kw) with inner = the wrapped schema.
What is *proved* is that the real dispatch chain hands the hooks exactly the arguments it was given, so
that custom.__accept__(V, **kw) satisfies the Accept[V] contract of the inner schema -- which is all a
container visit ever uses of a member (members are only ever receivers of __accept__)."""
from __future__ import annotations

from typing import Any, Dict, List, Optional

import z3

from pyvc import model as M
from pyvc.contracts import REG, abstract_contract, accept_contract, contract, transparent
from pyvc.model import Obj
from pyvc.values import Kw, T

from . import spec as S
from . import validation as V

CUS = "d42/custom_type/_custom_type.py"
SCH = "d42/declaration/types/_schema.py"

rtext = z3.Function("rtext", Obj, M.I, Obj, M.S)          # text Representor yields for (schema, indent, kwargs)
subres = z3.Function("subres", Obj, Obj, Obj, Obj)        # schema Substitutor yields for (schema, value, kwargs)
subraises = z3.Function("subraises", Obj, Obj, Obj, M.B)
genres_ok = z3.Function("genres_ok", Obj, Obj, M.B)


def inner_of(x: Any) -> Any:
    return M.attr("inner")(x)


def custom_shape(ct, x: Any) -> List[Any]:
    i = inner_of(x)
    return [M.is_Ref(x), M.rcls(x) == ct.id("UserCustomSchema"), S.is_schema(ct, i), S.wf(i), S.reach(i)]


# -- Accept contracts of the two visitors not covered elsewhere (uninterpreted result functions) ----------
@accept_contract("Representor", props=("C16", "C06"))
def _accept_representor(c):
    Mx = c.sym("schema")
    ind = c.sym("indent") if c.has_arg("indent") else M.mk_int(0)
    kw = c.kwargs()
    c.raises()
    c.returns("str")
    c.ensures("text", lambda r, post: r == M.StrV(rtext(Mx, M.int_of(ind), kw)))
    # the result *is* this term (so that templates built from it stay syntactically recognisable)
    c.pure_result = lambda st: T(M.StrV(rtext(Mx, M.int_of(ind), kw)), "str")


@accept_contract("Substitutor", props=("C16",))
def _accept_substitutor(c):
    Mx = c.sym("schema")
    v = c.sym("value")
    kw = c.kwargs()
    c.raises("SubstitutionError")
    c.raises_when("SubstitutionError", subraises(Mx, v, kw))
    c.ensures("result", lambda r, post: r == subres(Mx, v, kw))
    # induction hypothesis established by every Substitutor.visit_* contract (clause `same-class`): the result is a
    # schema object of the member's class
    c.ensures("same-class", lambda r, post: z3.And(S.is_schema(c.ct, r), M.rcls(r) == M.rcls(Mx)))


# -- the user's hooks (assumed): forward to the inner schema with the very same arguments -------------------
def _hook(name: str):
    def body(c):
        raise NotImplementedError
    return body


def apply_userhook(ex, name: str, recv: Any, pos, kws, kwrest, st):
    """`self.__validate__(visitor, **kw)` etc. on a forwarding custom type."""
    inner = T(inner_of(ex.term(recv, st)), None)
    ex.used_assumptions.add("C16 assumption: the custom type's hooks forward to its inner schema with the same arguments")
    return REG.apply_accept(ex, inner, pos, kws, kwrest, st)


# -- the real dispatch chain ------------------------------------------------------------------------------------
def custom_validate(qual: str, relpath: str, self_name: str, visitor_param: Optional[str]):
    def body(c):
        ct = c.ct
        if qual == "Validator.visit":
            c.built_self("Validator")
            X = c.sym("schema", "UserCustomSchema")
        elif qual == "Schema.__accept__":
            X = c.sym("self", "UserCustomSchema")
            if c.mode == "verify":
                r = c.ex.construct("Validator", [], {}, None, c.st)
                c.args["visitor"] = r[0][1]
        else:
            X = c.sym("self", "UserCustomSchema")
            if c.mode == "verify":
                r = c.ex.construct("Validator", [], {}, None, c.st)
                c.args["visitor"] = r[0][1]
        v = c.sym("value") if qual != "Schema.__accept__" else None
        p = c.sym("path", "PathHolder") if qual != "Schema.__accept__" else None
        kw = c.kwargs()
        for f in custom_shape(ct, X):
            c.requires(f)
        if p is not None:
            c.requires(S.path_ok(ct, p, c.pre_alloc), "path")
        c.paths()
        c.raises(props=("C16", "C08"))
        c.returns("ValidationResult")
        if qual == "Schema.__accept__":
            # kwargs carry value / path here: nothing can be said beyond `result of the inner accept`;
            # the two inner layers below state the verdict / location contract
            return
        inner = inner_of(X)
        base = S.pathseq_in(c.pre_ph, p)
        c.ensures("verdict-of-inner", lambda r, post: S.no_errors(r) == S.conforms(inner, v), ("C16",))
        c.ensures("located-as-inner", lambda r, post: z3.And(
            V.errs_alloc(S.errors_of(r), post.alloc),
            V.errs_located(S.errors_of(r), lambda e: V.located_u(e, inner, v, base, V.epath(post.ph, e)))), ("C16",))
        c.ensures("path-frame", lambda r, post: V.path_frame(post), ("C16", "C07"))
    return body


contract(CUS, "CustomSchema.__d42_validate__", props=("C16",), group="custom")(
    custom_validate("CustomSchema.__d42_validate__", CUS, "self", "visitor"))
contract("d42/validation/_validator.py", "Validator.visit", props=("C16", "C02", "C03"), group="custom")(
    custom_validate("Validator.visit", "", "schema", None))


@contract(CUS, "CustomSchema.__d42_represent__", props=("C16",), group="custom")
def _custom_represent(c):
    ct = c.ct
    X = c.sym("self", "UserCustomSchema")
    if c.mode == "verify":
        r = c.ex.construct("Representor", [], {}, None, c.st)
        c.args["visitor"] = r[0][1]
    ind = c.sym("indent")
    kw = c.kwargs()
    for f in custom_shape(ct, X):
        c.requires(f)
    c.requires(M.is_intlike(ind), "indent-int")
    c.raises(props=("C16",))
    c.returns("str")
    c.ensures("text-of-inner", lambda r, post: r == M.StrV(rtext(inner_of(X), M.int_of(ind), kw)), ("C16",))


@contract("d42/representation/_representor.py", "Representor.visit", props=("C16",), group="custom")
def _representor_visit(c):
    ct = c.ct
    c.built_self("Representor")
    X = c.sym("schema", "UserCustomSchema")
    ind = c.sym("indent")
    kw = c.kwargs()
    for f in custom_shape(ct, X):
        c.requires(f)
    c.requires(M.is_intlike(ind), "indent-int")
    c.raises(props=("C16",))
    c.returns("str")
    c.ensures("text-of-inner", lambda r, post: r == M.StrV(rtext(inner_of(X), M.int_of(ind), kw)), ("C16",))


@contract(CUS, "CustomSchema.__d42_generate__", props=("C16",), group="custom")
def _custom_generate(c):
    ct = c.ct
    X = c.sym("self", "UserCustomSchema")
    if c.mode == "verify":
        from .generation import gen_self
        rnd = c.ex.construct("Random", [], {}, None, c.st)[0][1]
        rg = c.ex.construct("RegexGenerator", [rnd], {}, None, c.st)[0][1]
        c.args["visitor"] = c.ex.construct("Generator", [rnd, rg], {}, None, c.st)[0][1]
    c.kwargs()
    for f in custom_shape(ct, X):
        c.requires(f)
    c.requires(S.satisfiable(inner_of(X)), "inner-satisfiable")
    c.raises(props=("C16",))
    c.ensures("conforms-to-inner", lambda r, post: S.conforms(inner_of(X), r), ("C16",))


@contract("d42/generation/_generator.py", "Generator.visit", props=("C16", "C01"), group="custom")
def _generator_visit(c):
    ct = c.ct
    if c.mode == "verify":
        from .generation import gen_self
        gen_self(c)
    X = c.sym("schema", "UserCustomSchema")
    c.kwargs()
    for f in custom_shape(ct, X):
        c.requires(f)
    c.requires(S.satisfiable(inner_of(X)), "inner-satisfiable")
    c.raises(props=("C16",))
    c.ensures("conforms-to-inner", lambda r, post: S.conforms(inner_of(X), r), ("C16",))


@contract(CUS, "CustomSchema.__d42_substitute__", props=("C16",), group="custom")
def _custom_substitute(c):
    ct = c.ct
    X = c.sym("self", "UserCustomSchema")
    if c.mode == "verify":
        c.args["visitor"] = c.ex.construct("Substitutor", [], {}, None, c.st)[0][1]
    v = c.sym("value")
    kw = c.kwargs()
    for f in custom_shape(ct, X):
        c.requires(f)
    c.paths()
    c.raises("SubstitutionError", props=("C16",))
    c.raises_when("SubstitutionError", subraises(inner_of(X), v, kw))
    c.ensures("result-of-inner", lambda r, post: r == subres(inner_of(X), v, kw), ("C16",))


@contract("d42/substitution/_substitutor.py", "Substitutor.visit", props=("C16",), group="custom")
def _substitutor_visit(c):
    ct = c.ct
    c.built_self("Substitutor")
    X = c.sym("schema", "UserCustomSchema")
    v = c.sym("value")
    kw = c.kwargs()
    for f in custom_shape(ct, X):
        c.requires(f)
    c.paths()
    c.raises("SubstitutionError", props=("C16",))
    c.raises_when("SubstitutionError", subraises(inner_of(X), v, kw))
    c.ensures("result-of-inner", lambda r, post: r == subres(inner_of(X), v, kw), ("C16",))


# the first link of the chain: the base Schema.__accept__ (reached only by custom types; every built-in schema
# overrides it) hands the schema and the incoming **kwargs, unchanged, to visitor.visit
contract(SCH, "Schema.__accept__", props=("C16",), group="custom")(
    custom_validate("Schema.__accept__", SCH, "self", "visitor"))
