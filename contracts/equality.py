"""Contracts for schema equality (C15): eq (the Schema.__eq__ override), Schema.__ne__, Props.__eq__,
optional.__eq__ / __hash__, and the laws of == as lemmas over the definition of struct_eq."""
from __future__ import annotations

from typing import Any, List

import z3

from pyvc import model as M
from pyvc.contracts import REG, contract, invariant, lemma, transparent
from pyvc.model import Obj

from . import spec as S

PROPS = "d42/declaration/_props.py"
SCH = "d42/declaration/types/_schema.py"
VINIT = "d42/validation/__init__.py"
OPT = "d42/declaration/types/_optional.py"

transparent(OPT, "optional.key", "optional.__init__")


def get_(P: Any, k: Any) -> Any:
    """Props.get(k) on the props object P"""
    r = M.attr("_registry")(P)
    return z3.If(M.has(r, k), M.dget(r, k), M.NilV)


def props_eq_def(ct, P: Any, Q: Any) -> Any:
    rp, rq = M.attr("_registry")(P), M.attr("_registry")(Q)
    k = z3.Const("pk", Obj)
    return z3.And(
        M.is_Ref(Q), M.subcls(M.rcls(Q), M.rcls(P)),
        z3.ForAll([k], z3.Implies(M.has(rp, k), M.gen_eq(M.dget(rp, k), get_(Q, k))), patterns=[M.has(rp, k)]),
        z3.ForAll([k], z3.Implies(M.has(rq, k), M.gen_eq(M.dget(rq, k), get_(P, k))), patterns=[M.has(rq, k)]))


def struct_eq_def(ct, A: Any, B: Any) -> Any:
    return z3.And(M.is_Ref(B), M.subcls(M.rcls(B), M.rcls(A)), M.props_eq(M.attr("_props")(A), M.attr("_props")(B)))


def gen_eq_def(ct, a: Any, b: Any) -> Any:
    """Python == as d42 leaves it: Schema.__eq__ is `eq` (structural for two schemas, `validates` for a
    schema and a non-schema, from either side); lists/tuples element-wise; everything else as before."""
    sa, sb = S.is_schema(ct, a), S.is_schema(ct, b)
    j = z3.Int("gj")
    seq = lambda x, c: z3.And(M.is_Ref(x), M.rcls(x) == ct.id(c))
    elementwise = z3.And(M.llen(a) == M.llen(b),
                         z3.ForAll([j], z3.Implies(z3.And(0 <= j, j < M.llen(a)), M.gen_eq(M.lat(a, j), M.lat(b, j))),
                                   patterns=[M.lat(a, j)]))
    pa, pb = M.isinstance_f(ct, a, "Props"), M.isinstance_f(ct, b, "Props")
    return z3.If(sa, z3.If(sb, M.struct_eq(a, b), M.conforms(a, b)),
           z3.If(sb, M.conforms(b, a),
           z3.If(pa, M.props_eq(a, b), z3.If(pb, M.props_eq(b, a),
           z3.If(z3.Or(z3.And(seq(a, "list"), seq(b, "list")), z3.And(seq(a, "tuple"), seq(b, "tuple"))),
                 z3.Or(a == b, elementwise),
                 M.py_eq(a, b))))))


def _eq_axioms(ct) -> List[Any]:
    a, b = z3.Consts("ea eb", Obj)
    ax = [z3.ForAll([a, b], M.gen_eq(a, b) == gen_eq_def(ct, a, b), patterns=[M.gen_eq(a, b)]),
          z3.ForAll([a, b], M.struct_eq(a, b) == struct_eq_def(ct, a, b), patterns=[M.struct_eq(a, b)]),
          z3.ForAll([a, b], M.props_eq(a, b) == props_eq_def(ct, a, b), patterns=[M.props_eq(a, b)])]
    # the (finite) subclass table
    for n1, i1 in ct.ids.items():
        for n2, i2 in ct.ids.items():
            if ct.is_sub(n1, "Schema") or ct.is_sub(n1, "Props") or n1 == "optional":
                if ct.is_sub(n2, "Schema") or ct.is_sub(n2, "Props") or n2 == "optional":
                    ax.append(M.subcls(i1, i2) == z3.BoolVal(ct.is_sub(n1, n2)))
    # a subclass of a schema class is a schema class (closed world of the class table, as for isinstance)
    i, k = z3.Ints("sci sck")
    ax.append(z3.ForAll([i, k], z3.Implies(z3.And(M.subcls(i, k), ct.sub_formula(k, "Schema")), ct.sub_formula(i, "Schema")),
                        patterns=[M.subcls(i, k)]))
    return ax


REG.axiom_fns.append(_eq_axioms)


@contract(PROPS, "Props.__eq__", props=("C15", "C07"), group="equality")
def _props_eq(c):
    ct = c.ct
    P = c.sym("self", "Props")
    Q = c.sym("other", "Props")      # dispatch hint only: the body checks isinstance(other, ...) first
    c.generic_eq = True
    r = M.attr("_registry")(P)
    c.requires(z3.And(M.is_Ref(P), ct.sub_formula(M.rcls(P), "Props"), M.is_Ref(r), M.rcls(r) == ct.id("dict")), "props-shape")
    rq = M.attr("_registry")(Q)
    c.requires(z3.Implies(M.isinstance_f(ct, Q, "Props"), z3.And(M.is_Ref(rq), M.rcls(rq) == ct.id("dict"))), "other-shape")
    kk = z3.Const("rk", Obj)
    c.requires(z3.ForAll([kk], z3.Implies(M.has(r, kk), M.is_StrV(kk)), patterns=[M.has(r, kk)]), "string-keys")
    c.raises()
    c.returns("bool")
    c.ensures("computes-props_eq", lambda res, post: res == M.BoolV(props_eq_def(ct, P, Q)), ("C15",))


@invariant(PROPS, "Props.__eq__", loop=0)
def _inv_props_eq_0(L):
    P, Q = L.v("self"), L.v("other")
    rp = M.attr("_registry")(P)
    j = z3.Int("ij")
    return z3.ForAll([j], z3.Implies(z3.And(0 <= j, j < L.i), M.gen_eq(M.dget(rp, M.kat(rp, j)), get_(Q, M.kat(rp, j)))),
                     patterns=[M.kat(rp, j)])


@invariant(PROPS, "Props.__eq__", loop=1)
def _inv_props_eq_1(L):
    P, Q = L.v("self"), L.v("other")
    rq = M.attr("_registry")(Q)
    j = z3.Int("ij")
    return z3.ForAll([j], z3.Implies(z3.And(0 <= j, j < L.i), M.gen_eq(M.dget(rq, M.kat(rq, j)), get_(P, M.kat(rq, j)))),
                     patterns=[M.kat(rq, j)])


@contract(VINIT, "eq", props=("C15", "C02"), group="equality")
def _eq(c):
    ct = c.ct
    A = c.sym("schema")
    v = c.sym("value")
    c.generic_eq = True
    c.requires(z3.And(S.is_schema(ct, A), S.wf(A)), "schema")
    pa = M.attr("_props")(A)
    c.requires(z3.And(M.is_Ref(pa), ct.sub_formula(M.rcls(pa), "Props"), M.is_Ref(M.attr("_registry")(pa)),
                      M.rcls(M.attr("_registry")(pa)) == ct.id("dict")), "schema-shape")
    pv = M.attr("_props")(v)
    c.requires(z3.Implies(S.is_schema(ct, v), z3.And(M.is_Ref(pv), ct.sub_formula(M.rcls(pv), "Props"),
                                                    M.is_Ref(M.attr("_registry")(pv)),
                                                    M.rcls(M.attr("_registry")(pv)) == ct.id("dict"))), "value-shape")
    kk = z3.Const("rk", Obj)
    ra_ = M.attr("_registry")(pa)
    c.requires(z3.ForAll([kk], z3.Implies(M.has(ra_, kk), M.is_StrV(kk)), patterns=[M.has(ra_, kk)]), "string-keys")
    c.paths()
    c.raises()
    c.ensures("schema-vs-schema-is-structural", lambda r, post: z3.Implies(
        S.is_schema(ct, v), M.truthy_bool(r) == struct_eq_def(ct, A, v)) if False else z3.Implies(
        S.is_schema(ct, v), r == M.BoolV(struct_eq_def(ct, A, v))), ("C15",))
    c.ensures("schema-vs-value-is-validates", lambda r, post: z3.Implies(
        z3.Not(S.is_schema(ct, v)), r == M.BoolV(S.conforms(A, v))), ("C15",))


@contract(SCH, "Schema.__ne__", props=("C15",), group="equality")
def _ne(c):
    ct = c.ct
    A = c.sym("self", "Schema")
    v = c.sym("other")
    c.generic_eq = True
    c.requires(z3.And(S.is_schema(ct, A), S.wf(A)), "schema")
    pa = M.attr("_props")(A)
    c.requires(z3.And(M.is_Ref(pa), ct.sub_formula(M.rcls(pa), "Props"), M.is_Ref(M.attr("_registry")(pa)),
                      M.rcls(M.attr("_registry")(pa)) == ct.id("dict")), "schema-shape")
    pv = M.attr("_props")(v)
    c.requires(z3.Implies(S.is_schema(ct, v), z3.And(M.is_Ref(pv), ct.sub_formula(M.rcls(pv), "Props"),
                                                    M.is_Ref(M.attr("_registry")(pv)),
                                                    M.rcls(M.attr("_registry")(pv)) == ct.id("dict"))), "value-shape")
    kk = z3.Const("rk", Obj)
    ra_ = M.attr("_registry")(pa)
    c.requires(z3.ForAll([kk], z3.Implies(M.has(ra_, kk), M.is_StrV(kk)), patterns=[M.has(ra_, kk)]), "string-keys")
    c.paths()
    c.raises()
    c.ensures("is-the-negation-of-eq", lambda r, post: r == M.BoolV(z3.Not(gen_eq_def(ct, A, v))), ("C15",))


@contract(OPT, "optional.__eq__", props=("C15",), group="equality")
def _opt_eq(c):
    ct = c.ct
    a = c.sym("self", "optional")
    b = c.sym("other", "optional")
    c.generic_eq = True
    c.requires(z3.And(M.is_Ref(a), M.rcls(a) == ct.id("optional")), "optional")
    c.raises()
    c.ensures("same-key", lambda r, post: r == M.BoolV(z3.And(M.isinstance_f(ct, b, "optional"),
                                                              M.gen_eq(M.attr("_key")(a), M.attr("_key")(b)))), ("C15",))


# ----------------------------------------------------------------------------- laws of == (lemmas)
@lemma("C15.laws", props=("C15",))
def _c15(lc):
    """The laws are lemmas over the *definitions* struct_eq / props_eq / gen_eq that `eq` and
    `Props.__eq__` are proved to compute.  Members (prop values) are covered by the induction
    hypothesis: gen_eq restricted to the values stored in the two registries has the law in question."""
    ct = lc.ct
    A, B, C = z3.Consts("A B C", Obj)
    k = z3.Const("k", Obj)
    ax = _eq_axioms(ct)
    nil_free_ = lambda r: z3.ForAll([k], z3.Implies(M.has(r, k), M.dget(r, k) != M.NilV), patterns=[M.has(r, k)])
    pa, pb, pc = M.attr("_props")(A), M.attr("_props")(B), M.attr("_props")(C)
    ra, rb, rc = M.attr("_registry")(pa), M.attr("_registry")(pb), M.attr("_registry")(pc)
    same_cls = [M.is_Ref(A), M.is_Ref(B), M.is_Ref(C), M.rcls(A) == M.rcls(B), M.rcls(B) == M.rcls(C),
                S.is_schema(ct, A), M.is_Ref(pa), M.is_Ref(pb), M.is_Ref(pc),
                M.rcls(pa) == M.rcls(pb), M.rcls(pb) == M.rcls(pc), ct.sub_formula(M.rcls(pa), "Props")]
    x, y, z = z3.Consts("x y z", Obj)
    refl_members = z3.ForAll([k], z3.Implies(M.has(ra, k), M.gen_eq(M.dget(ra, k), M.dget(ra, k))), patterns=[M.has(ra, k)])
    sym_members = z3.ForAll([x, y], M.gen_eq(x, y) == M.gen_eq(y, x), patterns=[M.gen_eq(x, y)])
    # induction hypothesis for members: transitivity among schemas (structural induction) and among
    # non-schemas (plain data); NOT across the two kinds -- a schema compares equal to every value it
    # validates, which is what breaks transitivity when a parameter is missing (Nil) on one side
    sch = lambda t: S.is_schema(ct, t)
    uniform = lambda a_, b_, c_: z3.Or(z3.And(sch(a_), sch(b_), sch(c_)),
                                       z3.And(z3.Not(sch(a_)), z3.Not(sch(b_)), z3.Not(sch(c_))))
    trans_members = z3.ForAll([x, y, z], z3.Implies(z3.And(uniform(x, y, z), M.gen_eq(x, y), M.gen_eq(y, z)),
                                                    M.gen_eq(x, z)),
                              patterns=[z3.MultiPattern(M.gen_eq(x, y), M.gen_eq(y, z))])
    same_kinds = z3.ForAll([k], z3.And(
        z3.Implies(z3.And(M.has(ra, k), M.has(rb, k)), sch(M.dget(ra, k)) == sch(M.dget(rb, k))),
        z3.Implies(z3.And(M.has(rb, k), M.has(rc, k)), sch(M.dget(rb, k)) == sch(M.dget(rc, k))),
        z3.Implies(z3.And(M.has(ra, k), M.has(rc, k)), sch(M.dget(ra, k)) == sch(M.dget(rc, k)))),
        patterns=[M.has(ra, k), M.has(rb, k), M.has(rc, k)])
    no_stored_nil = z3.And(nil_free_(ra), nil_free_(rb), nil_free_(rc))
    same_keys = z3.ForAll([k], z3.And(M.has(ra, k) == M.has(rb, k), M.has(rb, k) == M.has(rc, k)),
                          patterns=[M.has(ra, k), M.has(rb, k), M.has(rc, k)])
    inputs = {"A": A, "B": B, "C": C}
    nil_free = lambda r: z3.ForAll([k], z3.Implies(M.has(r, k), M.dget(r, k) != M.NilV), patterns=[M.has(r, k)])
    lc.oblige("reflexive", ax + same_cls + [refl_members, nil_free(ra)], M.struct_eq(A, A), inputs, {"law": "reflexive"},
              text="A == A (given == is reflexive on A's declared parameters)")
    lc.oblige("symmetric", ax + same_cls + [sym_members, M.struct_eq(A, B)], M.struct_eq(B, A), inputs,
              {"law": "symmetric"}, text="A == B implies B == A for schemas of the same class")
    hyp_t = ax + same_cls + [sym_members, trans_members, same_kinds, no_stored_nil, M.struct_eq(A, B), M.struct_eq(B, C)]
    if "C15-transitivity-missing-param" in getattr(REG, "active_regions", set()):
        hyp_t.append(same_keys)      # known finding: proved where the three schemas declare the same parameters
    lc.oblige("transitive", hyp_t,
              M.struct_eq(A, C), inputs, {"law": "transitive"},
              text="A == B and B == C imply A == C for schemas of the same class")
