"""Contracts for d42/substitution and d42/utils/_from_native.py (C04 pins, C05 narrows, C12 only
SubstitutionError + idempotent, C14 from_native denotes the value)."""
from __future__ import annotations

from typing import Any, Dict, List

import z3

from pyvc import model as M
from pyvc.contracts import accept_contract, contract, invariant, lemma, transparent
from pyvc.model import Obj

from . import spec as S
from . import validation as V

SUB = "d42/substitution/_substitutor.py"
SVAL = "d42/substitution/_validator.py"
SERR = "d42/substitution/errors/__init__.py"
FN = "d42/utils/_from_native.py"

def ACTIVE():
    from pyvc.contracts import REG
    return getattr(REG, "active_regions", set())


transparent(SUB, "Substitutor.__init__", "Substitutor.validator", "Substitutor.formatter")


@contract(SERR, "make_substitution_error", props=("C12", "C08"), group="substitutor")
def _make_substitution_error(c):
    ct = c.ct
    r0 = c.sym("result", "ValidationResult")
    fm = c.sym("formatter", "Formatter")
    c.requires(z3.And(*S.is_result(ct, r0)), "is-result")
    c.requires(V.errs_alloc(S.errors_of(r0), c.pre_alloc), "errors-wf")
    c.requires(z3.And(M.is_Ref(fm), M.rcls(fm) == ct.id("Formatter")), "formatter")
    c.paths()
    c.raises(props=("C12",))
    c.returns("SubstitutionError")
    c.ensures("is-substitution-error", lambda r, post: z3.And(M.is_Ref(r), M.rcls(r) == ct.id("SubstitutionError")))
    c.ensures("path-frame", lambda r, post: V.path_frame(post), ("C07",))


SCALARS = [("visit_none", "NoneSchema"), ("visit_bool", "BoolSchema"), ("visit_int", "IntSchema"),
           ("visit_float", "FloatSchema"), ("visit_str", "StrSchema"), ("visit_bytes", "BytesSchema"),
           ("visit_uuid4", "UUID4Schema"), ("visit_datetime", "DateTimeSchema"), ("visit_date", "DateSchema")]


def sub_scalar(cls: str):
    def body(c):
        ct = c.ct
        c.built_self("Substitutor")
        Sx = c.sym("schema", cls)
        v = c.sym("value")
        c.kwargs()
        for f in S.reach_def(ct, cls, Sx):
            c.requires(f)
        c.requires(S.deep_range(v), "float-repr")
        c.paths()
        c.raises("SubstitutionError", props=("C12", "C04", "C05"))
        c.raises_when("SubstitutionError", z3.Not(S.conforms_def(ct, cls, Sx, v)))
        c.returns(cls)
        upd = {} if cls == "NoneSchema" else {"value": v}
        c.ensures("registry", lambda r, post: S.registry_is(ct, cls, r, Sx, upd), ("C04", "C05", "C12"))
        c.ensures("unfold", lambda r, post: S.unfold_defs(ct, cls, r), ("C04",))
        c.ensures("path-frame", lambda r, post: V.path_frame(post), ("C07",))
        c.ensures("same-class", lambda r, post: z3.And(S.is_schema(ct, r), M.rcls(r) == M.rcls(Sx)), ("C12", "C07"))
        c.meta = {"cls": cls}
    return body


for _m, _cls in SCALARS:
    contract(SUB, f"Substitutor.{_m}", props=("C04", "C05", "C12", "C07"), group="substitutor")(sub_scalar(_cls))


# ----------------------------------------------------------------------------- lemmas over the scalar contracts
def pins_scalar(ct, cls: str, Sx: Any, v: Any, w: Any) -> Any:
    """`w carries the substituted data`: equal scalars (float: under the schema's tolerance)"""
    if cls == "NoneSchema":
        return M.is_NoneV(w)
    if cls == "FloatSchema":
        return S.feq(w, v, S.prop(Sx, "precision"))
    return M.py_eq(w, v)


def _updated_view(ct, cls: str, R: Any, Sx: Any, v: Any) -> List[Any]:
    upd = {} if cls == "NoneSchema" else {"value": v}
    return [S.registry_is(ct, cls, R, Sx, upd)]


@lemma("C04.scalars", props=("C04",))
def _c04_scalars(lc):
    """From the exact contract of Substitutor.visit_<scalar> (no SubstitutionError <=> conforms(S, v);
    result = S with value := v): the result accepts v, and everything it accepts is pinned to v."""
    ct = lc.ct
    for _, cls in SCALARS:
        Sx, R, v, w = z3.Consts(f"S_{cls} R_{cls} v w", Obj)
        hyp = list(S.reach_def(ct, cls, Sx)) + [S.conforms_def(ct, cls, Sx, v), S.float_range(v), S.float_range(w)]
        hyp += _updated_view(ct, cls, R, Sx, v)
        inputs = {"schema": Sx, "value": v, "w": w}
        meta = {"cls": cls}
        nan_region = [z3.Not(M.is_FNanV(v))] if (cls == "FloatSchema" and "C04-float-nan" in ACTIVE()) else []
        hyp = hyp + nan_region
        lc.oblige(f"{cls}:accepts-value", hyp, S.conforms_def(ct, cls, R, v), inputs, meta,
                  text="S % v accepts v (v conforms to S)")
        lc.oblige(f"{cls}:pins", hyp + [S.conforms_def(ct, cls, R, w)], pins_scalar(ct, cls, Sx, v, w), inputs, meta,
                  text="every value accepted by S % v equals v")
        lc.oblige(f"{cls}:result-reachable", hyp, z3.And(*S.reach_def(ct, cls, R)), inputs, meta,
                  text="S % v is a usable (reachable, self-consistent) schema")


@lemma("C05.scalars", props=("C05",))
def _c05_scalars(lc):
    ct = lc.ct
    for _, cls in SCALARS:
        Sx, R, v, w = z3.Consts(f"S_{cls} R_{cls} v w", Obj)
        hyp = list(S.reach_def(ct, cls, Sx)) + [S.conforms_def(ct, cls, Sx, v), S.float_range(v), S.float_range(w)]
        hyp += _updated_view(ct, cls, R, Sx, v)
        if cls == "FloatSchema" and "C05-float-tolerance" in ACTIVE():
            # known finding: isclose is not transitive -- proved outside `S already fixes a different value`
            hyp = hyp + [z3.Or(z3.Not(S.declared(Sx, "value")), S.prop(Sx, "value") == v)]
        lc.oblige(f"{cls}:narrower", hyp + [S.conforms_def(ct, cls, R, w)], S.conforms_def(ct, cls, Sx, w),
                  {"schema": Sx, "value": v, "w": w}, {"cls": cls},
                  text="every value accepted by S % v is accepted by S")


@lemma("C12.scalars", props=("C12",))
def _c12_scalars(lc):
    """idempotence: (S % v) % v does not raise and has the same registry as S % v"""
    ct = lc.ct
    for _, cls in SCALARS:
        Sx, R, R2, v = z3.Consts(f"S_{cls} R_{cls} R2_{cls} v", Obj)
        hyp = list(S.reach_def(ct, cls, Sx)) + [S.conforms_def(ct, cls, Sx, v), S.float_range(v)]
        hyp += _updated_view(ct, cls, R, Sx, v)
        inputs = {"schema": Sx, "value": v}
        if cls == "FloatSchema" and "C12-float-nan" in ACTIVE():
            hyp = hyp + [z3.Not(M.is_FNanV(v))]
        lc.oblige(f"{cls}:second-substitution-succeeds", hyp, S.conforms_def(ct, cls, R, v), inputs, {"cls": cls},
                  text="substituting v into S % v does not raise")
        same = z3.And(*[S.prop(R2, n) == S.prop(R, n) for n in S.PROP_NAMES[cls]])
        lc.oblige(f"{cls}:idempotent", hyp + _updated_view(ct, cls, R2, R, v), same, inputs, {"cls": cls},
                  text="(S % v) % v equals S % v")


# ----------------------------------------------------------------------------- from_native (C14)
denotes = z3.Function("denotes", Obj, Obj, M.B)
"""denotes(x, w): w is `the same plain value` as x -- same kind, content, length, key set and members,
leaving aside bool/int identification (True == 1) and the documented float tolerance (C14)."""


def plain(ct, x: Any) -> Any:
    """kinds from_native accepts at this level (members are checked recursively by the code)"""
    is_uuid4 = z3.And(M.isinstance_f(ct, x, "UUID"), M.py_eq(M.attr("version")(x), M.mk_int(4)))
    return z3.Or(M.is_NoneV(x), M.is_BoolV(x), M.is_IntV(x), M.is_floatk(x), M.is_StrV(x), M.is_BytesV(x),
                 M.isinstance_f(ct, x, "list"), M.isinstance_f(ct, x, "dict"), is_uuid4,
                 M.isinstance_f(ct, x, "date"))


def denotes_def(ct, x: Any, w: Any) -> Any:
    j = z3.Int("dj")
    k = z3.Const("dk2", Obj)
    is_uuid4 = z3.And(M.isinstance_f(ct, x, "UUID"), M.py_eq(M.attr("version")(x), M.mk_int(4)))
    return z3.If(M.is_NoneV(x), M.is_NoneV(w),
           z3.If(M.is_BoolV(x), z3.And(M.is_BoolV(w), M.py_eq(w, x)),
           z3.If(M.is_IntV(x), z3.And(M.is_intlike(w), M.py_eq(w, x)),
           z3.If(M.is_floatk(x), z3.And(M.is_floatk(w), M.isclose_f(w, x)),
           z3.If(M.is_StrV(x), z3.And(M.is_StrV(w), M.py_eq(w, x)),
           z3.If(M.isinstance_f(ct, x, "list"),
                 z3.And(M.isinstance_f(ct, w, "list"), M.llen(w) == M.llen(x),
                        z3.ForAll([j], z3.Implies(z3.And(0 <= j, j < M.llen(x)), denotes(M.lat(x, j), M.lat(w, j))),
                                  patterns=[M.lat(x, j)])),
           z3.If(M.isinstance_f(ct, x, "dict"),
                 z3.And(M.isinstance_f(ct, w, "dict"),
                        z3.ForAll([k], M.has(w, k) == M.has(x, k), patterns=[M.has(w, k)]),
                        z3.ForAll([k], z3.Implies(M.has(x, k), denotes(M.dget(x, k), M.dget(w, k))),
                                  patterns=[M.has(x, k)])),
           z3.If(M.is_BytesV(x), z3.And(M.is_BytesV(w), M.py_eq(w, x)),
           z3.If(is_uuid4, z3.And(M.isinstance_f(ct, w, "UUID"), M.py_eq(M.attr("version")(w), M.mk_int(4)),
                                  M.py_eq(w, x)),
           z3.If(M.isinstance_f(ct, x, "datetime"), z3.And(M.isinstance_f(ct, w, "datetime"), M.py_eq(w, x)),
           z3.If(M.isinstance_f(ct, x, "date"), z3.And(M.isinstance_f(ct, w, "date"), M.py_eq(w, x)),
                 False)))))))))))


plain_keys = z3.Function("plain_keys", Obj, M.B)
"""plain_keys(x): every dict inside x (at any depth) has only plain keys -- no `...`, no optional(...).
This is the domain of C14 (`plain value`); outside it from_native may leak DeclarationError or build
optional keys (recorded in DESIGN, not claimed)."""


def plain_keys_def(ct, x: Any) -> Any:
    from .declaration import plain_key
    j = z3.Int("pj")
    k = z3.Const("pk", Obj)
    return z3.If(M.isinstance_f(ct, x, "list"),
                 z3.ForAll([j], z3.Implies(z3.And(0 <= j, j < M.llen(x)), plain_keys(M.lat(x, j))),
                           patterns=[M.lat(x, j)]),
           z3.If(M.isinstance_f(ct, x, "dict"),
                 z3.ForAll([k], z3.Implies(M.has(x, k), z3.And(plain_key(ct, k), plain_keys(M.dget(x, k)))),
                           patterns=[M.has(x, k)]),
                 True))


def _denotes_axioms(ct) -> List[Any]:
    x, w = z3.Consts("dnx dnw", Obj)
    return [z3.ForAll([x, w], denotes(x, w) == denotes_def(ct, x, w), patterns=[denotes(x, w)]),
            z3.ForAll([x], plain_keys(x) == plain_keys_def(ct, x), patterns=[plain_keys(x)])]


from pyvc.contracts import REG as _REG  # noqa: E402
_REG.axiom_fns.append(_denotes_axioms)


@contract(FN, "from_native", props=("C14", "C04", "C12", "C07", "C17"), group="substitutor")
def _from_native(c):
    ct = c.ct
    c.reproducible()
    x = c.sym("value")
    c.requires(S.deep_range(x), "float-repr")
    c.raises("ValueError", "DeclarationError", props=("C14", "C12"))
    c.returns(None)
    w = z3.Const("fw", Obj)
    c.ensures("is-schema", lambda r, post: z3.And(S.is_schema(ct, r), S.wf(r), S.reach(r)), ("C14", "C04"))
    c.ensures("denotes", lambda r, post: z3.Implies(plain_keys(x), z3.ForAll(
        [w], S.conforms(r, w) == denotes(x, w), patterns=[S.conforms(r, w)])), ("C14",))
    c.ensures("plain", lambda r, post: plain(ct, x), ("C14",))
    c.ensures_exc("DeclarationError", "only-outside-the-plain-domain",
                  lambda e, post: z3.Not(plain_keys(x)), ("C14", "C12"))
    c.meta = {"fn": "from_native"}


@lemma("C14.denotes", props=("C14",))
def _c14(lc):
    """Over the contract of from_native (conforms(from_native(x), w) <=> denotes(x, w)) and the
    definition of denotes: from_native(x) accepts x itself (reflexivity, by structural induction: the
    members' reflexivity is the induction hypothesis), hence -- with the generator contract
    conforms(R, fake(R)) -- generates a value that denotes x."""
    ct = lc.ct
    x = z3.Const("x", Obj)
    j = z3.Int("j")
    k = z3.Const("k", Obj)
    ih_list = z3.ForAll([j], z3.Implies(z3.And(0 <= j, j < M.llen(x)), denotes(M.lat(x, j), M.lat(x, j))),
                        patterns=[M.lat(x, j)])
    ih_dict = z3.ForAll([k], z3.Implies(M.has(x, k), denotes(M.dget(x, k), M.dget(x, k))), patterns=[M.has(x, k)])
    hyp = [plain(ct, x), z3.Implies(M.isinstance_f(ct, x, "list"), ih_list),
           z3.Implies(M.isinstance_f(ct, x, "dict"), ih_dict)] + _denotes_axioms(ct)
    if "C14-nan" in ACTIVE():
        hyp.append(z3.Not(M.is_FNanV(x)))
    lc.oblige("reflexive", hyp, denotes(x, x), {"value": x}, {},
              text="from_native(x) accepts x (given it accepts the members of x)")


# ----------------------------------------------------------------------------- container substitution: exact functional contracts
# The member substitutions are the uninterpreted functions of Accept[Substitutor] (custom.subres / subraises): a
# container visit is specified by *which* member results it assembles, in which order and when it raises.  The
# semantic statements (C04 pins, C05 narrows, C12) are lemmas over these contracts with the members' statements as
# induction hypothesis.
from .custom import subraises, subres  # noqa: E402


@contract(SUB, "Substitutor.visit_type_alias", props=("C04", "C05", "C12", "C07"), group="substitutor")
def _sub_alias(c):
    ct = c.ct
    c.built_self("Substitutor")
    Sx = c.sym("schema", "TypeAliasSchema")
    v = c.sym("value")
    kw = c.kwargs()
    for f in S.reach_def(ct, "TypeAliasSchema", Sx):
        c.requires(f)
    t = S.prop(Sx, "type")
    c.requires(M.has(S.reg_of(Sx), S.S_("type")), "alias-has-a-type")      # SchemaFacade.alias always sets it
    c.paths()
    c.raises("SubstitutionError", props=("C12",))
    c.raises_when("SubstitutionError", subraises(t, v, kw))
    c.returns("TypeAliasSchema")
    c.ensures("registry", lambda r, post: S.registry_is(ct, "TypeAliasSchema", r, Sx, {"type": subres(t, v, kw)}),
              ("C04", "C05", "C12"))
    c.ensures("same-class", lambda r, post: z3.And(S.is_schema(ct, r), M.rcls(r) == M.rcls(Sx)), ("C12", "C07"))
    c.meta = {"cls": "TypeAliasSchema"}


@contract(SUB, "Substitutor._from_native", props=("C12", "C04", "C07"), group="substitutor")
def _sub_from_native(c):
    """the wrapper turns every refusal of from_native into SubstitutionError; otherwise from_native's result"""
    ct = c.ct
    c.built_self("Substitutor")
    x = c.sym("value")
    c.requires(S.deep_range(x), "float-repr")
    c.raises("SubstitutionError", props=("C12",))
    c.returns(None)
    w = z3.Const("sfw", Obj)
    c.ensures("is-schema", lambda r, post: z3.And(S.is_schema(ct, r), S.wf(r), S.reach(r)), ("C12", "C04"))
    c.ensures("denotes", lambda r, post: z3.Implies(plain_keys(x), z3.ForAll(
        [w], S.conforms(r, w) == denotes(x, w), patterns=[S.conforms(r, w)])), ("C04",))
    c.ensures("native-of", lambda r, post: native_of(x, r), ("C04", "C12"))


fn_raises = z3.Function("fn_raises", Obj, M.B)      # Substitutor._from_native(x) raises (x cannot be converted)
fn_res = z3.Function("fn_res", Obj, Obj)            # ... otherwise its result


@contract(SUB, "Substitutor.visit_any", props=("C04", "C05", "C12", "C07"), group="substitutor")
def _sub_any(c):
    """raises iff the relaxed validation fails, or types are declared and every alternative refuses; the result's
    `types` are, in order, the substitutions of the alternatives that do not refuse (from_native(v) when undeclared)"""
    ct = c.ct
    c.built_self("Substitutor")
    Sx = c.sym("schema", "AnySchema")
    v = c.sym("value")
    kw = c.kwargs()
    for f in S.reach_def(ct, "AnySchema", Sx):
        c.requires(f)
    c.requires(S.deep_range(v), "float-repr")
    T_ = S.prop(Sx, "types")
    n = M.llen(T_)
    j, k = z3.Ints("saj sak")
    all_refuse = z3.ForAll([j], z3.Implies(z3.And(0 <= j, j < n), subraises(M.lat(T_, j), v, kw)), patterns=[M.lat(T_, j)])
    c.paths()
    c.raises("SubstitutionError", props=("C12",))
    c.ensures_exc("SubstitutionError", "only-when-invalid-or-nothing-fits",
                  lambda e, post: z3.Or(z3.Not(V.rvalid(Sx, v)), z3.And(T_ != M.NilV, all_refuse), T_ == M.NilV), ("C12",))
    c.returns("AnySchema")
    c.ensures("same-class", lambda r, post: z3.And(S.is_schema(ct, r), M.rcls(r) == M.rcls(Sx)), ("C12", "C07"))

    def types_post(r, post):
        R = S.prop(r, "types")
        m = M.llen(R)
        return z3.And(
            V.rvalid(Sx, v), M.isinstance_f(ct, R, "tuple"), m >= 1,
            z3.Implies(T_ != M.NilV, z3.And(
                # every member is the substitution of an alternative that does not refuse ...
                z3.ForAll([k], z3.Implies(z3.And(0 <= k, k < m), z3.Exists([j], z3.And(
                    0 <= j, j < n, z3.Not(subraises(M.lat(T_, j), v, kw)), M.lat(R, k) == subres(M.lat(T_, j), v, kw)),
                    patterns=[M.lat(T_, j)])), patterns=[M.lat(R, k)]),
                # ... and none of those is left out   (the order is not specified here)
                z3.ForAll([j], z3.Implies(z3.And(0 <= j, j < n, z3.Not(subraises(M.lat(T_, j), v, kw))),
                                          z3.Exists([k], z3.And(0 <= k, k < m, M.lat(R, k) == subres(M.lat(T_, j), v, kw)),
                                                    patterns=[M.lat(R, k)])), patterns=[M.lat(T_, j)]))))
    c.ensures("types", types_post, ("C04", "C05", "C12"))
    c.meta = {"cls": "AnySchema"}


@invariant(SUB, "Substitutor.visit_any", loop=0)
def _inv_sub_any(L):
    """L20: `types` holds exactly the substitutions of the alternatives seen so far that do not refuse"""
    ct = L.ct
    ty, Sx, v = L.v("types"), L.v("schema"), L.v("value")
    kw = L.v("kwargs")
    T_ = S.prop(Sx, "types")
    j, k = z3.Ints("lj lk")
    m = M.llen(ty)
    return z3.And(
        M.is_Ref(ty), M.rcls(ty) == ct.id("list"), m <= L.i,
        z3.ForAll([k], z3.Implies(z3.And(0 <= k, k < m), z3.Exists([j], z3.And(
            0 <= j, j < L.i, z3.Not(subraises(M.lat(T_, j), v, kw)), M.lat(ty, k) == subres(M.lat(T_, j), v, kw)),
            patterns=[M.lat(T_, j)])), patterns=[M.lat(ty, k)]),
        z3.ForAll([j], z3.Implies(z3.And(0 <= j, j < L.i, z3.Not(subraises(M.lat(T_, j), v, kw))),
                                  z3.Exists([k], z3.And(0 <= k, k < m, M.lat(ty, k) == subres(M.lat(T_, j), v, kw)),
                                            patterns=[M.lat(ty, k)])), patterns=[M.lat(T_, j)]))


native_of = z3.Function("native_of", Obj, Obj, M.B)
"""native_of(x, r): r is what Substitutor._from_native(x) returns: a usable schema that (for a plain value x) accepts
exactly the values denoting x"""


def _native_axioms(ct) -> List[Any]:
    x, r, w = z3.Consts("nox nor now", Obj)
    return [z3.ForAll([x, r], native_of(x, r) == z3.And(
        S.is_schema(ct, r), S.wf(r), S.reach(r),
        z3.Implies(plain_keys(x), z3.ForAll([w], S.conforms(r, w) == denotes(x, w), patterns=[S.conforms(r, w)]))),
        patterns=[native_of(x, r)])]


_REG.axiom_fns.append(_native_axioms)


@contract(SUB, "Substitutor._substitute_elements", props=("C04", "C05", "C12", "C07"), group="substitutor")
def _sub_elements(c):
    """positional contract: the result has one schema per element of `value`; inside the window
    [start, start + len(elements)) it is the member substitution elements[q] % value[start + q], outside it is
    from_native(value[i]).  Raises SubstitutionError only."""
    ct = c.ct
    c.built_self("Substitutor")
    v = c.sym("value", "list")
    E = c.sym("elements", "list")
    st0 = c.sym("start", "int") if c.has_arg("start") or c.mode == "verify" else M.mk_int(0)
    kw = c.kwargs()
    j = z3.Int("sej")
    c.requires(z3.And(M.isinstance_f(ct, v, "list"), M.is_Ref(E), M.rcls(E) == ct.id("list")), "lists")
    c.requires(z3.And(M.is_IntV(st0), M.ival(st0) >= 0, M.ival(st0) <= M.llen(v)), "start-within-value")
    c.requires(z3.ForAll([j], z3.Implies(z3.And(0 <= j, j < M.llen(E)), z3.And(
        S.is_schema(ct, M.lat(E, j)), S.wf(M.lat(E, j)), S.reach(M.lat(E, j)))), patterns=[M.lat(E, j)]), "element-schemas")
    c.requires(S.deep_range(v), "float-repr")
    s0, ne, n = M.ival(st0), M.llen(E), M.llen(v)
    c.paths()
    c.raises("SubstitutionError", props=("C12",))
    c.returns("list")

    def post(r, post_):
        return z3.And(
            M.is_Ref(r), M.rcls(r) == ct.id("list"), M.llen(r) == n, s0 + ne <= n,
            z3.ForAll([j], z3.Implies(z3.And(0 <= j, j < n), z3.If(
                z3.And(s0 <= j, j < s0 + ne),
                z3.And(z3.Not(subraises(M.lat(E, j - s0), M.lat(v, j), kw)),
                       M.lat(r, j) == subres(M.lat(E, j - s0), M.lat(v, j), kw)),
                native_of(M.lat(v, j), M.lat(r, j)))), patterns=[M.lat(r, j)]))
    c.ensures("positions", post, ("C04", "C05", "C12"))
    c.ensures("window-marker", lambda r, post_: win_at(r, s0), ("C12",))
    c.fresh_result = True


@invariant(SUB, "Substitutor._substitute_elements", loop=0)
def _inv_se0(L):
    """L21: one member substitution per element schema seen so far, at the window position"""
    ct = L.ct
    R, v, E = L.v("substituted"), L.v("value"), L.v("elements")
    s0 = M.int_of(L.v("start"))
    kw = L.v("kwargs")
    j = z3.Int("l1j")
    return z3.And(M.is_Ref(R), M.rcls(R) == ct.id("list"), M.llen(R) == L.i, s0 + L.i <= M.llen(v),
                  z3.ForAll([j], z3.Implies(z3.And(0 <= j, j < L.i), z3.And(
                      z3.Not(subraises(M.lat(E, j), M.lat(v, s0 + j), kw)),
                      M.lat(R, j) == subres(M.lat(E, j), M.lat(v, s0 + j), kw))), patterns=[M.lat(R, j), M.lat(E, j)]))


@invariant(SUB, "Substitutor._substitute_elements", loop=1)
def _inv_se1(L):
    """L22: after the window come the from_native schemas of the values behind it"""
    ct = L.ct
    R, v, E = L.v("substituted"), L.v("value"), L.v("elements")
    s0 = M.int_of(L.v("start"))
    kw = L.v("kwargs")
    ne = M.llen(E)
    j = z3.Int("l2j")
    return z3.And(M.is_Ref(R), M.rcls(R) == ct.id("list"), M.llen(R) == ne + L.i, s0 + ne + L.i <= M.llen(v),
                  z3.ForAll([j], z3.Implies(z3.And(0 <= j, j < ne + L.i), z3.If(
                      j < ne,
                      z3.And(z3.Not(subraises(M.lat(E, j), M.lat(v, s0 + j), kw)),
                             M.lat(R, j) == subres(M.lat(E, j), M.lat(v, s0 + j), kw)),
                      native_of(M.lat(v, s0 + j), M.lat(R, j)))), patterns=[M.lat(R, j)]))


@invariant(SUB, "Substitutor._substitute_elements", loop=2)
def _inv_se2(L):
    """L23: the from_native schemas of the values before the window are inserted in front, in order"""
    ct = L.ct
    R, v, E = L.v("substituted"), L.v("value"), L.v("elements")
    s0 = M.int_of(L.v("start"))
    kw = L.v("kwargs")
    ne, n = M.llen(E), M.llen(v)
    j = z3.Int("l3j")
    return z3.And(M.is_Ref(R), M.rcls(R) == ct.id("list"), M.llen(R) == n - s0 + L.i, s0 + ne <= n, L.i <= s0,
                  z3.ForAll([j], z3.Implies(z3.And(0 <= j, j < n - s0 + L.i), z3.If(
                      j < L.i, native_of(M.lat(v, j), M.lat(R, j)),
                      z3.If(j < L.i + ne,
                            z3.And(z3.Not(subraises(M.lat(E, j - L.i), M.lat(v, s0 + j - L.i), kw)),
                                   M.lat(R, j) == subres(M.lat(E, j - L.i), M.lat(v, s0 + j - L.i), kw)),
                            native_of(M.lat(v, s0 + j - L.i), M.lat(R, j))))), patterns=[M.lat(R, j)]))


# ----------------------------------------------------------------------------- Substitutor.visit_dict
def _pair(ct, p: Any, first: Any, flag: Any) -> Any:
    return z3.And(M.is_Ref(p), M.rcls(p) == ct.id("tuple"), M.llen(p) == 2, first(M.lat(p, 0)), M.lat(p, 1) == flag)


def dict_untyped_entry(ct, v: Any, x: Any, pair: Any) -> Any:
    """entry built for key x of the value when the schema declares no keys: (from_native(v[x]) or `...`, False)"""
    vx = M.dget(v, x)
    return _pair(ct, pair, lambda m: z3.If(vx == M.EllV, m == M.EllV, native_of(vx, m)), M.mk_bool(False))


def dict_keyed_entry(ct, K: Any, v: Any, kw: Any, x: Any, pair: Any) -> Any:
    """entry built for declared key x: the member substituted with v[x] and made required when x is given (kept as it
    is for a `...` placeholder), otherwise the declared (member, optional) pair"""
    old = M.dget(K, x)
    m0, vx = M.lat(old, 0), M.dget(v, x)
    given = z3.And(M.has(v, x), vx != M.EllV)
    return z3.If(M.has(v, x),
                 _pair(ct, pair, lambda m: z3.If(vx == M.EllV, m == m0, z3.And(z3.Not(subraises(m0, vx, kw)),
                                                                               m == subres(m0, vx, kw))), M.mk_bool(False)),
                 _pair(ct, pair, lambda m: m == m0, M.lat(old, 1)))


@contract(SUB, "Substitutor.visit_dict", props=("C04", "C05", "C12", "C07"), group="substitutor")
def _sub_dict(c):
    ct = c.ct
    c.built_self("Substitutor")
    Sx = c.sym("schema", "DictSchema")
    v = c.sym("value")
    kw = c.kwargs()
    for f in S.reach_def(ct, "DictSchema", Sx):
        c.requires(f)
    c.requires(S.deep_range(v), "float-repr")
    K = S.prop(Sx, "keys")
    x = z3.Const("sdx", Obj)
    j = z3.Int("sdj")
    untyped = z3.Or(K == M.NilV, z3.And(M.klen(K) == 1, M.has(K, M.EllV)))
    c.paths()
    c.raises("SubstitutionError", props=("C12",))
    c.returns("DictSchema")
    c.ensures("same-class", lambda r, post: z3.And(S.is_schema(ct, r), M.rcls(r) == M.rcls(Sx)), ("C12", "C07"))

    def post(r, post_):
        R = S.prop(r, "keys")
        pair = M.dget(R, x)
        return z3.And(
            V.rvalid(Sx, v), M.isinstance_f(ct, v, "dict"), M.isinstance_f(ct, R, "dict"),
            z3.If(untyped,
                  z3.And(z3.ForAll([x], M.has(R, x) == z3.Or(M.has(v, x), z3.And(x == M.EllV, K != M.NilV)), patterns=[M.has(R, x)]),
                         z3.ForAll([x], z3.Implies(z3.And(M.has(v, x), z3.Not(z3.And(x == M.EllV, K != M.NilV))),
                                                   dict_untyped_entry(ct, v, x, pair)), patterns=[M.dget(R, x)]),
                         # a relaxed schema stays relaxed (this entry replaces whatever the value gave for `...`)
                         z3.Implies(K != M.NilV, _pair(ct, M.dget(R, M.EllV), lambda m: m == M.EllV, M.mk_bool(False)))),
                  z3.And(z3.Not(M.has(v, M.EllV)),
                         # the declared keys, in the declared order; no key of the value is unknown
                         M.klen(R) == M.klen(K),
                         z3.ForAll([j], z3.Implies(z3.And(0 <= j, j < M.klen(K)), M.kat(R, j) == M.kat(K, j)), patterns=[M.kat(R, j)]),
                         z3.ForAll([x], M.has(R, x) == M.has(K, x), patterns=[M.has(R, x)]),
                         z3.ForAll([x], z3.Implies(M.has(v, x), M.has(K, x)), patterns=[M.has(v, x)]),
                         z3.ForAll([x], z3.Implies(M.has(K, x), dict_keyed_entry(ct, K, v, kw, x, pair)), patterns=[M.dget(R, x)]))))
    c.ensures("keys", post, ("C04", "C05", "C12"))
    c.meta = {"cls": "DictSchema"}


@invariant(SUB, "Substitutor.visit_dict", loop=0)
def _inv_sd0(L):
    """L24 (no declared keys): one entry per item of the value seen so far"""
    ct = L.ct
    keys, v = L.v("keys"), L.v("value")
    x = z3.Const("l4x", Obj)
    return z3.And(M.is_Ref(keys), M.rcls(keys) == ct.id("dict"),
                  z3.ForAll([x], M.has(keys, x) == z3.And(M.has(v, x), M.kidx(v, x) < L.i), patterns=[M.has(keys, x)]),
                  z3.ForAll([x], z3.Implies(M.has(keys, x), dict_untyped_entry(ct, v, x, M.dget(keys, x))),
                            patterns=[M.dget(keys, x)]))


@invariant(SUB, "Substitutor.visit_dict", loop=1)
def _inv_sd1(L):
    """L25 (declared keys): the declared keys seen so far, in order, each with its substituted / kept entry"""
    ct = L.ct
    keys, v, Sx = L.v("keys"), L.v("value"), L.v("schema")
    kw = L.v("kwargs")
    K = S.prop(Sx, "keys")
    x = z3.Const("l5x", Obj)
    j = z3.Int("l5j")
    return z3.And(M.is_Ref(keys), M.rcls(keys) == ct.id("dict"), M.klen(keys) == L.i,
                  z3.ForAll([j], z3.Implies(z3.And(0 <= j, j < L.i), M.kat(keys, j) == M.kat(K, j)), patterns=[M.kat(keys, j)]),
                  z3.ForAll([x], M.has(keys, x) == z3.And(M.has(K, x), M.kidx(K, x) < L.i), patterns=[M.has(keys, x)]),
                  z3.ForAll([x], z3.Implies(M.has(keys, x), dict_keyed_entry(ct, K, v, kw, x, M.dget(keys, x))),
                            patterns=[M.dget(keys, x)]))


@invariant(SUB, "Substitutor.visit_dict", loop=2)
def _inv_sd2(L):
    """L26: every key of the value seen so far is declared"""
    v, Sx = L.v("value"), L.v("schema")
    K = S.prop(Sx, "keys")
    j = z3.Int("l6j")
    return z3.ForAll([j], z3.Implies(z3.And(0 <= j, j < L.i), M.has(K, M.kat(v, j))), patterns=[M.kat(v, j)])


# ----------------------------------------------------------------------------- Substitutor.visit_list
win_at = z3.Function("win_at", Obj, M.I, M.B)
"""constant-true marker: `win_at(result, start)` names the window position _substitute_elements used, so that the
existential in the postcondition of visit_list has a term to be instantiated with (trigger-only, adds no fact)"""


def _win_axioms(ct) -> List[Any]:
    r = z3.Const("war", Obj)
    s = z3.Int("was")
    return [z3.ForAll([r, s], win_at(r, s), patterns=[win_at(r, s)])]


_REG.axiom_fns.append(_win_axioms)


def window_positions(ct, R: Any, v: Any, E: Any, off: Any, ne: Any, s0: Any, kw: Any) -> Any:
    j = z3.Int("wpj")
    n = M.llen(v)
    return z3.And(0 <= s0, s0 + ne <= n, z3.ForAll([j], z3.Implies(z3.And(0 <= j, j < n), z3.If(
        z3.And(s0 <= j, j < s0 + ne),
        z3.And(z3.Not(subraises(M.lat(E, off + j - s0), M.lat(v, j), kw)),
               M.lat(R, j) == subres(M.lat(E, off + j - s0), M.lat(v, j), kw)),
        native_of(M.lat(v, j), M.lat(R, j)))), patterns=[M.lat(R, j)]))


@contract(SUB, "Substitutor.visit_list", props=("C04", "C05", "C12", "C07"), group="substitutor")
def _sub_list(c):
    ct = c.ct
    c.built_self("Substitutor")
    Sx = c.sym("schema", "ListSchema")
    v = c.sym("value")
    kw = c.kwargs()
    for f in S.reach_def(ct, "ListSchema", Sx):
        c.requires(f)
    c.requires(S.deep_range(v), "float-repr")
    E, Ty = S.prop(Sx, "elements"), S.prop(Sx, "type")
    n, m = M.llen(v), M.llen(E)
    j = z3.Int("slj")
    s0 = z3.Int("sls0")
    c.paths()
    c.raises("SubstitutionError", props=("C12",))
    c.returns("ListSchema")
    c.ensures("same-class", lambda r, post: z3.And(S.is_schema(ct, r), M.rcls(r) == M.rcls(Sx)), ("C12", "C07"))
    # (when the conversion of a member fails is not characterised, so refusals are pinned down only where no member is
    # involved: an empty list that passes the relaxed validation of an element-less schema is never refused)
    c.ensures_exc("SubstitutionError", "not-for-an-empty-valid-value",
                  lambda e, post: z3.Or(z3.Not(V.rvalid(Sx, v)), M.llen(v) > 0, E != M.NilV), ("C12",))
    e0, el = M.lat(E, 0) == M.EllV, M.lat(E, m - 1) == M.EllV
    body = z3.And(m > 2, e0, el)
    head = z3.And(z3.Not(body), m >= 2, el)
    tail = z3.And(z3.Not(body), z3.Not(head), m >= 1, e0)

    def post(r, post_):
        R = S.prop(r, "elements")
        member = lambda jj, fn: z3.If(M.lat(v, jj) == M.EllV, M.lat(R, jj) == M.EllV, fn(M.lat(v, jj), M.lat(R, jj)))
        no_ell = z3.ForAll([j], z3.Implies(z3.And(0 <= j, j < n), M.lat(v, j) != M.EllV), patterns=[M.lat(v, j)])
        win = lambda off, ne, cond: z3.Exists([s0], z3.And(win_at(R, s0), cond(s0),
                                                           window_positions(ct, R, v, E, off, ne, s0, kw)),
                                              patterns=[win_at(R, s0)])
        return z3.And(
            V.rvalid(Sx, v), M.isinstance_f(ct, v, "list"), M.isinstance_f(ct, R, "list"), M.llen(R) == n,
            *[S.prop(r, nm) == S.prop(Sx, nm) for nm in ("len", "min_len", "max_len")],
            S.prop(r, "type") == M.NilV,
            # a non-empty value made of `...` only is refused
            z3.Implies(n > 0, z3.Exists([j], z3.And(0 <= j, j < n, M.lat(v, j) != M.EllV), patterns=[M.lat(v, j)])),
            # one implication per case (the discharger proves them as separate leaves)
            z3.Implies(z3.And(E == M.NilV, Ty == M.NilV),
                       z3.ForAll([j], z3.Implies(z3.And(0 <= j, j < n), member(j, native_of)), patterns=[M.lat(R, j)])),
            z3.Implies(Ty != M.NilV,
                       z3.ForAll([j], z3.Implies(z3.And(0 <= j, j < n), member(j, lambda x, mm: z3.And(
                           z3.Not(subraises(Ty, x, kw)), mm == subres(Ty, x, kw)))), patterns=[M.lat(R, j)])),
            z3.Implies(z3.And(Ty == M.NilV, E != M.NilV), no_ell),
            z3.Implies(z3.And(Ty == M.NilV, E != M.NilV, body), win(1, m - 2, lambda s: s < n)),
            z3.Implies(z3.And(Ty == M.NilV, E != M.NilV, head), win(0, m - 1, lambda s: s == 0)),
            z3.Implies(z3.And(Ty == M.NilV, E != M.NilV, tail),
                       win(1, m - 1, lambda s: s == z3.If(n - (m - 1) > 0, n - (m - 1), 0))),
            z3.Implies(z3.And(Ty == M.NilV, E != M.NilV, z3.Not(body), z3.Not(head), z3.Not(tail)),
                       win(0, m, lambda s: s == 0)))
    c.ensures("elements", post, ("C04", "C05", "C12"))
    c.meta = {"cls": "ListSchema"}


@invariant(SUB, "Substitutor.visit_list", loop=0)
def _inv_sl0(L):
    """L27 (untyped list): one from_native schema (or the kept `...`) per element seen so far"""
    ct = L.ct
    R, v = L.v("elements"), L.v("value")
    j = z3.Int("l7j")
    return z3.And(M.is_Ref(R), M.rcls(R) == ct.id("list"), M.llen(R) == L.i,
                  z3.ForAll([j], z3.Implies(z3.And(0 <= j, j < L.i), z3.If(
                      M.lat(v, j) == M.EllV, M.lat(R, j) == M.EllV, native_of(M.lat(v, j), M.lat(R, j)))),
                      patterns=[M.lat(R, j)]))


@invariant(SUB, "Substitutor.visit_list", loop=1)
def _inv_sl1(L):
    """L28 (typed list): one member substitution (or the kept `...`) per element seen so far"""
    ct = L.ct
    R, v, Sx = L.v("elements"), L.v("value"), L.v("schema")
    kw = L.v("kwargs")
    Ty = S.prop(Sx, "type")
    j = z3.Int("l8j")
    return z3.And(M.is_Ref(R), M.rcls(R) == ct.id("list"), M.llen(R) == L.i,
                  z3.ForAll([j], z3.Implies(z3.And(0 <= j, j < L.i), z3.If(
                      M.lat(v, j) == M.EllV, M.lat(R, j) == M.EllV,
                      z3.And(z3.Not(subraises(Ty, M.lat(v, j), kw)), M.lat(R, j) == subres(Ty, M.lat(v, j), kw)))),
                      patterns=[M.lat(R, j)]))


@invariant(SUB, "Substitutor.visit_list", loop=2)
def _inv_sl2(L):
    """L29 (contains form): nothing is carried from one candidate position to the next (the parameters are not rebound)"""
    return z3.And(*[L.v(nm) == L.pre(nm) for nm in ("schema", "value", "elements")])
