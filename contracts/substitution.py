"""Contracts for d42/substitution and d42/utils/_from_native.py (C04 pins, C05 narrows, C12 only
SubstitutionError + idempotent, C14 from_native denotes the value)."""
from __future__ import annotations

from typing import Any, Dict, List

import z3

from pyvc import model as M
from pyvc.contracts import accept_contract, contract, invariant, lemma, transparent
from pyvc.model import Obj

from . import spec as S
from . import validation as V

SUB = "d42/substitution/_substitutor.py"
SVAL = "d42/substitution/_validator.py"
SERR = "d42/substitution/errors/__init__.py"
FN = "d42/utils/_from_native.py"

def ACTIVE():
    from pyvc.contracts import REG
    return getattr(REG, "active_regions", set())


transparent(SUB, "Substitutor.__init__", "Substitutor.validator", "Substitutor.formatter")


@contract(SERR, "make_substitution_error", props=("C12", "C08"), group="substitutor")
def _make_substitution_error(c):
    ct = c.ct
    r0 = c.sym("result", "ValidationResult")
    fm = c.sym("formatter", "Formatter")
    c.requires(z3.And(*S.is_result(ct, r0)), "is-result")
    c.requires(V.errs_alloc(S.errors_of(r0), c.pre_alloc), "errors-wf")
    c.requires(z3.And(M.is_Ref(fm), M.rcls(fm) == ct.id("Formatter")), "formatter")
    c.paths()
    c.raises(props=("C12",))
    c.returns("SubstitutionError")
    c.ensures("is-substitution-error", lambda r, post: z3.And(M.is_Ref(r), M.rcls(r) == ct.id("SubstitutionError")))
    c.ensures("path-frame", lambda r, post: V.path_frame(post), ("C07",))


SCALARS = [("visit_none", "NoneSchema"), ("visit_bool", "BoolSchema"), ("visit_int", "IntSchema"),
           ("visit_float", "FloatSchema"), ("visit_str", "StrSchema"), ("visit_bytes", "BytesSchema"),
           ("visit_uuid4", "UUID4Schema"), ("visit_datetime", "DateTimeSchema"), ("visit_date", "DateSchema")]


def sub_scalar(cls: str):
    def body(c):
        ct = c.ct
        c.built_self("Substitutor")
        Sx = c.sym("schema", cls)
        v = c.sym("value")
        c.kwargs()
        for f in S.reach_def(ct, cls, Sx):
            c.requires(f)
        c.requires(S.deep_range(v), "float-repr")
        c.paths()
        c.raises("SubstitutionError", props=("C12", "C04", "C05"))
        c.reproducible()      # C17
        c.raises_when("SubstitutionError", z3.Not(S.conforms_def(ct, cls, Sx, v)))
        c.returns(cls)
        upd = {} if cls == "NoneSchema" else {"value": v}
        c.ensures("registry", lambda r, post: S.registry_is(ct, cls, r, Sx, upd), ("C04", "C05", "C12"))
        c.ensures("unfold", lambda r, post: S.unfold_defs(ct, cls, r), ("C04",))
        c.ensures("path-frame", lambda r, post: V.path_frame(post), ("C07",))
        c.ensures("same-class", lambda r, post: z3.And(S.is_schema(ct, r), M.rcls(r) == M.rcls(Sx)), ("C12", "C07"))
        c.meta = {"cls": cls}
    return body


for _m, _cls in SCALARS:
    contract(SUB, f"Substitutor.{_m}", props=("C04", "C05", "C12", "C07", "C17"), group="substitutor")(sub_scalar(_cls))


# ----------------------------------------------------------------------------- lemmas over the scalar contracts
def pins_scalar(ct, cls: str, Sx: Any, v: Any, w: Any) -> Any:
    """`w carries the substituted data`: equal scalars (float: under the schema's tolerance)"""
    if cls == "NoneSchema":
        return M.is_NoneV(w)
    if cls == "FloatSchema":
        return S.feq(w, v, S.prop(Sx, "precision"))
    return M.py_eq(w, v)


def _updated_view(ct, cls: str, R: Any, Sx: Any, v: Any) -> List[Any]:
    upd = {} if cls == "NoneSchema" else {"value": v}
    return [S.registry_is(ct, cls, R, Sx, upd)]


@lemma("C04.scalars", props=("C04",))
def _c04_scalars(lc):
    """From the exact contract of Substitutor.visit_<scalar> (no SubstitutionError <=> conforms(S, v);
    result = S with value := v): the result accepts v, and everything it accepts is pinned to v."""
    ct = lc.ct
    for _, cls in SCALARS:
        Sx, R, v, w = z3.Consts(f"S_{cls} R_{cls} v w", Obj)
        hyp = list(S.reach_def(ct, cls, Sx)) + [S.conforms_def(ct, cls, Sx, v), S.float_range(v), S.float_range(w)]
        hyp += _updated_view(ct, cls, R, Sx, v)
        inputs = {"schema": Sx, "value": v, "w": w}
        meta = {"cls": cls}
        nan_region = [z3.Not(M.is_FNanV(v))] if (cls == "FloatSchema" and "C04-float-nan" in ACTIVE()) else []
        hyp = hyp + nan_region
        lc.oblige(f"{cls}:accepts-value", hyp, S.conforms_def(ct, cls, R, v), inputs, meta,
                  text="S % v accepts v (v conforms to S)")
        lc.oblige(f"{cls}:pins", hyp + [S.conforms_def(ct, cls, R, w)], pins_scalar(ct, cls, Sx, v, w), inputs, meta,
                  text="every value accepted by S % v equals v")
        lc.oblige(f"{cls}:result-reachable", hyp, z3.And(*S.reach_def(ct, cls, R)), inputs, meta,
                  text="S % v is a usable (reachable, self-consistent) schema")


@lemma("C05.scalars", props=("C05",))
def _c05_scalars(lc):
    ct = lc.ct
    for _, cls in SCALARS:
        Sx, R, v, w = z3.Consts(f"S_{cls} R_{cls} v w", Obj)
        hyp = list(S.reach_def(ct, cls, Sx)) + [S.conforms_def(ct, cls, Sx, v), S.float_range(v), S.float_range(w)]
        hyp += _updated_view(ct, cls, R, Sx, v)
        if cls == "FloatSchema" and "C05-float-tolerance" in ACTIVE():
            # known finding: isclose is not transitive -- proved outside `S already fixes a different value`
            hyp = hyp + [z3.Or(z3.Not(S.declared(Sx, "value")), S.prop(Sx, "value") == v)]
        lc.oblige(f"{cls}:narrower", hyp + [S.conforms_def(ct, cls, R, w)], S.conforms_def(ct, cls, Sx, w),
                  {"schema": Sx, "value": v, "w": w}, {"cls": cls},
                  text="every value accepted by S % v is accepted by S")


@lemma("C12.scalars", props=("C12",))
def _c12_scalars(lc):
    """idempotence: (S % v) % v does not raise and has the same registry as S % v"""
    ct = lc.ct
    for _, cls in SCALARS:
        Sx, R, R2, v = z3.Consts(f"S_{cls} R_{cls} R2_{cls} v", Obj)
        hyp = list(S.reach_def(ct, cls, Sx)) + [S.conforms_def(ct, cls, Sx, v), S.float_range(v)]
        hyp += _updated_view(ct, cls, R, Sx, v)
        inputs = {"schema": Sx, "value": v}
        if cls == "FloatSchema" and "C12-float-nan" in ACTIVE():
            hyp = hyp + [z3.Not(M.is_FNanV(v))]
        lc.oblige(f"{cls}:second-substitution-succeeds", hyp, S.conforms_def(ct, cls, R, v), inputs, {"cls": cls},
                  text="substituting v into S % v does not raise")
        same = z3.And(*[S.prop(R2, n) == S.prop(R, n) for n in S.PROP_NAMES[cls]])
        lc.oblige(f"{cls}:idempotent", hyp + _updated_view(ct, cls, R2, R, v), same, inputs, {"cls": cls},
                  text="(S % v) % v equals S % v")


# ----------------------------------------------------------------------------- from_native (C14)
denotes = z3.Function("denotes", Obj, Obj, M.B)
"""denotes(x, w): w is `the same plain value` as x -- same kind, content, length, key set and members,
leaving aside bool/int identification (True == 1) and the documented float tolerance (C14)."""


def plain(ct, x: Any) -> Any:
    """kinds from_native accepts at this level (members are checked recursively by the code)"""
    is_uuid4 = z3.And(M.isinstance_f(ct, x, "UUID"), M.py_eq(M.attr("version")(x), M.mk_int(4)))
    return z3.Or(M.is_NoneV(x), M.is_BoolV(x), M.is_IntV(x), M.is_floatk(x), M.is_StrV(x), M.is_BytesV(x),
                 M.isinstance_f(ct, x, "list"), M.isinstance_f(ct, x, "dict"), is_uuid4,
                 M.isinstance_f(ct, x, "date"))


def denotes_def(ct, x: Any, w: Any) -> Any:
    j = z3.Int("dj")
    k = z3.Const("dk2", Obj)
    is_uuid4 = z3.And(M.isinstance_f(ct, x, "UUID"), M.py_eq(M.attr("version")(x), M.mk_int(4)))
    return z3.If(M.is_NoneV(x), M.is_NoneV(w),
           z3.If(M.is_BoolV(x), z3.And(M.is_BoolV(w), M.py_eq(w, x)),
           z3.If(M.is_IntV(x), z3.And(M.is_intlike(w), M.py_eq(w, x)),
           z3.If(M.is_floatk(x), z3.And(M.is_floatk(w), M.isclose_f(w, x)),
           z3.If(M.is_StrV(x), z3.And(M.is_StrV(w), M.py_eq(w, x)),
           z3.If(M.isinstance_f(ct, x, "list"),
                 z3.And(M.isinstance_f(ct, w, "list"), M.llen(w) == M.llen(x),
                        z3.ForAll([j], z3.Implies(z3.And(0 <= j, j < M.llen(x)), denotes(M.lat(x, j), M.lat(w, j))),
                                  patterns=[M.lat(x, j)])),
           z3.If(M.isinstance_f(ct, x, "dict"),
                 z3.And(M.isinstance_f(ct, w, "dict"),
                        z3.ForAll([k], M.has(w, k) == M.has(x, k), patterns=[M.has(w, k)]),
                        z3.ForAll([k], z3.Implies(M.has(x, k), denotes(M.dget(x, k), M.dget(w, k))),
                                  patterns=[M.has(x, k)])),
           z3.If(M.is_BytesV(x), z3.And(M.is_BytesV(w), M.py_eq(w, x)),
           z3.If(is_uuid4, z3.And(M.isinstance_f(ct, w, "UUID"), M.py_eq(M.attr("version")(w), M.mk_int(4)),
                                  M.py_eq(w, x)),
           z3.If(M.isinstance_f(ct, x, "datetime"), z3.And(M.isinstance_f(ct, w, "datetime"), M.py_eq(w, x)),
           z3.If(M.isinstance_f(ct, x, "date"), z3.And(M.isinstance_f(ct, w, "date"), M.py_eq(w, x)),
                 False)))))))))))


plain_keys = z3.Function("plain_keys", Obj, M.B)
"""plain_keys(x): every dict inside x (at any depth) has only plain keys -- no `...`, no optional(...).
This is the domain of C14 (`plain value`); outside it from_native may leak DeclarationError or build
optional keys (recorded in DESIGN, not claimed)."""


def plain_keys_def(ct, x: Any) -> Any:
    from .declaration import plain_key
    j = z3.Int("pj")
    k = z3.Const("pk", Obj)
    return z3.If(M.isinstance_f(ct, x, "list"),
                 z3.ForAll([j], z3.Implies(z3.And(0 <= j, j < M.llen(x)), plain_keys(M.lat(x, j))),
                           patterns=[M.lat(x, j)]),
           z3.If(M.isinstance_f(ct, x, "dict"),
                 z3.ForAll([k], z3.Implies(M.has(x, k), z3.And(plain_key(ct, k), plain_keys(M.dget(x, k)))),
                           patterns=[M.has(x, k)]),
                 True))


def _denotes_axioms(ct) -> List[Any]:
    x, w = z3.Consts("dnx dnw", Obj)
    return [z3.ForAll([x, w], denotes(x, w) == denotes_def(ct, x, w), patterns=[denotes(x, w)]),
            z3.ForAll([x], plain_keys(x) == plain_keys_def(ct, x), patterns=[plain_keys(x)])]


from pyvc.contracts import REG as _REG  # noqa: E402
_REG.axiom_fns.append(_denotes_axioms)


@contract(FN, "from_native", props=("C14", "C04", "C12", "C07", "C17"), group="substitutor")
def _from_native(c):
    ct = c.ct
    c.reproducible()
    x = c.sym("value")
    c.requires(S.deep_range(x), "float-repr")
    c.raises("ValueError", "DeclarationError", props=("C14", "C12"))
    c.returns(None)
    w = z3.Const("fw", Obj)
    c.ensures("is-schema", lambda r, post: z3.And(S.is_schema(ct, r), S.wf(r), S.reach(r)), ("C14", "C04"))
    c.ensures("denotes", lambda r, post: z3.Implies(plain_keys(x), z3.ForAll(
        [w], S.conforms(r, w) == denotes(x, w), patterns=[S.conforms(r, w)])), ("C14",))
    c.ensures("plain", lambda r, post: plain(ct, x), ("C14",))
    c.ensures_exc("DeclarationError", "only-outside-the-plain-domain",
                  lambda e, post: z3.Not(plain_keys(x)), ("C14", "C12"))
    c.meta = {"fn": "from_native"}


@lemma("C14.denotes", props=("C14",))
def _c14(lc):
    """Over the contract of from_native (conforms(from_native(x), w) <=> denotes(x, w)) and the
    definition of denotes: from_native(x) accepts x itself (reflexivity, by structural induction: the
    members' reflexivity is the induction hypothesis), hence -- with the generator contract
    conforms(R, fake(R)) -- generates a value that denotes x."""
    ct = lc.ct
    x = z3.Const("x", Obj)
    j = z3.Int("j")
    k = z3.Const("k", Obj)
    ih_list = z3.ForAll([j], z3.Implies(z3.And(0 <= j, j < M.llen(x)), denotes(M.lat(x, j), M.lat(x, j))),
                        patterns=[M.lat(x, j)])
    ih_dict = z3.ForAll([k], z3.Implies(M.has(x, k), denotes(M.dget(x, k), M.dget(x, k))), patterns=[M.has(x, k)])
    hyp = [plain(ct, x), z3.Implies(M.isinstance_f(ct, x, "list"), ih_list),
           z3.Implies(M.isinstance_f(ct, x, "dict"), ih_dict)] + _denotes_axioms(ct)
    if "C14-nan" in ACTIVE():
        hyp.append(z3.Not(M.is_FNanV(x)))
    lc.oblige("reflexive", hyp, denotes(x, x), {"value": x}, {},
              text="from_native(x) accepts x (given it accepts the members of x)")


# ----------------------------------------------------------------------------- container substitution: exact functional contracts
# The member substitutions are the uninterpreted functions of Accept[Substitutor] (custom.subres / subraises): a
# container visit is specified by *which* member results it assembles, in which order and when it raises.  The
# semantic statements (C04 pins, C05 narrows, C12) are lemmas over these contracts with the members' statements as
# induction hypothesis.
from .custom import subraises, subres  # noqa: E402


@contract(SUB, "Substitutor.visit_type_alias", props=("C04", "C05", "C12", "C07", "C17"), group="substitutor")
def _sub_alias(c):
    ct = c.ct
    c.built_self("Substitutor")
    Sx = c.sym("schema", "TypeAliasSchema")
    v = c.sym("value")
    kw = c.kwargs()
    for f in S.reach_def(ct, "TypeAliasSchema", Sx):
        c.requires(f)
    t = S.prop(Sx, "type")
    c.requires(M.has(S.reg_of(Sx), S.S_("type")), "alias-has-a-type")      # SchemaFacade.alias always sets it
    c.paths()
    c.raises("SubstitutionError", props=("C12",))
    c.reproducible()      # C17: the schema built does not depend on the interpreter's hash seed
    c.raises_when("SubstitutionError", subraises(t, v, kw))
    c.returns("TypeAliasSchema")
    c.ensures("registry", lambda r, post: S.registry_is(ct, "TypeAliasSchema", r, Sx, {"type": subres(t, v, kw)}),
              ("C04", "C05", "C12"))
    c.ensures("same-class", lambda r, post: z3.And(S.is_schema(ct, r), M.rcls(r) == M.rcls(Sx)), ("C12", "C07"))
    c.meta = {"cls": "TypeAliasSchema"}


@contract(SUB, "Substitutor._from_native", props=("C12", "C04", "C07", "C17"), group="substitutor")
def _sub_from_native(c):
    """the wrapper turns every refusal of from_native into SubstitutionError; otherwise from_native's result"""
    ct = c.ct
    c.built_self("Substitutor")
    x = c.sym("value")
    c.requires(S.deep_range(x), "float-repr")
    c.raises("SubstitutionError", props=("C12",))
    c.reproducible()      # C17: the schema built does not depend on the interpreter's hash seed
    c.returns(None)
    w = z3.Const("sfw", Obj)
    c.ensures("is-schema", lambda r, post: z3.And(S.is_schema(ct, r), S.wf(r), S.reach(r)), ("C12", "C04"))
    c.ensures("denotes", lambda r, post: z3.Implies(plain_keys(x), z3.ForAll(
        [w], S.conforms(r, w) == denotes(x, w), patterns=[S.conforms(r, w)])), ("C04",))
    c.ensures("native-of", lambda r, post: native_of(x, r), ("C04", "C12"))


fn_raises = z3.Function("fn_raises", Obj, M.B)      # Substitutor._from_native(x) raises (x cannot be converted)
fn_res = z3.Function("fn_res", Obj, Obj)            # ... otherwise its result


@contract(SUB, "Substitutor.visit_any", props=("C04", "C05", "C12", "C07", "C17"), group="substitutor")
def _sub_any(c):
    """raises iff the relaxed validation fails, or types are declared and every alternative refuses; the result's
    `types` are, in order, the substitutions of the alternatives that do not refuse (from_native(v) when undeclared)"""
    ct = c.ct
    c.built_self("Substitutor")
    Sx = c.sym("schema", "AnySchema")
    v = c.sym("value")
    kw = c.kwargs()
    for f in S.reach_def(ct, "AnySchema", Sx):
        c.requires(f)
    c.requires(S.deep_range(v), "float-repr")
    T_ = S.prop(Sx, "types")
    n = M.llen(T_)
    j, k = z3.Ints("saj sak")
    all_refuse = z3.ForAll([j], z3.Implies(z3.And(0 <= j, j < n), subraises(M.lat(T_, j), v, kw)), patterns=[M.lat(T_, j)])
    c.paths()
    c.raises("SubstitutionError", props=("C12",))
    c.reproducible()      # C17: the schema built does not depend on the interpreter's hash seed
    c.ensures_exc("SubstitutionError", "only-when-invalid-or-nothing-fits",
                  lambda e, post: z3.Or(z3.Not(V.rvalid(Sx, v)), z3.And(T_ != M.NilV, all_refuse), T_ == M.NilV), ("C12",))
    c.returns("AnySchema")
    c.ensures("same-class", lambda r, post: z3.And(S.is_schema(ct, r), M.rcls(r) == M.rcls(Sx)), ("C12", "C07"))

    c.ensures("types", lambda r, post: any_fact(ct, Sx, v, kw, r), ("C04", "C05", "C12"))
    c.meta = {"cls": "AnySchema"}


def any_fact(ct, Sx: Any, v: Any, kw: Any, r: Any) -> Any:
    """what Substitutor.visit_any guarantees about its result (proved against the body)"""
    T_ = S.prop(Sx, "types")
    n = M.llen(T_)
    j, k = z3.Ints("saj sak")
    if True:
        R = S.prop(r, "types")
        m = M.llen(R)
        return z3.And(
            V.rvalid(Sx, v), M.isinstance_f(ct, R, "tuple"), m >= 1,
            z3.Implies(T_ != M.NilV, z3.And(
                # every member is the substitution of an alternative that does not refuse ...
                z3.ForAll([k], z3.Implies(z3.And(0 <= k, k < m), z3.Exists([j], z3.And(
                    0 <= j, j < n, z3.Not(subraises(M.lat(T_, j), v, kw)), M.lat(R, k) == subres(M.lat(T_, j), v, kw)),
                    patterns=[M.lat(T_, j)])), patterns=[M.lat(R, k)]),
                # ... and none of those is left out   (the order is not specified here)
                z3.ForAll([j], z3.Implies(z3.And(0 <= j, j < n, z3.Not(subraises(M.lat(T_, j), v, kw))),
                                          z3.Exists([k], z3.And(0 <= k, k < m, M.lat(R, k) == subres(M.lat(T_, j), v, kw)),
                                                    patterns=[M.lat(R, k)])), patterns=[M.lat(T_, j)]))))


@invariant(SUB, "Substitutor.visit_any", loop=0)
def _inv_sub_any(L):
    """L20: `types` holds exactly the substitutions of the alternatives seen so far that do not refuse"""
    ct = L.ct
    ty, Sx, v = L.v("types"), L.v("schema"), L.v("value")
    kw = L.v("kwargs")
    T_ = S.prop(Sx, "types")
    j, k = z3.Ints("lj lk")
    m = M.llen(ty)
    return z3.And(
        M.is_Ref(ty), M.rcls(ty) == ct.id("list"), m <= L.i,
        z3.ForAll([k], z3.Implies(z3.And(0 <= k, k < m), z3.Exists([j], z3.And(
            0 <= j, j < L.i, z3.Not(subraises(M.lat(T_, j), v, kw)), M.lat(ty, k) == subres(M.lat(T_, j), v, kw)),
            patterns=[M.lat(T_, j)])), patterns=[M.lat(ty, k)]),
        z3.ForAll([j], z3.Implies(z3.And(0 <= j, j < L.i, z3.Not(subraises(M.lat(T_, j), v, kw))),
                                  z3.Exists([k], z3.And(0 <= k, k < m, M.lat(ty, k) == subres(M.lat(T_, j), v, kw)),
                                            patterns=[M.lat(ty, k)])), patterns=[M.lat(T_, j)]))


native_of = z3.Function("native_of", Obj, Obj, M.B)
"""native_of(x, r): r is what Substitutor._from_native(x) returns: a usable schema that (for a plain value x) accepts
exactly the values denoting x"""


def _native_axioms(ct) -> List[Any]:
    x, r, w = z3.Consts("nox nor now", Obj)
    return [z3.ForAll([x, r], native_of(x, r) == z3.And(
        S.is_schema(ct, r), S.wf(r), S.reach(r),
        z3.Implies(plain_keys(x), z3.ForAll([w], S.conforms(r, w) == denotes(x, w), patterns=[S.conforms(r, w)]))),
        patterns=[native_of(x, r)])]


_REG.axiom_fns.append(_native_axioms)


@contract(SUB, "Substitutor._substitute_elements", props=("C04", "C05", "C12", "C07", "C17"), group="substitutor")
def _sub_elements(c):
    """positional contract: the result has one schema per element of `value`; inside the window
    [start, start + len(elements)) it is the member substitution elements[q] % value[start + q], outside it is
    from_native(value[i]).  Raises SubstitutionError only."""
    ct = c.ct
    c.built_self("Substitutor")
    v = c.sym("value", "list")
    E = c.sym("elements", "list")
    st0 = c.sym("start", "int") if c.has_arg("start") or c.mode == "verify" else M.mk_int(0)
    kw = c.kwargs()
    j = z3.Int("sej")
    c.requires(z3.And(M.isinstance_f(ct, v, "list"), M.is_Ref(E), M.rcls(E) == ct.id("list")), "lists")
    c.requires(z3.And(M.is_IntV(st0), M.ival(st0) >= 0, M.ival(st0) <= M.llen(v)), "start-within-value")
    c.requires(z3.ForAll([j], z3.Implies(z3.And(0 <= j, j < M.llen(E)), z3.And(
        S.is_schema(ct, M.lat(E, j)), S.wf(M.lat(E, j)), S.reach(M.lat(E, j)))), patterns=[M.lat(E, j)]), "element-schemas")
    c.requires(S.deep_range(v), "float-repr")
    s0, ne, n = M.ival(st0), M.llen(E), M.llen(v)
    c.paths()
    c.raises("SubstitutionError", props=("C12",))
    c.reproducible()      # C17: the schema built does not depend on the interpreter's hash seed
    c.returns("list")

    def post(r, post_):
        return z3.And(
            M.is_Ref(r), M.rcls(r) == ct.id("list"), M.llen(r) == n, s0 + ne <= n,
            z3.ForAll([j], z3.Implies(z3.And(0 <= j, j < n), z3.If(
                z3.And(s0 <= j, j < s0 + ne),
                z3.And(z3.Not(subraises(M.lat(E, j - s0), M.lat(v, j), kw)),
                       M.lat(r, j) == subres(M.lat(E, j - s0), M.lat(v, j), kw)),
                native_of(M.lat(v, j), M.lat(r, j)))), patterns=[M.lat(r, j)]))
    c.ensures("positions", post, ("C04", "C05", "C12"))
    c.ensures("window-marker", lambda r, post_: win_at(r, s0), ("C12",))
    c.fresh_result = True


@invariant(SUB, "Substitutor._substitute_elements", loop=0)
def _inv_se0(L):
    """L21: one member substitution per element schema seen so far, at the window position"""
    ct = L.ct
    R, v, E = L.v("substituted"), L.v("value"), L.v("elements")
    s0 = M.int_of(L.v("start"))
    kw = L.v("kwargs")
    j = z3.Int("l1j")
    return z3.And(M.is_Ref(R), M.rcls(R) == ct.id("list"), M.llen(R) == L.i, s0 + L.i <= M.llen(v),
                  z3.ForAll([j], z3.Implies(z3.And(0 <= j, j < L.i), z3.And(
                      z3.Not(subraises(M.lat(E, j), M.lat(v, s0 + j), kw)),
                      M.lat(R, j) == subres(M.lat(E, j), M.lat(v, s0 + j), kw))), patterns=[M.lat(R, j), M.lat(E, j)]))


@invariant(SUB, "Substitutor._substitute_elements", loop=1)
def _inv_se1(L):
    """L22: after the window come the from_native schemas of the values behind it"""
    ct = L.ct
    R, v, E = L.v("substituted"), L.v("value"), L.v("elements")
    s0 = M.int_of(L.v("start"))
    kw = L.v("kwargs")
    ne = M.llen(E)
    j = z3.Int("l2j")
    return z3.And(M.is_Ref(R), M.rcls(R) == ct.id("list"), M.llen(R) == ne + L.i, s0 + ne + L.i <= M.llen(v),
                  z3.ForAll([j], z3.Implies(z3.And(0 <= j, j < ne + L.i), z3.If(
                      j < ne,
                      z3.And(z3.Not(subraises(M.lat(E, j), M.lat(v, s0 + j), kw)),
                             M.lat(R, j) == subres(M.lat(E, j), M.lat(v, s0 + j), kw)),
                      native_of(M.lat(v, s0 + j), M.lat(R, j)))), patterns=[M.lat(R, j)]))


@invariant(SUB, "Substitutor._substitute_elements", loop=2)
def _inv_se2(L):
    """L23: the from_native schemas of the values before the window are inserted in front, in order"""
    ct = L.ct
    R, v, E = L.v("substituted"), L.v("value"), L.v("elements")
    s0 = M.int_of(L.v("start"))
    kw = L.v("kwargs")
    ne, n = M.llen(E), M.llen(v)
    j = z3.Int("l3j")
    return z3.And(M.is_Ref(R), M.rcls(R) == ct.id("list"), M.llen(R) == n - s0 + L.i, s0 + ne <= n, L.i <= s0,
                  z3.ForAll([j], z3.Implies(z3.And(0 <= j, j < n - s0 + L.i), z3.If(
                      j < L.i, native_of(M.lat(v, j), M.lat(R, j)),
                      z3.If(j < L.i + ne,
                            z3.And(z3.Not(subraises(M.lat(E, j - L.i), M.lat(v, s0 + j - L.i), kw)),
                                   M.lat(R, j) == subres(M.lat(E, j - L.i), M.lat(v, s0 + j - L.i), kw)),
                            native_of(M.lat(v, s0 + j - L.i), M.lat(R, j))))), patterns=[M.lat(R, j)]))


# ----------------------------------------------------------------------------- Substitutor.visit_dict
def _pair(ct, p: Any, first: Any, flag: Any) -> Any:
    return z3.And(M.is_Ref(p), M.rcls(p) == ct.id("tuple"), M.llen(p) == 2, first(M.lat(p, 0)), M.lat(p, 1) == flag)


def dict_untyped_entry(ct, v: Any, x: Any, pair: Any) -> Any:
    """entry built for key x of the value when the schema declares no keys: (from_native(v[x]) or `...`, False)"""
    vx = M.dget(v, x)
    return _pair(ct, pair, lambda m: z3.If(vx == M.EllV, m == M.EllV, native_of(vx, m)), M.mk_bool(False))


def dict_keyed_entry(ct, K: Any, v: Any, kw: Any, x: Any, pair: Any) -> Any:
    """entry built for declared key x: the member substituted with v[x] and made required when x is given (kept as it
    is for a `...` placeholder), otherwise the declared (member, optional) pair"""
    old = M.dget(K, x)
    m0, vx = M.lat(old, 0), M.dget(v, x)
    given = z3.And(M.has(v, x), vx != M.EllV)
    return z3.If(M.has(v, x),
                 _pair(ct, pair, lambda m: z3.If(vx == M.EllV, m == m0, z3.And(z3.Not(subraises(m0, vx, kw)),
                                                                               m == subres(m0, vx, kw))), M.mk_bool(False)),
                 _pair(ct, pair, lambda m: m == m0, M.lat(old, 1)))


@contract(SUB, "Substitutor.visit_dict", props=("C04", "C05", "C12", "C07", "C17"), group="substitutor")
def _sub_dict(c):
    ct = c.ct
    c.built_self("Substitutor")
    Sx = c.sym("schema", "DictSchema")
    v = c.sym("value")
    kw = c.kwargs()
    for f in S.reach_def(ct, "DictSchema", Sx):
        c.requires(f)
    c.requires(S.deep_range(v), "float-repr")
    K = S.prop(Sx, "keys")
    x = z3.Const("sdx", Obj)
    j = z3.Int("sdj")
    untyped = z3.Or(K == M.NilV, z3.And(M.klen(K) == 1, M.has(K, M.EllV)))
    c.paths()
    c.raises("SubstitutionError", props=("C12",))
    c.reproducible()      # C17: the schema built does not depend on the interpreter's hash seed
    c.returns("DictSchema")
    c.ensures("same-class", lambda r, post: z3.And(S.is_schema(ct, r), M.rcls(r) == M.rcls(Sx)), ("C12", "C07"))

    c.ensures("keys", lambda r, post_: dict_fact(ct, Sx, v, kw, r), ("C04", "C05", "C12"))
    c.meta = {"cls": "DictSchema"}


def dict_fact(ct, Sx: Any, v: Any, kw: Any, r: Any) -> Any:
    """what Substitutor.visit_dict guarantees about its result (proved against the body)"""
    K = S.prop(Sx, "keys")
    x = z3.Const("sdx", Obj)
    j = z3.Int("sdj")
    untyped = z3.Or(K == M.NilV, z3.And(M.klen(K) == 1, M.has(K, M.EllV)))
    if True:
        R = S.prop(r, "keys")
        pair = M.dget(R, x)
        return z3.And(
            V.rvalid(Sx, v), M.isinstance_f(ct, v, "dict"), M.isinstance_f(ct, R, "dict"),
            z3.If(untyped,
                  z3.And(z3.ForAll([x], M.has(R, x) == z3.Or(M.has(v, x), z3.And(x == M.EllV, K != M.NilV)),
                                   patterns=[M.has(R, x), M.has(v, x)]),
                         z3.ForAll([x], z3.Implies(z3.And(M.has(v, x), z3.Not(z3.And(x == M.EllV, K != M.NilV))),
                                                   dict_untyped_entry(ct, v, x, pair)), patterns=[M.dget(R, x), M.has(v, x)]),
                         # a relaxed schema stays relaxed (this entry replaces whatever the value gave for `...`)
                         z3.Implies(K != M.NilV, _pair(ct, M.dget(R, M.EllV), lambda m: m == M.EllV, M.mk_bool(False)))),
                  z3.And(z3.Not(M.has(v, M.EllV)),
                         # the declared keys, in the declared order; no key of the value is unknown
                         M.klen(R) == M.klen(K),
                         z3.ForAll([j], z3.Implies(z3.And(0 <= j, j < M.klen(K)), M.kat(R, j) == M.kat(K, j)), patterns=[M.kat(R, j)]),
                         z3.ForAll([x], M.has(R, x) == M.has(K, x), patterns=[M.has(R, x), M.has(K, x)]),
                         z3.ForAll([x], z3.Implies(M.has(v, x), M.has(K, x)), patterns=[M.has(v, x)]),
                         z3.ForAll([x], z3.Implies(M.has(K, x), dict_keyed_entry(ct, K, v, kw, x, pair)),
                                   patterns=[M.dget(R, x), M.has(K, x)]))))


@invariant(SUB, "Substitutor.visit_dict", loop=0)
def _inv_sd0(L):
    """L24 (no declared keys): one entry per item of the value seen so far"""
    ct = L.ct
    keys, v = L.v("keys"), L.v("value")
    x = z3.Const("l4x", Obj)
    return z3.And(M.is_Ref(keys), M.rcls(keys) == ct.id("dict"),
                  z3.ForAll([x], M.has(keys, x) == z3.And(M.has(v, x), M.kidx(v, x) < L.i), patterns=[M.has(keys, x)]),
                  z3.ForAll([x], z3.Implies(M.has(keys, x), dict_untyped_entry(ct, v, x, M.dget(keys, x))),
                            patterns=[M.dget(keys, x)]))


@invariant(SUB, "Substitutor.visit_dict", loop=1)
def _inv_sd1(L):
    """L25 (declared keys): the declared keys seen so far, in order, each with its substituted / kept entry"""
    ct = L.ct
    keys, v, Sx = L.v("keys"), L.v("value"), L.v("schema")
    kw = L.v("kwargs")
    K = S.prop(Sx, "keys")
    x = z3.Const("l5x", Obj)
    j = z3.Int("l5j")
    return z3.And(M.is_Ref(keys), M.rcls(keys) == ct.id("dict"), M.klen(keys) == L.i,
                  z3.ForAll([j], z3.Implies(z3.And(0 <= j, j < L.i), M.kat(keys, j) == M.kat(K, j)), patterns=[M.kat(keys, j)]),
                  z3.ForAll([x], M.has(keys, x) == z3.And(M.has(K, x), M.kidx(K, x) < L.i), patterns=[M.has(keys, x)]),
                  z3.ForAll([x], z3.Implies(M.has(keys, x), dict_keyed_entry(ct, K, v, kw, x, M.dget(keys, x))),
                            patterns=[M.dget(keys, x)]))


@invariant(SUB, "Substitutor.visit_dict", loop=2)
def _inv_sd2(L):
    """L26: every key of the value seen so far is declared"""
    v, Sx = L.v("value"), L.v("schema")
    K = S.prop(Sx, "keys")
    j = z3.Int("l6j")
    return z3.ForAll([j], z3.Implies(z3.And(0 <= j, j < L.i), M.has(K, M.kat(v, j))), patterns=[M.kat(v, j)])


# ----------------------------------------------------------------------------- Substitutor.visit_list
win_at = z3.Function("win_at", Obj, M.I, M.B)
"""constant-true marker: `win_at(result, start)` names the window position _substitute_elements used, so that the
existential in the postcondition of visit_list has a term to be instantiated with (trigger-only, adds no fact)"""


def _win_axioms(ct) -> List[Any]:
    r = z3.Const("war", Obj)
    s = z3.Int("was")
    return [z3.ForAll([r, s], win_at(r, s), patterns=[win_at(r, s)])]


_REG.axiom_fns.append(_win_axioms)


def window_positions(ct, R: Any, v: Any, E: Any, off: Any, ne: Any, s0: Any, kw: Any) -> Any:
    j = z3.Int("wpj")
    n = M.llen(v)
    return z3.And(0 <= s0, s0 + ne <= n, z3.ForAll([j], z3.Implies(z3.And(0 <= j, j < n), z3.If(
        z3.And(s0 <= j, j < s0 + ne),
        z3.And(z3.Not(subraises(M.lat(E, off + j - s0), M.lat(v, j), kw)),
               M.lat(R, j) == subres(M.lat(E, off + j - s0), M.lat(v, j), kw)),
        native_of(M.lat(v, j), M.lat(R, j)))), patterns=[M.lat(R, j)]))


@contract(SUB, "Substitutor.visit_list", props=("C04", "C05", "C12", "C07", "C17"), group="substitutor")
def _sub_list(c):
    ct = c.ct
    c.built_self("Substitutor")
    Sx = c.sym("schema", "ListSchema")
    v = c.sym("value")
    kw = c.kwargs()
    for f in S.reach_def(ct, "ListSchema", Sx):
        c.requires(f)
    c.requires(S.deep_range(v), "float-repr")
    E, Ty = S.prop(Sx, "elements"), S.prop(Sx, "type")
    n, m = M.llen(v), M.llen(E)
    j = z3.Int("slj")
    s0 = z3.Int("sls0")
    c.paths()
    c.raises("SubstitutionError", props=("C12",))
    c.reproducible()      # C17: the schema built does not depend on the interpreter's hash seed
    c.returns("ListSchema")
    c.ensures("same-class", lambda r, post: z3.And(S.is_schema(ct, r), M.rcls(r) == M.rcls(Sx)), ("C12", "C07"))
    # (when the conversion of a member fails is not characterised, so refusals are pinned down only where no member is
    # involved: an empty list that passes the relaxed validation of an element-less schema is never refused)
    c.ensures_exc("SubstitutionError", "not-for-an-empty-valid-value",
                  lambda e, post: z3.Or(z3.Not(V.rvalid(Sx, v)), M.llen(v) > 0, E != M.NilV), ("C12",))
    c.ensures("elements", lambda r, post_: list_fact(ct, Sx, v, kw, r), ("C04", "C05", "C12"))
    c.meta = {"cls": "ListSchema"}


def list_cases(Sx: Any):
    E = S.prop(Sx, "elements")
    m = M.llen(E)
    e0, el = M.lat(E, 0) == M.EllV, M.lat(E, m - 1) == M.EllV
    body = z3.And(m > 2, e0, el)
    head = z3.And(z3.Not(body), m >= 2, el)
    tail = z3.And(z3.Not(body), z3.Not(head), m >= 1, e0)
    return body, head, tail


def list_fact(ct, Sx: Any, v: Any, kw: Any, r: Any, skolem: Any = None) -> Any:
    """what Substitutor.visit_list guarantees about its result (proved against the body); with `skolem` the window
    position is that constant instead of an existential (hypothesis side of a lemma)"""
    E, Ty = S.prop(Sx, "elements"), S.prop(Sx, "type")
    n, m = M.llen(v), M.llen(E)
    j = z3.Int("slj")
    s0 = z3.Int("sls0")
    body, head, tail = list_cases(Sx)
    if True:
        R = S.prop(r, "elements")
        member = lambda jj, fn: z3.If(M.lat(v, jj) == M.EllV, M.lat(R, jj) == M.EllV, fn(M.lat(v, jj), M.lat(R, jj)))
        no_ell = z3.ForAll([j], z3.Implies(z3.And(0 <= j, j < n), M.lat(v, j) != M.EllV), patterns=[M.lat(v, j)])
        if skolem is None:
            win = lambda off, ne, cond: z3.Exists([s0], z3.And(win_at(R, s0), cond(s0),
                                                               window_positions(ct, R, v, E, off, ne, s0, kw)),
                                                  patterns=[win_at(R, s0)])
        else:
            win = lambda off, ne, cond: z3.And(cond(skolem), window_positions(ct, R, v, E, off, ne, skolem, kw))
        return z3.And(
            V.rvalid(Sx, v), M.isinstance_f(ct, v, "list"), M.isinstance_f(ct, R, "list"), M.llen(R) == n,
            *[S.prop(r, nm) == S.prop(Sx, nm) for nm in ("len", "min_len", "max_len")],
            S.prop(r, "type") == M.NilV,
            # a non-empty value made of `...` only is refused
            z3.Implies(n > 0, z3.Exists([j], z3.And(0 <= j, j < n, M.lat(v, j) != M.EllV), patterns=[M.lat(v, j)])),
            # one implication per case (the discharger proves them as separate leaves)
            z3.Implies(z3.And(E == M.NilV, Ty == M.NilV),
                       z3.ForAll([j], z3.Implies(z3.And(0 <= j, j < n), member(j, native_of)), patterns=[M.lat(R, j)])),
            z3.Implies(Ty != M.NilV,
                       z3.ForAll([j], z3.Implies(z3.And(0 <= j, j < n), member(j, lambda x, mm: z3.And(
                           z3.Not(subraises(Ty, x, kw)), mm == subres(Ty, x, kw)))), patterns=[M.lat(R, j)])),
            z3.Implies(z3.And(Ty == M.NilV, E != M.NilV), no_ell),
            z3.Implies(z3.And(Ty == M.NilV, E != M.NilV, body), win(1, m - 2, lambda s: s < n)),
            z3.Implies(z3.And(Ty == M.NilV, E != M.NilV, head), win(0, m - 1, lambda s: s == 0)),
            z3.Implies(z3.And(Ty == M.NilV, E != M.NilV, tail),
                       win(1, m - 1, lambda s: s == z3.If(n - (m - 1) > 0, n - (m - 1), 0))),
            z3.Implies(z3.And(Ty == M.NilV, E != M.NilV, z3.Not(body), z3.Not(head), z3.Not(tail)),
                       win(0, m, lambda s: s == 0)))


@invariant(SUB, "Substitutor.visit_list", loop=0)
def _inv_sl0(L):
    """L27 (untyped list): one from_native schema (or the kept `...`) per element seen so far"""
    ct = L.ct
    R, v = L.v("elements"), L.v("value")
    j = z3.Int("l7j")
    return z3.And(M.is_Ref(R), M.rcls(R) == ct.id("list"), M.llen(R) == L.i,
                  z3.ForAll([j], z3.Implies(z3.And(0 <= j, j < L.i), z3.If(
                      M.lat(v, j) == M.EllV, M.lat(R, j) == M.EllV, native_of(M.lat(v, j), M.lat(R, j)))),
                      patterns=[M.lat(R, j)]))


@invariant(SUB, "Substitutor.visit_list", loop=1)
def _inv_sl1(L):
    """L28 (typed list): one member substitution (or the kept `...`) per element seen so far"""
    ct = L.ct
    R, v, Sx = L.v("elements"), L.v("value"), L.v("schema")
    kw = L.v("kwargs")
    Ty = S.prop(Sx, "type")
    j = z3.Int("l8j")
    return z3.And(M.is_Ref(R), M.rcls(R) == ct.id("list"), M.llen(R) == L.i,
                  z3.ForAll([j], z3.Implies(z3.And(0 <= j, j < L.i), z3.If(
                      M.lat(v, j) == M.EllV, M.lat(R, j) == M.EllV,
                      z3.And(z3.Not(subraises(Ty, M.lat(v, j), kw)), M.lat(R, j) == subres(Ty, M.lat(v, j), kw)))),
                      patterns=[M.lat(R, j)]))


@invariant(SUB, "Substitutor.visit_list", loop=2)
def _inv_sl2(L):
    """L29 (contains form): nothing is carried from one candidate position to the next (the parameters are not rebound)"""
    return z3.And(*[L.v(nm) == L.pre(nm) for nm in ("schema", "value", "elements")])


# ============================================================================= container lemmas (C04 / C05 / C12)
# Induction on the schema: the statements for the *member* substitutions (sub_ih, sub_acc; native_of for converted
# members) are hypotheses, the statement for the container is the goal; the facts about the container's result are
# exactly the postconditions proved against the bodies above (alias: registry, any_fact, dict_fact, list_fact).
pinned = z3.Function("pinned", Obj, Obj, M.B)
"""pinned(x, w): w carries the plain value x at the substituted positions (scalars equal, lists element-wise and of the
same length, dicts on every key given)"""
noell = z3.Function("noell", Obj, M.B)          # no `...` placeholder anywhere in the value (the domain of C04 / C05)
sub_ih = z3.Function("sub_ih", Obj, Obj, Obj, M.B)
sub_acc = z3.Function("sub_acc", Obj, Obj, Obj, M.B)


def pinned_def(ct, x: Any, w: Any) -> Any:
    j = z3.Int("pj2")
    k = z3.Const("pk2", Obj)
    return z3.If(M.isinstance_f(ct, x, "list"),
                 z3.And(M.isinstance_f(ct, w, "list"), M.llen(w) == M.llen(x),
                        z3.ForAll([j], z3.Implies(z3.And(0 <= j, j < M.llen(x)), pinned(M.lat(x, j), M.lat(w, j))),
                                  patterns=[M.lat(x, j)])),
           z3.If(M.isinstance_f(ct, x, "dict"),
                 z3.And(M.isinstance_f(ct, w, "dict"),
                        z3.ForAll([k], z3.Implies(M.has(x, k), z3.And(M.has(w, k), pinned(M.dget(x, k), M.dget(w, k)))),
                                  patterns=[M.has(x, k)])),
                 scalar_pin(x, w)))


def scalar_pin(x: Any, w: Any) -> Any:
    """`scalars equal`: the same None, Python-equal, or floats within the documented tolerance"""
    return z3.Or(z3.And(M.is_NoneV(x), M.is_NoneV(w)), M.py_eq(w, x),
                 z3.And(M.is_floatk(x), M.is_floatk(w), M.isclose_f(w, x)))


def noell_def(ct, x: Any) -> Any:
    j = z3.Int("nj2")
    k = z3.Const("nk2", Obj)
    return z3.And(x != M.EllV, plain_keys(x),
                  z3.Implies(M.isinstance_f(ct, x, "list"),
                             z3.ForAll([j], z3.Implies(z3.And(0 <= j, j < M.llen(x)), noell(M.lat(x, j))), patterns=[M.lat(x, j)])),
                  z3.Implies(M.isinstance_f(ct, x, "dict"),
                             z3.ForAll([k], z3.Implies(M.has(x, k), noell(M.dget(x, k))), patterns=[M.has(x, k)])))


def sub_ih_def(ct, Mx: Any, x: Any, R: Any) -> Any:
    w = z3.Const("ihw", Obj)
    return z3.And(S.is_schema(ct, R), S.wf(R), S.reach(R), M.rcls(R) == M.rcls(Mx),
                  z3.ForAll([w], z3.Implies(S.conforms(R, w), z3.And(S.conforms(Mx, w), pinned(x, w))),
                            patterns=[S.conforms(R, w)]))


def _container_axioms(ct) -> List[Any]:
    x, w, Mx, R = z3.Consts("cax caw caM caR", Obj)
    return [z3.ForAll([x, w], pinned(x, w) == pinned_def(ct, x, w), patterns=[pinned(x, w)]),
            z3.ForAll([x], noell(x) == noell_def(ct, x), patterns=[noell(x)]),
            z3.ForAll([Mx, x, R], sub_ih(Mx, x, R) == sub_ih_def(ct, Mx, x, R), patterns=[sub_ih(Mx, x, R)]),
            z3.ForAll([Mx, x, R], sub_acc(Mx, x, R) == z3.Implies(S.conforms(Mx, x), S.conforms(R, x)),
                      patterns=[sub_acc(Mx, x, R)]),
            # denotes is the stronger relation (same key set): proved by the lemma `C04.denotes-pins` below, by induction
            _denotes_pins_axiom()]


def _denotes_pins_axiom() -> Any:
    x, w = z3.Consts("cax caw", Obj)
    return z3.ForAll([x, w], z3.Implies(denotes(x, w), pinned(x, w)), patterns=[denotes(x, w)])


_REG.axiom_fns.append(_container_axioms)


def member_ih(Mx: Any, x: Any, kw: Any) -> Any:
    """induction hypothesis for one member substitution that does not refuse"""
    r = subres(Mx, x, kw)
    return z3.And(sub_ih(Mx, x, r), sub_acc(Mx, x, r))


_WHICH = ["both"]


def _goal_narrow_pins(ct, cls: str, Sx: Any, v: Any, R: Any, w: Any) -> Any:
    concl = {"C05": S.conforms_def(ct, cls, Sx, w), "C04": pinned(v, w)}.get(
        _WHICH[0], z3.And(S.conforms_def(ct, cls, Sx, w), pinned(v, w)))
    return z3.Implies(S.conforms_def(ct, cls, R, w), concl)


@lemma("C04.denotes-pins", props=("C04",))
def _denotes_pins(lc):
    """denotes(x, w) => pinned(x, w), by structural induction (members' implication is the hypothesis)"""
    ct = lc.ct
    x, w = z3.Consts("x w", Obj)
    j = z3.Int("j")
    k = z3.Const("k", Obj)
    ih_l = z3.ForAll([j], z3.Implies(z3.And(0 <= j, j < M.llen(x), denotes(M.lat(x, j), M.lat(w, j))),
                                     pinned(M.lat(x, j), M.lat(w, j))), patterns=[M.lat(x, j)])
    ih_d = z3.ForAll([k], z3.Implies(z3.And(M.has(x, k), denotes(M.dget(x, k), M.dget(w, k))),
                                     pinned(M.dget(x, k), M.dget(w, k))), patterns=[M.has(x, k)])
    lc.drop = [_denotes_pins_axiom()]        # proved here: must not be among the axioms of this lemma
    lc.oblige("step", [ih_l, ih_d, denotes(x, w)], pinned(x, w), {"value": x, "w": w}, {},
              text="denotes(x, w) implies pinned(x, w), given the same for the members")


@lemma("C05.containers", props=("C05",))
def _containers_c05(lc):
    """everything a container's S % v accepts is accepted by S (members' statements as induction hypothesis)"""
    _WHICH[0] = "C05"
    try:
        _containers(lc)
        lc.obligations = [o for o in lc.obligations if ":accepts" not in o.name]
    finally:
        _WHICH[0] = "both"


@lemma("C04.containers", props=("C04",))
def _containers_c04(lc):
    """everything a container's S % v accepts carries v; S % v accepts a conforming v"""
    _WHICH[0] = "C04"
    try:
        _containers(lc)
    finally:
        _WHICH[0] = "both"


def _containers(lc):
    """From the exact contracts of the container visits and the members' statements: everything S % v accepts is
    accepted by S and carries v; if v conforms to S (and, for `any`, the alternative it conforms to can be
    substituted) S % v accepts v; the result is a usable schema."""
    ct = lc.ct
    v, w, kw = z3.Consts("v w kw", Obj)
    j = z3.Int("j")
    x = z3.Const("x", Obj)
    base = [noell(v), S.float_range(v), S.float_range(w)]

    # ---- base case: the scalar visits (their exact contract: no error <=> conforms(S, v); result = S with value := v)
    if _WHICH[0] in ("C04", "both"):
        for _, cls in SCALARS:
            Sx, R = z3.Consts(f"S_{cls} R_{cls}", Obj)
            hyp = base + list(S.reach_def(ct, cls, Sx)) + [S.conforms_def(ct, cls, Sx, v)] + _updated_view(ct, cls, R, Sx, v)
            if cls == "FloatSchema":
                # a declared precision makes `equal` mean `equal after rounding`: outside what pinned() calls equal
                hyp.append(z3.Not(S.declared(Sx, "precision")))
                if "C04-float-nan" in ACTIVE():
                    hyp.append(z3.Not(M.is_FNanV(v)))
            lc.oblige(f"scalar[{cls}]:pins", hyp + [S.conforms_def(ct, cls, R, w)], pinned(v, w),
                      {"schema": Sx, "value": v, "w": w}, {"cls": cls},
                      text="base case of the induction: a value accepted by scalar % v carries v")

    # ---- alias
    Sx, R = z3.Consts("S_alias R_alias", Obj)
    T_ = S.prop(Sx, "type")
    hyp = base + list(S.reach_def(ct, "TypeAliasSchema", Sx)) + [
        M.has(S.reg_of(Sx), S.S_("type")), z3.Not(subraises(T_, v, kw)),
        S.registry_is(ct, "TypeAliasSchema", R, Sx, {"type": subres(T_, v, kw)}), member_ih(T_, v, kw)]
    inp = {"schema": Sx, "value": v, "w": w}
    lc.oblige("alias:narrows-and-pins", hyp, _goal_narrow_pins(ct, "TypeAliasSchema", Sx, v, R, w), inp, {"cls": "TypeAliasSchema"},
              text="every value accepted by alias % v is accepted by the alias and carries v")
    lc.oblige("alias:accepts", hyp + [S.conforms_def(ct, "TypeAliasSchema", Sx, v)], S.conforms_def(ct, "TypeAliasSchema", R, v),
              inp, {"cls": "TypeAliasSchema"}, text="alias % v accepts v when v conforms")

    # ---- any
    Sx, R = z3.Consts("S_any R_any", Obj)
    T_ = S.prop(Sx, "types")
    n = M.llen(T_)
    ih = z3.ForAll([j], z3.Implies(z3.And(0 <= j, j < n, z3.Not(subraises(M.lat(T_, j), v, kw))),
                                   member_ih(M.lat(T_, j), v, kw)), patterns=[M.lat(T_, j)])
    hyp = base + list(S.reach_def(ct, "AnySchema", Sx)) + [S.declared(Sx, "types"), any_fact(ct, Sx, v, kw, R), ih]
    inp = {"schema": Sx, "value": v, "w": w}
    lc.oblige("any:narrows-and-pins", hyp, _goal_narrow_pins(ct, "AnySchema", Sx, v, R, w), inp, {"cls": "AnySchema"},
              text="every value accepted by any(...) % v is accepted by the union and carries v")
    fits = z3.Int("fits")
    # listed finding C04-any-fallback: an alternative v conforms to may refuse (extra key under a relaxed dict) while
    # another one, which v satisfies only partially, is kept; proved where a conforming alternative can be substituted
    acc_region = [0 <= fits, fits < n, S.conforms(M.lat(T_, fits), v)] + \
        ([z3.Not(subraises(M.lat(T_, fits), v, kw))] if "C04-any-fallback" in ACTIVE() else [])
    lc.oblige("any:accepts", hyp + acc_region, S.conforms_def(ct, "AnySchema", R, v), inp, {"cls": "AnySchema"},
              text="any(...) % v accepts v when an alternative v conforms to can be substituted")

    # ---- dict (declared keys)
    Sx, R = z3.Consts("S_dict R_dict", Obj)
    K = S.prop(Sx, "keys")
    ihd = z3.ForAll([x], z3.Implies(z3.And(M.has(K, x), M.has(v, x), M.dget(v, x) != M.EllV,
                                           z3.Not(subraises(M.lat(M.dget(K, x), 0), M.dget(v, x), kw))),
                                    member_ih(M.lat(M.dget(K, x), 0), M.dget(v, x), kw)), patterns=[M.has(K, x)])
    from .relaxed import rconforms_def
    hyp = base + list(S.reach_def(ct, "DictSchema", Sx)) + [dict_fact(ct, Sx, v, kw, R), ihd,
                                                         V.rvalid(Sx, v) == rconforms_def(ct, "DictSchema", Sx, v)]
    inp = {"schema": Sx, "value": v, "w": w}
    lc.oblige("dict:narrows-and-pins", hyp, _goal_narrow_pins(ct, "DictSchema", Sx, v, R, w), inp, {"cls": "DictSchema"},
              text="every value accepted by dict % v is accepted by the dict schema and carries v on every key given")
    # members converted by from_native accept themselves: denotes is reflexive on NaN-free plain values (lemma C14.denotes;
    # NaN is the listed finding C14-nan / C04-float-nan)
    refl_d = z3.ForAll([x], z3.Implies(M.has(v, x), denotes(M.dget(v, x), M.dget(v, x))), patterns=[M.has(v, x)])
    lc.oblige("dict:accepts", hyp + [refl_d, S.conforms_def(ct, "DictSchema", Sx, v)], S.conforms_def(ct, "DictSchema", R, v),
              inp, {"cls": "DictSchema"}, text="dict % v accepts v when v conforms")

    # ---- list
    Sx, R = z3.Consts("S_list R_list", Obj)
    E, Ty = S.prop(Sx, "elements"), S.prop(Sx, "type")
    q = z3.Int("q")
    s0c = z3.Int("s0c")          # the window position (the existential of list_fact, eliminated)
    mE = M.llen(E)
    bodyc, headc, tailc = list_cases(Sx)
    exactc = z3.And(z3.Not(bodyc), z3.Not(headc), z3.Not(tailc))

    def ih_window(case, off, ne):
        # induction hypothesis for exactly the member substitutions list_fact speaks about in this case
        e = M.lat(E, off + j - s0c)
        return z3.Implies(case, z3.ForAll([j], z3.Implies(
            z3.And(s0c <= j, j < s0c + ne, z3.Not(subraises(e, M.lat(v, j), kw))), member_ih(e, M.lat(v, j), kw)),
            patterns=[M.lat(v, j)]))
    ihl = z3.And(
        z3.ForAll([j], z3.Implies(z3.And(0 <= j, j < M.llen(v), Ty != M.NilV, z3.Not(subraises(Ty, M.lat(v, j), kw))),
                                  member_ih(Ty, M.lat(v, j), kw)), patterns=[M.lat(v, j)]),
        ih_window(bodyc, 1, mE - 2), ih_window(headc, 0, mE - 1), ih_window(tailc, 1, mE - 1), ih_window(exactc, 0, mE))
    hb1, hb2 = M.fresh("hint", M.B), M.fresh("hint", M.B)
    hints = [hb1 == S.window_ok(E, 1, mE - 2, w, s0c), hb2 == S.window_ok(E, 1, mE - 2, v, s0c)]   # name the window terms
    hyp = base + list(S.reach_def(ct, "ListSchema", Sx)) + [list_fact(ct, Sx, v, kw, R, skolem=s0c), ihl] + hints + \
        [V.rvalid(Sx, v) == rconforms_def(ct, "ListSchema", Sx, v)]      # (established by the verified relaxed validator)
    inp = {"schema": Sx, "value": v, "w": w}
    cases = [("untyped", z3.And(E == M.NilV, Ty == M.NilV)), ("typed", Ty != M.NilV),
             ("contains", z3.And(Ty == M.NilV, E != M.NilV, bodyc)), ("head", z3.And(Ty == M.NilV, E != M.NilV, headc)),
             ("tail", z3.And(Ty == M.NilV, E != M.NilV, tailc)), ("exact", z3.And(Ty == M.NilV, E != M.NilV, exactc))]
    refl_l = z3.ForAll([j], z3.Implies(z3.And(0 <= j, j < M.llen(v)), denotes(M.lat(v, j), M.lat(v, j))), patterns=[M.lat(v, j)])
    for cname, cond in cases:       # one obligation per form of the list schema (they are exhaustive)
        lc.oblige(f"list[{cname}]:narrows-and-pins", hyp + [cond], _goal_narrow_pins(ct, "ListSchema", Sx, v, R, w), inp,
                  {"cls": "ListSchema"}, text="every value accepted by list % v is accepted by the list schema and carries v element-wise")
        extra = []
        if cname == "contains":
            # listed finding C04-contains-partial-window: the window is put at the first position whose relaxed
            # substitution succeeds, which v may match only partially; proved where v conforms at that position
            extra = [S.window_ok(E, 1, mE - 2, v, s0c)] if "C04-contains-partial-window" in ACTIVE() else []
        lc.oblige(f"list[{cname}]:accepts", hyp + extra + [cond, refl_l, S.conforms_def(ct, "ListSchema", Sx, v)],
                  S.conforms_def(ct, "ListSchema", R, v), inp, {"cls": "ListSchema"}, text="list % v accepts v when v conforms")
    lc.oblige("list:cases-exhaustive", hyp, z3.Or(*[c_ for _, c_ in cases]), inp, {"cls": "ListSchema"},
              text="the six forms of a list schema cover every reachable list schema")


# ----------------------------------------------------------------------------- the public entry point
@contract("d42/substitution/__init__.py", "substitute", props=("C04", "C05", "C12", "C07", "C16", "C17"), group="substitutor")
def _substitute_entry(c):
    """substitute(schema, value, **kwargs) (also `schema % value`: Schema.__override__('__mod__', substitute)) is the
    member dispatch with the module's Substitutor: the value and the kwargs are handed on unchanged"""
    ct = c.ct
    Sx = c.sym("schema")
    v = c.sym("value")
    kw = c.kwargs()
    c.requires(S.is_schema(ct, Sx), "is-schema")
    c.requires(z3.And(S.wf(Sx), S.reach(Sx)), "wf")
    c.paths()
    c.raises("SubstitutionError", props=("C12",))
    c.raises_when("SubstitutionError", subraises(Sx, v, kw))
    c.reproducible()
    c.ensures("result-of-the-dispatch", lambda r, post: r == subres(Sx, v, kw), ("C04", "C05", "C12", "C16"))
