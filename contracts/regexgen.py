"""Contracts for d42/generation/_regex_generator.py (C09 language membership, C17 reproducibility).

Specification `inL(op, av, s)`: string s belongs to the language of the parse-tree node (op, av) of
CPython's `re._parser`, for the constructs the generator supports; sequences and repeats are defined
through `joined` (s is the concatenation of member strings, one per node / repetition).  For every
other opcode inL has no introduction rule, so *returning* a string for it fails the postcondition:
the generator must raise.  Trusted: inL <=> re.fullmatch on the supported grammar (DESIGN 4.9).
"""
from __future__ import annotations

from typing import Any, List

import z3

from pyvc import model as M
from pyvc.contracts import REG, contract, invariant, transparent
from pyvc.executor import SRE_CONST as OP
from pyvc.model import Obj

from . import spec as S

RG = "d42/generation/_regex_generator.py"

inL = z3.Function("inL", M.I, Obj, M.S, M.B)            # node (op, av) generates / matches s
inLs = z3.Function("inLs", Obj, M.S, M.B)               # sequence of nodes
item_match = z3.Function("item_match", M.I, Obj, M.S, M.B)   # one item of a character class matches char c
class_match = z3.Function("class_match", Obj, M.I, M.S, M.B)  # some item with index >= from matches c
sup_node = z3.Function("sup_node", M.I, Obj, M.B)      # the node uses only constructs the generator supports
sup_nodes = z3.Function("sup_nodes", Obj, M.B)
sup_items = z3.Function("sup_items", Obj, M.I, M.B)    # class items from an index on: literals, ranges, \d, \w
touch = z3.Function("touch", Obj, M.B)                 # constant True; used to put a term into the E-graph
wf_node = z3.Function("wf_node", M.I, Obj, M.B)
wf_nodes = z3.Function("wf_nodes", Obj, M.B)
wf_items = z3.Function("wf_items", Obj, M.B)

SUPPORTED = ["ANY", "LITERAL", "NOT_LITERAL", "IN", "SUBPATTERN", "MAX_REPEAT", "MIN_REPEAT", "AT", "BRANCH"]
LETTERS = None


def op_of(node: Any) -> Any:
    return M.ival(M.lat(node, 0))        # opcodes are plain ints (is_pair requires IntV): no ite in patterns


def av_of(node: Any) -> Any:
    return M.lat(node, 1)


def is_pair(ct, t: Any) -> Any:
    return z3.And(M.is_Ref(t), M.rcls(t) == ct.id("tuple"), M.llen(t) == 2, M.is_IntV(M.lat(t, 0)))


def code(c: Any) -> Any:
    return z3.StrToCode(c)


def _axioms(ct) -> List[Any]:
    av, nodes, items, val = z3.Consts("r_av r_nodes r_items r_val", Obj)
    s, c = z3.Consts("r_s r_c", M.S)
    j, op, frm = z3.Ints("r_j r_op r_from")
    R = z3.Const("r_R", Obj)
    ax: List[Any] = []
    one = lambda t: z3.Length(t) == 1

    def define(opname: str, body: Any) -> None:
        k = z3.IntVal(OP[opname])
        ax.append(z3.ForAll([av, s], inL(k, av, s) == body, patterns=[inL(k, av, s)]))

    define("LITERAL", z3.And(M.is_intlike(av), s == z3.StrFromCode(M.int_of(av))))
    define("NOT_LITERAL", z3.And(one(s), s != z3.StrFromCode(M.int_of(av))))
    define("ANY", z3.And(one(s), s != z3.StringVal("\n")))
    define("AT", s == z3.StringVal(""))
    define("IN", z3.And(one(s), z3.If(op_of(M.lat(av, 0)) == OP["NEGATE"],
                                      z3.Not(class_match(av, 1, s)), class_match(av, 0, s))))
    define("SUBPATTERN", inLs(M.lat(av, 3), s))
    bj = z3.Int("r_bj")
    define("BRANCH", z3.Exists([bj], z3.And(0 <= bj, bj < M.llen(M.lat(av, 1)), inLs(M.lat(M.lat(av, 1), bj), s)),
                               patterns=[inLs(M.lat(M.lat(av, 1), bj), s)]))
    lo, hi, sub = M.int_of(M.lat(av, 0)), M.int_of(M.lat(av, 1)), M.lat(av, 2)
    # an open-ended quantifier carries the constant MAXREPEAT as its upper bound -- and nothing else does (the *opcode*
    # MAX_REPEAT is a small integer, 42..44 depending on the CPython version, and is an ordinary upper bound)
    unbounded = M.lat(av, 1) == M.mk_int(OP["MAXREPEAT"])
    rep = z3.Exists([R], z3.And(M.llen(R) >= lo, z3.Or(unbounded, M.llen(R) <= hi),
                                z3.ForAll([j], z3.Implies(z3.And(0 <= j, j < M.llen(R)),
                                                          z3.And(M.is_StrV(M.lat(R, j)), inLs(sub, M.sval(M.lat(R, j))))),
                                          patterns=[M.lat(R, j)]),
                                s == M.joined(z3.StringVal(""), R)),
                    patterns=[M.joined(z3.StringVal(""), R)])
    define("MAX_REPEAT", rep)
    define("MIN_REPEAT", rep)
    # sequence
    ax.append(z3.ForAll([nodes, s], inLs(nodes, s) == z3.Exists(
        [R], z3.And(M.llen(R) == M.llen(nodes),
                    z3.ForAll([j], z3.Implies(z3.And(0 <= j, j < M.llen(nodes)),
                                              z3.And(M.is_StrV(M.lat(R, j)),
                                                     inL(op_of(M.lat(nodes, j)), av_of(M.lat(nodes, j)), M.sval(M.lat(R, j))))),
                              patterns=[M.lat(R, j)]),
                    s == M.joined(z3.StringVal(""), R)),
        patterns=[M.joined(z3.StringVal(""), R)]), patterns=[inLs(nodes, s)]))
    # character-class items
    digit = z3.And(code(c) >= 48, code(c) <= 57)
    word = z3.Or(digit, z3.And(code(c) >= 65, code(c) <= 90), z3.And(code(c) >= 97, code(c) <= 122), code(c) == 95)
    ax.append(z3.ForAll([op, val, c], item_match(op, val, c) == z3.And(z3.Length(c) == 1, z3.Or(
        z3.And(op == OP["LITERAL"], code(c) == M.int_of(val)),
        z3.And(op == OP["RANGE"], M.int_of(M.lat(val, 0)) <= code(c), code(c) <= M.int_of(M.lat(val, 1))),
        z3.And(op == OP["CATEGORY"], val == M.mk_int(OP["CATEGORY_DIGIT"]), digit),
        z3.And(op == OP["CATEGORY"], val == M.mk_int(OP["CATEGORY_WORD"]), word))),
        patterns=[item_match(op, val, c)]))
    ax.append(z3.ForAll([items, frm, c], class_match(items, frm, c) == z3.Exists(
        [j], z3.And(frm <= j, j < M.llen(items), item_match(op_of(M.lat(items, j)), av_of(M.lat(items, j)), c)),
        patterns=[M.lat(items, j)]),
        patterns=[class_match(items, frm, c)]))
    # chr / ord are inverse on code points (theorem of the string theory, given as a hint)
    cp = z3.Int("r_cp")
    ax.append(z3.ForAll([cp], z3.Implies(z3.And(0 <= cp, cp < 0x110000),
                                         z3.And(z3.StrToCode(z3.StrFromCode(cp)) == cp, z3.Length(z3.StrFromCode(cp)) == 1)),
                        patterns=[z3.StrFromCode(cp)]))
    ax.append(z3.ForAll([op, val, c], z3.Implies(z3.And(item_match(op, val, c), z3.Length(c) == 1),
                                                 z3.StrFromCode(z3.StrToCode(c)) == c),
                        patterns=[item_match(op, val, c)]))
    # trigger-only hint: a character in a RANGE item names the index of its own chr() in any list being joined
    # (touch is the constant-true predicate; the axiom adds no fact, only the term lat(R, ord(c) - lo))
    tR, tv = z3.Consts("t_R t_v", Obj)
    tc = z3.Const("t_c", M.S)
    ax.append(z3.ForAll([tR], touch(tR), patterns=[touch(tR)]))
    p1, p2 = item_match(z3.IntVal(OP["RANGE"]), tv, tc), M.joined(z3.StringVal(""), tR)
    ax.append(z3.ForAll([tv, tc, tR], touch(M.lat(tR, code(tc) - M.int_of(M.lat(tv, 0)))),
                        patterns=[z3.MultiPattern(p1, p2)]))
    # a length-1 substring of a constant string is one of its characters (definition of Contains, instantiated for the
    # two category alphabets the generator ships; theorem of the string theory, given as a hint)
    for K in ("0123456789", "abcdefghijklmnopqrstuvwxyzABCDEFGHIJKLMNOPQRSTUVWXYZ0123456789_"):
        ax.append(z3.ForAll([c], z3.Implies(z3.And(z3.Length(c) == 1, z3.Contains(z3.StringVal(K), c)),
                                            z3.Or(*[c == z3.StringVal(x) for x in K])),
                            patterns=[z3.Contains(z3.StringVal(K), c)]))
    # ... and conversely every character of the category is in the shipped alphabet (checked by enumeration below)
    DIG, WRD = "0123456789", "abcdefghijklmnopqrstuvwxyzABCDEFGHIJKLMNOPQRSTUVWXYZ0123456789_"
    assert all(chr(k) in DIG for k in range(48, 58))
    assert all(chr(k) in WRD for k in list(range(48, 58)) + list(range(65, 91)) + list(range(97, 123)) + [95])
    for K, cat in ((DIG, "CATEGORY_DIGIT"), (WRD, "CATEGORY_WORD")):
        ax.append(z3.ForAll([c], z3.Implies(item_match(OP["CATEGORY"], M.mk_int(OP[cat]), c),
                                            z3.And(z3.Contains(z3.StringVal(K), c), M.chin(z3.StringVal(K), c))),
                            patterns=[item_match(OP["CATEGORY"], M.mk_int(OP[cat]), c)]))
        ax.append(z3.ForAll([c], M.chin(z3.StringVal(K), c) == z3.Or(*[c == z3.StringVal(x) for x in K]),
                            patterns=[M.chin(z3.StringVal(K), c)]))
    # well-formed parse trees (what re._parser produces for the supported grammar)
    ax.append(z3.ForAll([nodes], wf_nodes(nodes) == z3.And(
        M.is_Ref(nodes), M.rcls(nodes) == ct.id("list"),
        z3.ForAll([j], z3.Implies(z3.And(0 <= j, j < M.llen(nodes)),
                                  z3.And(is_pair(ct, M.lat(nodes, j)),
                                         wf_node(op_of(M.lat(nodes, j)), av_of(M.lat(nodes, j))))),
                  patterns=[M.lat(nodes, j)])), patterns=[wf_nodes(nodes)]))
    tup = lambda t, n: z3.And(M.is_Ref(t), M.rcls(t) == ct.id("tuple"), M.llen(t) == n)
    lst = lambda t: z3.And(M.is_Ref(t), M.rcls(t) == ct.id("list"))
    ax.append(z3.ForAll([op, av], wf_node(op, av) == z3.And(
        z3.Implies(z3.Or(op == OP["LITERAL"], op == OP["NOT_LITERAL"]),
                   z3.And(M.is_intlike(av), 0 <= M.int_of(av), M.int_of(av) < 0x110000)),
        z3.Implies(op == OP["IN"], z3.And(lst(av), M.llen(av) >= 1, wf_items(av))),
        z3.Implies(op == OP["SUBPATTERN"], z3.And(tup(av, 4), wf_nodes(M.lat(av, 3)))),
        z3.Implies(z3.Or(op == OP["MAX_REPEAT"], op == OP["MIN_REPEAT"]),
                   z3.And(tup(av, 3), M.is_intlike(M.lat(av, 0)), M.is_intlike(M.lat(av, 1)), M.int_of(M.lat(av, 0)) >= 0,
                          M.int_of(M.lat(av, 0)) <= M.int_of(M.lat(av, 1)), wf_nodes(M.lat(av, 2)))),
        z3.Implies(op == OP["BRANCH"], z3.And(tup(av, 2), lst(M.lat(av, 1)), M.llen(M.lat(av, 1)) >= 1,
                                              z3.ForAll([j], z3.Implies(z3.And(0 <= j, j < M.llen(M.lat(av, 1))),
                                                                        wf_nodes(M.lat(M.lat(av, 1), j))),
                                                        patterns=[M.lat(M.lat(av, 1), j)])))),
        patterns=[wf_node(op, av)]))
    ax.append(z3.ForAll([items], wf_items(items) == z3.ForAll(
        [j], z3.Implies(z3.And(0 <= j, j < M.llen(items)), z3.And(
            is_pair(ct, M.lat(items, j)),
            z3.Or(*[op_of(M.lat(items, j)) == OP[n_] for n_ in ("LITERAL", "RANGE", "CATEGORY", "NEGATE")]),
            z3.Implies(op_of(M.lat(items, j)) == OP["NEGATE"], j == 0),
            z3.Implies(op_of(M.lat(items, j)) == OP["CATEGORY"], M.is_IntV(av_of(M.lat(items, j)))),
            z3.Implies(op_of(M.lat(items, j)) == OP["LITERAL"],
                       z3.And(M.is_intlike(av_of(M.lat(items, j))), 0 <= M.int_of(av_of(M.lat(items, j))),
                              M.int_of(av_of(M.lat(items, j))) < 0x110000)),
            z3.Implies(op_of(M.lat(items, j)) == OP["RANGE"],
                       z3.And(tup(av_of(M.lat(items, j)), 2), M.is_intlike(M.lat(av_of(M.lat(items, j)), 0)),
                              M.is_intlike(M.lat(av_of(M.lat(items, j)), 1)),
                              0 <= M.int_of(M.lat(av_of(M.lat(items, j)), 0)),
                              M.int_of(M.lat(av_of(M.lat(items, j)), 0)) <= M.int_of(M.lat(av_of(M.lat(items, j)), 1)),
                              M.int_of(M.lat(av_of(M.lat(items, j)), 1)) < 0x110000)))),
        patterns=[M.lat(items, j)]), patterns=[wf_items(items)]))
    # supported constructs (the second half of C09 is stated against this: ValueError only outside it)
    isop = lambda *names: z3.Or(*[op == OP[n_] for n_ in names])
    ax.append(z3.ForAll([op, av], sup_node(op, av) == z3.Or(
        isop("ANY", "LITERAL", "NOT_LITERAL", "AT"),
        z3.And(op == OP["IN"], sup_items(av, z3.If(op_of(M.lat(av, 0)) == OP["NEGATE"], 1, 0))),
        z3.And(op == OP["SUBPATTERN"], sup_nodes(M.lat(av, 3))),
        z3.And(isop("MAX_REPEAT", "MIN_REPEAT"), sup_nodes(M.lat(av, 2))),
        z3.And(op == OP["BRANCH"], z3.ForAll([j], z3.Implies(z3.And(0 <= j, j < M.llen(M.lat(av, 1))),
                                                             sup_nodes(M.lat(M.lat(av, 1), j))),
                                             patterns=[M.lat(M.lat(av, 1), j)]))),
        patterns=[sup_node(op, av)]))
    ax.append(z3.ForAll([nodes], sup_nodes(nodes) == z3.ForAll(
        [j], z3.Implies(z3.And(0 <= j, j < M.llen(nodes)), sup_node(op_of(M.lat(nodes, j)), av_of(M.lat(nodes, j)))),
        patterns=[M.lat(nodes, j)]), patterns=[sup_nodes(nodes)]))
    ax.append(z3.ForAll([items, frm], sup_items(items, frm) == z3.ForAll(
        [j], z3.Implies(z3.And(frm <= j, j < M.llen(items)), z3.Or(
            op_of(M.lat(items, j)) == OP["LITERAL"], op_of(M.lat(items, j)) == OP["RANGE"],
            z3.And(op_of(M.lat(items, j)) == OP["CATEGORY"],
                   z3.Or(av_of(M.lat(items, j)) == M.mk_int(OP["CATEGORY_DIGIT"]),
                         av_of(M.lat(items, j)) == M.mk_int(OP["CATEGORY_WORD"]))))),
        patterns=[M.lat(items, j)]), patterns=[sup_items(items, frm)]))
    # TRUSTED link between the specification and CPython's re (DESIGN 4.9): the parser's tree is well-formed, and on the
    # supported grammar membership in the specified language implies that the pattern matches
    from .generation import regex_gen_ok
    from pyvc.builtins import sre_tree
    pz = z3.Const("r_p", M.S)
    ax.append(z3.ForAll([pz], z3.Implies(M.re_ok(pz), wf_nodes(sre_tree(pz))), patterns=[sre_tree(pz)]))
    ax.append(z3.ForAll([pz], z3.Implies(regex_gen_ok(pz), z3.And(M.re_ok(pz), sup_nodes(sre_tree(pz)))),
                        patterns=[regex_gen_ok(pz)]))
    ax.append(z3.ForAll([pz, s], z3.Implies(z3.And(regex_gen_ok(pz), inLs(sre_tree(pz), s)), M.re_search(pz, s)),
                        patterns=[inLs(sre_tree(pz), s)]))
    return ax


REG.axiom_fns.append(_axioms)
transparent(RG, "RegexGenerator.__init__")


def rg_self(c) -> None:
    c.meta = {"sre_const": {k: int(v) for k, v in OP.items()}, "function": getattr(getattr(c, "info", None), "qualname", "")}
    if c.mode == "verify":
        rnd = c.ex.construct("Random", [], {}, None, c.st)[0][1]
        # the cap for open-ended quantifiers is a constructor parameter (public API): any integer
        from pyvc.values import T as _T
        mr = z3.Int("p_max_repeat")
        c.extra_inputs = dict(getattr(c, "extra_inputs", {}) or {}, max_repeat=M.IntV(mr))
        c.built_self("RegexGenerator", rnd, max_repeat=_T(M.IntV(mr), "int"))


def common(c, reproducible: bool = True) -> None:
    c.raises("ValueError", props=("C09",))
    c.returns("str")
    if reproducible:
        c.reproducible()


@contract(RG, "RegexGenerator._get_category_alphabet", props=("C09", "C17", "C01"), group="regex")
def _cat(c):
    rg_self(c)
    v = c.sym("value")
    c.requires(M.is_IntV(v), "category-code-is-an-int")
    isd, isw = M.py_eq(v, M.mk_int(OP["CATEGORY_DIGIT"])), M.py_eq(v, M.mk_int(OP["CATEGORY_WORD"]))
    ok = z3.Or(isd, isw)
    c.raises("ValueError", props=("C09",))
    c.raises_when("ValueError", z3.Not(ok))       # exactly the categories other than \\d and \\w
    c.returns("str")
    c.reproducible()
    c.ensures("alphabet", lambda r, post: r == z3.If(isd, M.mk_str("0123456789"),
              M.mk_str("abcdefghijklmnopqrstuvwxyzABCDEFGHIJKLMNOPQRSTUVWXYZ0123456789_")), ("C09",))
    ch = z3.Const("cat_c", M.S)
    c.ensures("members-match-the-category", lambda r, post: z3.ForAll(
        [ch], z3.Implies(z3.And(z3.Length(ch) == 1, z3.Contains(M.sval(r), ch)), item_match(OP["CATEGORY"], v, ch)),
        patterns=[z3.Contains(M.sval(r), ch)]), ("C09",))
    c.ensures("members-are-the-category", lambda r, post: z3.ForAll(
        [ch], M.chin(M.sval(r), ch) == item_match(OP["CATEGORY"], v, ch),
        patterns=[M.chin(M.sval(r), ch), item_match(OP["CATEGORY"], v, ch)]), ("C09",))


@contract(RG, "RegexGenerator._generate_literal", props=("C09", "C17", "C01"), group="regex")
def _lit(c):
    rg_self(c)
    v = c.sym("value")
    c.requires(z3.And(M.is_intlike(v), 0 <= M.int_of(v), M.int_of(v) < 0x110000), "code-point")
    c.raises(props=("C09",))
    c.returns("str")
    c.reproducible()
    c.ensures("inL", lambda r, post: z3.And(M.is_StrV(r), inL(OP["LITERAL"], v, M.sval(r))), ("C09",))


@contract(RG, "RegexGenerator._generate_any", props=("C09", "C17", "C01"), group="regex")
def _any(c):
    rg_self(c)
    v = c.sym("value")
    c.raises(props=("C09",))
    c.returns("str")
    c.reproducible()
    c.ensures("inL", lambda r, post: z3.And(M.is_StrV(r), inL(OP["ANY"], v, M.sval(r))), ("C09",))


@contract(RG, "RegexGenerator._generate_at", props=("C09", "C17", "C01"), group="regex")
def _at(c):
    rg_self(c)
    v = c.sym("value")
    c.raises(props=("C09",))
    c.returns("str")
    c.reproducible()
    c.ensures("inL", lambda r, post: z3.And(M.is_StrV(r), inL(OP["AT"], v, M.sval(r))), ("C09",))


def node_contract(opname: str, fname: str):
    @contract(RG, f"RegexGenerator.{fname}", props=("C09", "C17", "C01"), group="regex")
    def _c(c):
        rg_self(c)
        v = c.sym("value")
        c.requires(wf_node(OP[opname], v), "well-formed-node")
        c.raises("ValueError", "IndexError", props=("C09",))
        c.ensures_exc("ValueError", "only-for-unsupported-constructs", lambda e, post: z3.Not(sup_node(OP[opname], v)), ("C09",))
        c.returns("str")
        c.reproducible()
        c.ensures("inL", lambda r, post: z3.And(M.is_StrV(r), inL(OP[opname], v, M.sval(r))), ("C09",))
        if opname in ("IN", "NOT_LITERAL"):
            c.known_region("C09-negated-class-exhausts-alphabet", "IndexError", z3.BoolVal(True))
    return _c


node_contract("SUBPATTERN", "_generate_subpattern")
node_contract("BRANCH", "_generate_branch")
node_contract("MAX_REPEAT", "_generate_max_repeat")
node_contract("MIN_REPEAT", "_generate_min_repeat")
node_contract("NOT_LITERAL", "_generate_not_literal")
node_contract("IN", "_generate_in")


@contract(RG, "RegexGenerator._generate_pattern", props=("C09", "C17", "C01"), group="regex")
def _pattern(c):
    rg_self(c)
    v = c.sym("value", "list")
    c.requires(wf_nodes(v), "well-formed-nodes")
    c.raises("ValueError", "IndexError", props=("C09",))
    c.ensures_exc("ValueError", "only-for-unsupported-constructs", lambda e, post: z3.Not(sup_nodes(v)), ("C09",))
    c.returns("str")
    c.reproducible()
    c.ensures("inLs", lambda r, post: z3.And(M.is_StrV(r), inLs(v, M.sval(r))), ("C09",))


@contract(RG, "RegexGenerator._generate", props=("C09", "C17", "C01"), group="regex")
def _generate(c):
    rg_self(c)
    op = c.sym("opcode", "int")
    v = c.sym("value")
    c.requires(M.is_IntV(op), "opcode-int")
    c.requires(wf_node(M.ival(op), v), "well-formed-node")
    c.raises("ValueError", "IndexError", props=("C09",))
    c.ensures_exc("ValueError", "only-for-unsupported-constructs", lambda e, post: z3.Not(sup_node(M.ival(op), v)), ("C09",))
    c.returns("str")
    c.reproducible()
    c.ensures("inL", lambda r, post: z3.And(M.is_StrV(r), inL(M.ival(op), v, M.sval(r))), ("C09",))


@contract(RG, "RegexGenerator._generate_not_in", props=("C09", "C17", "C01"), group="regex")
def _not_in(c):
    ct = c.ct
    c.no_merge = True
    rg_self(c)
    v = c.sym("value", "list")
    c.requires(z3.And(M.is_Ref(v), M.rcls(v) == ct.id("list"), wf_items(v)), "well-formed-items")
    c.raises("ValueError", "IndexError", props=("C09",))
    c.ensures_exc("ValueError", "only-for-unsupported-constructs", lambda e, post: z3.Not(sup_items(v, 0)), ("C09",))
    c.returns("str")
    c.reproducible()
    c.ensures("not-in-class", lambda r, post: z3.And(M.is_StrV(r), z3.Length(M.sval(r)) == 1,
                                                    z3.Not(class_match(v, 0, M.sval(r)))), ("C09",))
    c.known_region("C09-negated-class-exhausts-alphabet", "IndexError", z3.BoolVal(True))
    c.known_region("C09-negated-class-exhausts-alphabet", "Random.random_choice:requires[non-empty]", z3.BoolVal(True))
    c.known_region("C17-negated-class-set-order", "_generate_not_in:reproducible", z3.BoolVal(True))


@invariant(RG, "RegexGenerator._generate_not_in", loop=0)
def _inv_exclude(L):
    """L14: `exclude_letters` is a string holding every character matched by one of the class items seen so far."""
    ex, items = L.v("exclude_letters"), L.v("value")
    ch = z3.Const("xc", M.S)
    j = z3.Int("xj")
    return z3.And(M.is_StrV(ex),
                  z3.ForAll([ch, j], z3.Implies(
                      z3.And(0 <= j, j < L.i, z3.Length(ch) == 1,     # (implied by item_match; spelled out for the solver)
                             item_match(op_of(M.lat(items, j)), av_of(M.lat(items, j)), ch)),
                      M.chin(M.sval(ex), ch)),
                      patterns=[item_match(op_of(M.lat(items, j)), av_of(M.lat(items, j)), ch)]))


@contract(RG, "RegexGenerator.generate", props=("C09", "C17", "C01"), group="regex")
def _generate_top(c):
    """generate(p): the result is in the language of p's parse tree; ValueError only for unsupported constructs;
    re.error when p does not compile.  With the trusted link (see _axioms) this gives re.search(p, result) on the
    supported grammar, which is what Generator.visit_str and the validator use."""
    from pyvc.builtins import sre_tree
    from .generation import regex_gen_ok
    rg_self(c)
    p = c.sym("pattern", "str")
    c.requires(M.is_StrV(p), "pattern-is-str")
    c.raises("ValueError", "IndexError", "re.error", props=("C09",))
    c.raises_when("re.error", z3.Not(M.re_ok(M.sval(p))))
    c.ensures_exc("ValueError", "only-for-unsupported-constructs",
                  lambda e, post: z3.Not(sup_nodes(sre_tree(M.sval(p)))), ("C09",))
    c.returns("str")
    c.reproducible()
    c.ensures("in-language", lambda r, post: z3.And(M.is_StrV(r), inLs(sre_tree(M.sval(p)), M.sval(r))), ("C09",))
    c.ensures("matches", lambda r, post: z3.Implies(regex_gen_ok(M.sval(p)), M.re_search(M.sval(p), M.sval(r))), ("C09", "C01"))
    c.known_region("C09-negated-class-exhausts-alphabet", "IndexError", z3.BoolVal(True))
