"""Contracts for d42/validation/_formatter.py, the error classes' `format` methods, validate /
validate_or_fail / format_result / eq (C03 message names the path, C08 totality, C07 purity)."""
from __future__ import annotations

from typing import Any

import z3

from pyvc import model as M
from pyvc.builtins import fmt_path
from pyvc.contracts import abstract_contract, contract, invariant, transparent
from pyvc.model import Obj

from . import spec as S
from . import validation as V

FMT = "d42/validation/_formatter.py"
ERRS = "d42/validation/errors/__init__.py"
VINIT = "d42/validation/__init__.py"

transparent(FMT, "Formatter.__init__", "Formatter.root", "Formatter._format_path", "Formatter._at_path",
            "Formatter._get_type", "Formatter._pluralize", "Formatter._format_length_error")
transparent(ERRS, *[f"{e}ValidationError.format" for e in V.ERR_NAMES])

FORMAT_METHOD = {
    "Type": "format_type_error", "Value": "format_value_error", "MinValue": "format_min_value_error",
    "MaxValue": "format_max_value_error", "Length": "format_length_error",
    "MinLength": "format_min_length_error", "MaxLength": "format_max_length_error",
    "Alphabet": "format_alphabet_error", "Substr": "format_substr_error", "Regex": "format_regex_error",
    "MissingElement": "format_missing_element_error", "ExtraElement": "format_extra_element_error",
    "MissingKey": "format_missing_key_error", "ExtraKey": "format_extra_key_error",
    "SchemaMismatch": "format_schema_missmatch_error",
    "InvalidUUIDVersion": "format_invalid_uuid_version_error",
}


def shown_seq(ct, e: Any, ph: Any) -> Any:
    """the path a message must name: the error's path, extended by the missing index / key"""
    ps = z3.Select(ph, M.attr("path")(e))
    ec = M.rcls(e)
    return z3.If(ec == ct.id("MissingElementValidationError"), z3.Concat(ps, z3.Unit(M.attr("index")(e))),
           z3.If(ec == ct.id("MissingKeyValidationError"), z3.Concat(ps, z3.Unit(M.attr("missing_key")(e))), ps))


def message_ok(ct, r: Any, e: Any, root: Any, ph: Any) -> Any:
    ps = z3.Select(ph, M.attr("path")(e))
    ec = M.rcls(e)
    always = z3.Or(ec == ct.id("MissingElementValidationError"), ec == ct.id("MissingKeyValidationError"))
    return z3.And(M.is_StrV(r), z3.Length(M.sval(r)) > 0,
                  z3.Implies(z3.Or(always, z3.Length(ps) > 0),
                             z3.Contains(M.sval(r), fmt_path(root, shown_seq(ct, e, ph)))))


def format_contract(kind: str):
    def body(c):
        ct = c.ct
        c.built_self("Formatter")
        e = c.sym("error", kind + "ValidationError")
        c.requires(V.err_wf(ct, e, c.pre_alloc), "error-wf")
        c.requires(M.rcls(e) == ct.id(kind + "ValidationError"), "error-class")
        c.paths()
        c.raises(props=("C08",))
        c.returns("str")
        root = z3.StringVal("_")
        c.ensures("message", lambda r, post: message_ok(ct, r, e, root, c.pre_ph), ("C03", "C08"))
        c.ensures("path-frame", lambda r, post: V.path_frame(post), ("C03", "C07"))
    return body


for _k, _m in FORMAT_METHOD.items():
    contract(FMT, f"Formatter.{_m}", props=("C03", "C08", "C07"), group="formatter")(format_contract(_k))


@abstract_contract("ErrorFormat", props=("C03", "C08"))
def _error_format(c):
    """error.format(formatter) for an error of statically unknown class: what each of the 16
    `XValidationError.format` one-liners + `Formatter.format_x` is proved to satisfy."""
    ct = c.ct
    e = c.sym("error")
    fm = c.val("formatter")
    c.requires(V.err_wf(ct, e, c.pre_alloc), "error-wf")
    c.paths()
    c.raises()
    c.returns("str")
    root = z3.StringVal("_")
    c.ensures("message", lambda r, post: message_ok(ct, r, e, root, c.pre_ph))
    c.ensures("path-frame", lambda r, post: V.path_frame(post))


# ----------------------------------------------------------------------------- validate / validate_or_fail / format_result
from pyvc.loops import joined  # noqa: E402


@contract(VINIT, "validate", props=("C02", "C03", "C08", "C07"), group="validator")
def _validate(c):
    ct = c.ct
    Sx = c.sym("schema")
    v = c.sym("value")
    c.kwargs()
    c.requires(S.is_schema(ct, Sx), "is-schema")
    c.requires(S.wf(Sx), "wf")
    c.paths()
    c.raises(props=("C08",))
    c.returns("ValidationResult")
    empty = z3.Empty(M.SeqObj)
    c.ensures("result", lambda r, post: z3.And(*S.is_result(ct, r)), ("C02",))
    c.ensures("verdict", lambda r, post: S.no_errors(r) == S.conforms(Sx, v), ("C02",))
    c.ensures("located", lambda r, post: z3.And(
        V.errs_alloc(S.errors_of(r), post.alloc),
        V.errs_located(S.errors_of(r), lambda e: V.located_u(e, Sx, v, empty, V.epath(post.ph, e)))), ("C03",))
    c.ensures("path-frame", lambda r, post: V.path_frame(post), ("C03", "C07"))


def lines_ok(msg: Any, sep: str) -> Any:
    """msg is `sep` followed by the sep-join of a non-empty list of non-empty strings (one per error)"""
    L = z3.Const("lines", Obj)
    j = z3.Int("lj")
    return z3.Exists([L], z3.And(
        M.llen(L) >= 1,
        msg == z3.Concat(z3.StringVal(sep), joined(z3.StringVal(sep), L)),
        z3.ForAll([j], z3.Implies(z3.And(0 <= j, j < M.llen(L)),
                                  z3.And(M.is_StrV(M.lat(L, j)), z3.Length(M.sval(M.lat(L, j))) > 0)),
                  patterns=[M.lat(L, j)])),
        patterns=[joined(z3.StringVal(sep), L)])


@contract(VINIT, "validate_or_fail", props=("C08", "C02", "C07"), group="validator")
def _validate_or_fail(c):
    ct = c.ct
    Sx = c.sym("schema")
    v = c.sym("value")
    c.kwargs()
    c.requires(S.is_schema(ct, Sx), "is-schema")
    c.requires(S.wf(Sx), "wf")
    c.paths()
    c.raises("ValidationException", props=("C08",))
    c.raises_when("ValidationException", z3.Not(S.conforms(Sx, v)))
    c.returns("bool")
    c.ensures("returns-true", lambda r, post: r == M.mk_bool(True), ("C08",))
    c.ensures_exc("ValidationException", "one-line-per-error",
                  lambda e, post: z3.And(M.is_StrV(M.lat(M.attr("args")(e), 0)),
                                         lines_ok(M.sval(M.lat(M.attr("args")(e), 0)), "\n - ")), ("C08",))
    c.ensures("path-frame", lambda r, post: V.path_frame(post), ("C07",))


@contract(VINIT, "format_result", props=("C08", "C07"), group="validator")
def _format_result(c):
    ct = c.ct
    r0 = c.sym("result", "ValidationResult")
    c.sym("formatter", "Formatter")
    c.requires(z3.And(*S.is_result(ct, r0)), "is-result")
    c.requires(V.errs_alloc(S.errors_of(r0), c.pre_alloc), "errors-wf")
    c.requires(z3.And(M.is_Ref(c.sym("formatter")), M.rcls(c.sym("formatter")) == ct.id("Formatter")), "formatter")
    c.paths()
    c.raises(props=("C08",))
    c.returns("list")
    j = z3.Int("fj")
    c.ensures("lines", lambda r, post: z3.And(
        M.is_Ref(r), (M.llen(r) == 0) == S.no_errors(r0),
        z3.Implies(z3.Not(S.no_errors(r0)), M.llen(r) == 1 + M.llen(S.errors_of(r0))),
        z3.ForAll([j], z3.Implies(z3.And(0 <= j, j < M.llen(r)),
                                  z3.And(M.is_StrV(M.lat(r, j)), z3.Length(M.sval(M.lat(r, j))) > 0)),
                  patterns=[M.lat(r, j)])), ("C08",))
    c.ensures("path-frame", lambda r, post: V.path_frame(post), ("C07",))
