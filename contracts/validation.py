"""Contracts for d42/validation (C02 verdict, C03 located/true errors + path frame, C08 totality)."""
from __future__ import annotations

from typing import Any, List

import z3

from pyvc import model as M
from pyvc.contracts import accept_contract, contract, invariant, transparent
from pyvc.model import Obj

from . import spec as S

VAL = "d42/validation/_validator.py"
# the verdict contract is what C01 / C04 / C05 / C12 / C14 / C15 compose with: their checks re-prove it
DEP_VERDICT = ("C02", "C01", "C04", "C05", "C12", "C13", "C14", "C15")
RES = "d42/validation/_validation_result.py"

# -- transparent helpers (expanded from their real source at every call site) ------------------------
transparent("d42/declaration/_props.py", "Props.get", "Props.__init__", "Props.set", "Props.update",
            "Props.__iter__")
transparent("d42/declaration/types/_schema.py", "Schema.props", "Schema.__init__")
transparent("d42/declaration/_is_ellipsis.py", "is_ellipsis")
transparent(VAL, "Validator.__init__", "Validator._validate_type", "Validator._validate_value",
            "Validator.make_validation_result", "Validator.make_path")
transparent(RES, "ValidationResult.__init__", "ValidationResult.add_error",
            "ValidationResult.has_errors", "ValidationResult.get_errors")
for _cls, _props in [("Bool", ["value"]), ("Int", ["value", "min", "max"]),
                     ("Float", ["value", "min", "max", "precision"]),
                     ("Str", ["value", "len", "min_len", "max_len", "alphabet", "substr", "pattern"]),
                     ("List", ["elements", "type", "len", "min_len", "max_len"]),
                     ("Dict", ["keys"]), ("Any", ["types"]), ("Bytes", ["value"]),
                     ("UUID4", ["value"]), ("DateTime", ["value"]), ("Date", ["value"])]:
    _f = {"Bool": "_bool_schema", "Int": "_int_schema", "Float": "_float_schema", "Str": "_str_schema",
          "List": "_list_schema", "Dict": "_dict_schema", "Any": "_any_schema", "Bytes": "_bytes_schema",
          "UUID4": "_uuid4_schema", "DateTime": "_datetime_schema", "Date": "_date_schema"}[_cls]
    transparent(f"d42/declaration/types/{_f}.py", *[f"{_cls}Props.{p}" for p in _props],
                f"{_cls}Schema.__accept__")
transparent("d42/declaration/types/_none_schema.py", "NoneSchema.__accept__")
transparent("d42/declaration/types/_type_alias_schema.py", "TypeAliasProps.type", "TypeAliasProps.name",
            "GenericTypeAliasSchema.__accept__")
_ERRS = ["Type", "Value", "MinValue", "MaxValue", "Length", "MinLength", "MaxLength", "Alphabet",
         "Substr", "Regex", "MissingElement", "ExtraElement", "MissingKey", "ExtraKey",
         "SchemaMismatch", "InvalidUUIDVersion"]
transparent("d42/validation/errors/__init__.py", *[f"{e}ValidationError.__init__" for e in _ERRS])


# -- error facts (C03) -------------------------------------------------------------------------------
def err_fact(ct, cls: str, e: Any, Sx: Any, v: Any) -> Any:
    """`fact(e, S, v)` of DESIGN §3 for the error classes a scalar schema of class `cls` can report."""
    ec = M.rcls(e)
    P = lambda n: S.prop(Sx, n)
    D = lambda n: S.declared(Sx, n)
    A = lambda n: M.attr(n)(e)
    E = lambda n: ec == ct.id(n + "ValidationError")
    alts: List[Any] = []
    if cls in S.VALUE_TYPE:
        t = S.VALUE_TYPE[cls]
        alts.append(z3.And(E("Type"), z3.Not(M.isinstance_f(ct, v, t)),
                           A("expected_type") == M.ClsV(ct.id(t))))
    if cls in ("BoolSchema", "IntSchema", "StrSchema", "BytesSchema", "DateTimeSchema", "DateSchema",
               "UUID4Schema"):
        alts.append(z3.And(E("Value"), D("value"), A("expected_value") == P("value"),
                           z3.Not(M.py_eq(v, P("value")))))
    if cls == "FloatSchema":
        alts.append(z3.And(E("Value"), D("value"), A("expected_value") == P("value"),
                           z3.Not(S.feq(v, P("value"), P("precision")))))
    if cls in ("IntSchema", "FloatSchema"):
        alts.append(z3.And(E("MinValue"), D("min"), A("min_value") == P("min"), M.num_lt(v, P("min"))))
        alts.append(z3.And(E("MaxValue"), D("max"), A("max_value") == P("max"), M.num_lt(P("max"), v)))
    if cls == "StrSchema":
        s = M.sval(v)
        n = z3.Length(s)
        alts += [
            z3.And(E("Regex"), D("pattern"), A("pattern") == P("pattern"),
                   z3.Not(M.re_search(M.sval(P("pattern")), s))),
            z3.And(E("Length"), D("len"), A("length") == P("len"), n != M.int_of(P("len"))),
            z3.And(E("MinLength"), D("min_len"), A("min_length") == P("min_len"), n < M.int_of(P("min_len"))),
            z3.And(E("MaxLength"), D("max_len"), A("max_length") == P("max_len"), n > M.int_of(P("max_len"))),
            z3.And(E("Substr"), D("substr"), A("substr") == P("substr"),
                   z3.Not(z3.Contains(s, M.sval(P("substr"))))),
            z3.And(E("Alphabet"), D("alphabet"), A("alphabet") == P("alphabet"),
                   z3.Not(S.in_alphabet(s, M.sval(P("alphabet"))))),
        ]
    if cls == "UUID4Schema":
        alts.append(z3.And(E("InvalidUUIDVersion"), M.isinstance_f(ct, v, "UUID"),
                           z3.Not(M.py_eq(M.attr("version")(v), M.mk_int(4))),
                           A("actual_version") == M.attr("version")(v),
                           A("expected_version") == M.mk_int(4)))
    if cls in S.VALUE_TYPE and len(alts) > 1:
        isT = M.isinstance_f(ct, v, S.VALUE_TYPE[cls])
        alts = [alts[0]] + [z3.And(isT, a) for a in alts[1:]]
    return z3.Or(*alts) if alts else z3.BoolVal(False)


def all_errors(r: Any, pred) -> Any:
    j = z3.Int("ej")
    errs = S.errors_of(r)
    return z3.ForAll([j], z3.Implies(z3.And(0 <= j, j < M.llen(errs)), pred(M.lat(errs, j))),
                     patterns=[M.lat(errs, j)])


def located(ct, cls, r, Sx, v, pseq, post) -> Any:
    """C03 local rule: every reported error sits at the path handed in, reports the value handed in,
    and states a true fact about it."""
    return all_errors(r, lambda e: z3.And(
        M.is_Ref(e),
        z3.Select(post.ph, M.attr("path")(e)) == pseq,
        M.attr("actual_value")(e) == v,
        err_fact(ct, cls, e, Sx, v)))


def path_frame(post) -> Any:
    """No PathHolder that existed before the call has been changed (C03 sibling isolation, C07)."""
    p = z3.Const("fp", Obj)
    return z3.ForAll([p], z3.Implies(M.rid(p) < post.pre_alloc,
                                     z3.Select(post.ph, p) == z3.Select(post.pre_ph, p)),
                     patterns=[z3.Select(post.ph, p)])


def scalar_visit(cls: str):
    def body(c):
        ct = c.ct
        c.built_self("Validator")
        Sx = c.sym("schema", cls)
        v = c.sym("value")
        p = c.sym("path", "PathHolder")
        c.kwargs()
        for f in S.wf_def(ct, cls, Sx):
            c.requires(f)
        c.requires(S.path_ok(ct, p, c.pre_alloc), "path")
        c.requires(S.deep_range(v), "float-repr")
        c.paths()
        c.returns("ValidationResult")
        c.raises(props=("C08", "C12"))
        pseq = S.pathseq_in(c.pre_ph, p)
        c.ensures("result", lambda r, post: z3.And(*S.is_result(ct, r)), ("C02",))
        c.ensures("verdict", lambda r, post: S.no_errors(r) == S.conforms_def(ct, cls, Sx, v), DEP_VERDICT)
        c.ensures("located", lambda r, post: located(ct, cls, r, Sx, v, pseq, post), ("C03",))
        c.ensures("errors-wf", lambda r, post: errs_alloc(S.errors_of(r), post.alloc), ("C03", "C08"))
        c.ensures("path-frame", lambda r, post: path_frame(post), ("C03", "C07"))
        if cls == "FloatSchema":
            c.known_region("C02-float-nan", "visit_float:ensures[verdict]",
                           z3.Or(M.is_FNanV(v), M.is_FNanV(S.prop(Sx, "min")), M.is_FNanV(S.prop(Sx, "max"))))
    return body


for _m, _cls in [("visit_none", "NoneSchema"), ("visit_bool", "BoolSchema"), ("visit_int", "IntSchema"),
                 ("visit_float", "FloatSchema"), ("visit_str", "StrSchema"),
                 ("visit_bytes", "BytesSchema"), ("visit_datetime", "DateTimeSchema"),
                 ("visit_uuid4", "UUID4Schema"), ("visit_date", "DateSchema")]:
    contract(VAL, f"Validator.{_m}", props=("C02", "C03", "C08", "C07", "C01", "C04", "C05", "C12", "C13", "C14", "C15"), group="validator")(scalar_visit(_cls))


# -- loop invariants -----------------------------------------------------------------------------------
@invariant(VAL, "Validator.visit_str", loop=0)
def _inv_alphabet(L):
    """L2: every letter seen so far is in the alphabet; nothing has been recorded by the loop."""
    v = M.sval(L.v("value"))
    a = M.sval(S.prop(L.v("schema"), "alphabet"))
    j = z3.Int("ij")
    return z3.And(L.v("result") == L.pre("result"),
                  z3.ForAll([j], z3.Implies(z3.And(0 <= j, j < L.i), z3.Contains(a, z3.SubString(v, j, 1))),
                            patterns=[z3.SubString(v, j, 1)]))


# =====================================================================================================
# Containers: Accept[Validator], ValidationResult.add_errors, _validate_elements, visit_list/dict/any/alias
# =====================================================================================================
located_u = z3.Function("located_u", Obj, Obj, Obj, M.SeqObj, M.SeqObj, M.B)
"""located_u(e, S, v, base, epath): error e, found while validating value v against schema S reached
under path `base`, sits at path `epath` below `base`, reports the sub-value found there and states a
true fact about it.  Defined by cases on the class of S (located_def); members appear only under
located_u itself (structural induction, as for `conforms`)."""


def epath(post_ph: Any, e: Any) -> Any:
    return z3.Select(post_ph, M.attr("path")(e))


def transparent_more():
    transparent(RES, "ValidationResult.__init__")


def local_head(ct, e, v, base, ep):
    return z3.And(M.is_Ref(e), ep == base, M.attr("actual_value")(e) == v)


def located_def(ct, cls: str, e: Any, Sx: Any, v: Any, base: Any, ep: Any) -> Any:
    """Definition of located_u for a schema of class `cls`."""
    if cls not in ("ListSchema", "DictSchema", "AnySchema", "TypeAliasSchema"):
        return z3.And(local_head(ct, e, v, base, ep), err_fact(ct, cls, e, Sx, v))
    ec = M.rcls(e)
    A = lambda n: M.attr(n)(e)
    E_ = lambda n: ec == ct.id(n + "ValidationError")
    P = lambda n: S.prop(Sx, n)
    D = lambda n: S.declared(Sx, n)
    if cls == "TypeAliasSchema":
        r = S.reg_of(Sx)
        return z3.And(M.has(r, S.S_("type")), located_u(e, M.dget(r, S.S_("type")), v, base, ep))
    if cls == "AnySchema":
        t = P("types")
        j = z3.Int("aj")
        return z3.And(local_head(ct, e, v, base, ep), E_("SchemaMismatch"), D("types"),
                      A("expected_schemas") == t,
                      z3.ForAll([j], z3.Implies(z3.And(0 <= j, j < M.llen(t)), z3.Not(S.conforms(M.lat(t, j), v))),
                                patterns=[M.lat(t, j)]))
    if cls == "ListSchema":
        n = M.llen(v)
        El = P("elements")
        m = M.llen(El)
        idx = M.int_of(A("index"))
        islist = M.isinstance_f(ct, v, "list")
        local = z3.And(local_head(ct, e, v, base, ep), z3.Or(
            z3.And(E_("Type"), z3.Not(islist), A("expected_type") == M.ClsV(ct.id("list"))),
            z3.And(E_("Length"), islist, D("len"), A("length") == P("len"), n != M.int_of(P("len"))),
            z3.And(E_("MinLength"), islist, D("min_len"), A("min_length") == P("min_len"), n < M.int_of(P("min_len"))),
            z3.And(E_("MaxLength"), islist, D("max_len"), A("max_length") == P("max_len"), n > M.int_of(P("max_len"))),
            z3.And(E_("MissingElement"), islist, D("elements"), M.is_intlike(A("index")), idx >= n, idx >= 0),
            z3.And(E_("ExtraElement"), islist, D("elements"), M.is_intlike(A("index")), idx >= 0, idx < n,
                   idx >= m)))
        j = z3.Int("dj")
        k = z3.Int("dk")
        desc_typed = z3.And(D("type"), z3.Exists([j], z3.And(
            0 <= j, j < n, located_u(e, P("type"), M.lat(v, j), z3.Concat(base, z3.Unit(M.IntV(j))), ep))))
        desc_elems = z3.And(D("elements"), z3.Exists([j, k], z3.And(
            0 <= j, j < n, 0 <= k, k < m, M.lat(El, k) != M.EllV,
            located_u(e, M.lat(El, k), M.lat(v, j), z3.Concat(base, z3.Unit(M.IntV(j))), ep))))
        return z3.Or(local, z3.And(islist, z3.Or(desc_typed, desc_elems)))
    if cls == "DictSchema":
        K = P("keys")
        isdict = M.isinstance_f(ct, v, "dict")
        local = z3.And(local_head(ct, e, v, base, ep), z3.Or(
            z3.And(E_("Type"), z3.Not(isdict), A("expected_type") == M.ClsV(ct.id("dict"))),
            z3.And(E_("MissingKey"), isdict, D("keys"), M.has(K, A("missing_key")), A("missing_key") != M.EllV,
                   z3.Not(M.has(v, A("missing_key"))),
                   M.lat(M.dget(K, A("missing_key")), 1) != M.mk_bool(True)),
            z3.And(E_("ExtraKey"), isdict, D("keys"), M.has(v, A("extra_key")), z3.Not(M.has(K, A("extra_key"))),
                   z3.Not(M.has(K, M.EllV)))))
        x = z3.Const("dx", Obj)
        desc = z3.And(isdict, D("keys"), z3.Exists([x], z3.And(
            M.has(K, x), x != M.EllV, M.has(v, x),
            located_u(e, M.lat(M.dget(K, x), 0), M.dget(v, x), z3.Concat(base, z3.Unit(x)), ep))))
        return z3.Or(local, desc)
    raise KeyError(cls)


def errs_located(errs: Any, pred) -> Any:
    j = z3.Int("ej")
    return z3.ForAll([j], z3.Implies(z3.And(0 <= j, j < M.llen(errs)), pred(M.lat(errs, j))),
                     patterns=[M.lat(errs, j)])


ERR_NAMES = ["Type", "Value", "MinValue", "MaxValue", "Length", "MinLength", "MaxLength", "Alphabet",
             "Substr", "Regex", "MissingElement", "ExtraElement", "MissingKey", "ExtraKey",
             "SchemaMismatch", "InvalidUUIDVersion"]


def sized(ct, x: Any) -> Any:
    return z3.Or(M.is_StrV(x), M.is_BytesV(x),
                 z3.And(M.is_Ref(x), z3.Or(ct.sub_formula(M.rcls(x), "list"), ct.sub_formula(M.rcls(x), "tuple"),
                                           ct.sub_formula(M.rcls(x), "dict"), ct.sub_formula(M.rcls(x), "set"))))


def err_wf(ct, e: Any, alloc: Any) -> Any:
    """Representation invariant of a reported error (what the formatter relies on): one of the 16
    error classes, its PathHolder is allocated, length errors carry a sized value and an int length,
    element errors an int index."""
    ec = M.rcls(e)
    E = lambda n: ec == ct.id(n + "ValidationError")
    A = lambda n: M.attr(n)(e)
    p = A("path")
    return z3.And(
        M.is_Ref(e), z3.Or(*[E(n) for n in ERR_NAMES]),
        M.is_Ref(p), M.rcls(p) == ct.id("PathHolder"), M.rid(p) < alloc,
        z3.Implies(E("Length"), z3.And(sized(ct, A("actual_value")), M.is_intlike(A("length")))),
        z3.Implies(E("MinLength"), z3.And(sized(ct, A("actual_value")), M.is_intlike(A("min_length")))),
        z3.Implies(E("MaxLength"), z3.And(sized(ct, A("actual_value")), M.is_intlike(A("max_length")))),
        z3.Implies(z3.Or(E("MissingElement"), E("ExtraElement")), M.is_intlike(A("index"))))


def errs_alloc(errs: Any, alloc: Any) -> Any:
    """every error is well-formed and its PathHolder has been allocated (so later frames preserve it)"""
    return errs_located(errs, lambda e: err_wf(S.CT, e, alloc))


@accept_contract("Validator", props=("C02", "C03", "C08", "C16"))
def _accept_validator(c):
    """Accept[Validator]: what every Validator.visit_* is separately proved to satisfy (modular rule)."""
    ct = c.ct
    Mx = c.sym("schema")
    v = c.sym("value")
    p = c.sym("path", "PathHolder")
    c.requires(S.is_schema(ct, Mx), "member-is-schema")
    c.requires(S.wf(Mx), "member-wf")
    c.requires(S.path_ok(ct, p, c.pre_alloc), "path")
    c.paths()
    c.returns("ValidationResult")
    c.raises()
    base = S.pathseq_in(c.pre_ph, p)
    c.ensures("result", lambda r, post: z3.And(*S.is_result(ct, r)))
    c.ensures("verdict", lambda r, post: S.no_errors(r) == S.conforms(Mx, v))
    c.ensures("located", lambda r, post: z3.And(
        errs_alloc(S.errors_of(r), post.alloc),
        errs_located(S.errors_of(r), lambda e: located_u(e, Mx, v, base, epath(post.ph, e)))))
    c.ensures("path-frame", lambda r, post: path_frame(post))


@contract(RES, "ValidationResult.add_errors", props=("C02", "C03", "C07"), group="validator")
def _add_errors(c):
    ct = c.ct
    c.declare("self", "ValidationResult")
    errs = c.sym("errors", "list")
    c.requires(M.isinstance_f(ct, errs, "list"))
    c.raises()
    c.mutates("self", "_errors", lambda old, new: concat_rel(new, old, errs))
    c.returns_arg = "self"


def concat_rel(new: Any, a: Any, b: Any) -> Any:
    j = z3.Int("cj")
    return z3.And(M.llen(new) == M.llen(a) + M.llen(b),
                  z3.ForAll([j], z3.Implies(z3.And(0 <= j, j < M.llen(a)), M.lat(new, j) == M.lat(a, j)),
                            patterns=[M.lat(new, j)]),
                  z3.ForAll([j], z3.Implies(z3.And(0 <= j, j < M.llen(b)), M.lat(new, M.llen(a) + j) == M.lat(b, j)),
                            patterns=[M.lat(b, j)]),
                  z3.ForAll([j], z3.Implies(z3.And(M.llen(a) <= j, j < M.llen(a) + M.llen(b)),
                                            M.lat(new, j) == M.lat(b, j - M.llen(a))),
                            patterns=[M.lat(new, j)]))


@invariant(RES, "ValidationResult.add_errors", loop=0)
def _inv_add_errors(L):
    errs = L.v("errors")
    cur = L.v("self")
    old = L.pre("self")
    j = z3.Int("ij")
    return z3.And(M.llen(cur) == M.llen(old) + L.i,
                  z3.ForAll([j], z3.Implies(z3.And(0 <= j, j < M.llen(old)), M.lat(cur, j) == M.lat(old, j)),
                            patterns=[M.lat(cur, j)]),
                  z3.ForAll([j], z3.Implies(z3.And(0 <= j, j < L.i), M.lat(cur, M.llen(old) + j) == M.lat(errs, j)),
                            patterns=[M.lat(errs, j)]),
                  z3.ForAll([j], z3.Implies(z3.And(M.llen(old) <= j, j < M.llen(old) + L.i),
                                            M.lat(cur, j) == M.lat(errs, j - M.llen(old))),
                            patterns=[M.lat(cur, j)]))


# ----------------------------------------------------------------------------- _validate_elements
def ve_located(ct, e, El, v, start, base, ep, upto):
    """clause for one error of _validate_elements: a MissingElement at this level, or an error located
    under element j < upto"""
    n = M.llen(v)
    j = z3.Int("vj")
    idx = M.int_of(M.attr("index")(e))
    missing = z3.And(M.rcls(e) == ct.id("MissingElementValidationError"), ep == base,
                     M.attr("actual_value")(e) == v, M.is_intlike(M.attr("index")(e)),
                     idx >= n, idx >= start, idx < start + upto)
    under = z3.Exists([j], z3.And(0 <= j, j < upto, start + j < n,
                                  located_u(e, M.lat(El, j), M.lat(v, start + j),
                                            z3.Concat(base, z3.Unit(M.IntV(start + j))), ep)))
    return z3.And(M.is_Ref(e), z3.Or(missing, under))


def elems_conform(El, v, start, upto):
    return S.window_ok(El, 0, upto, v, start)


def elements_wf(ct, El):
    j = z3.Int("wj")
    return z3.And(M.isinstance_f(ct, El, "list"),
                  z3.ForAll([j], z3.Implies(z3.And(0 <= j, j < M.llen(El)),
                                            z3.And(S.is_schema(ct, M.lat(El, j)), S.wf(M.lat(El, j)))),
                            patterns=[M.lat(El, j)]))


@contract(VAL, "Validator._validate_elements", props=("C02", "C03", "C08", "C07", "C16"), group="validator")
def _validate_elements(c):
    ct = c.ct
    c.built_self("Validator")
    p = c.sym("path", "PathHolder")
    v = c.sym("value", "list")
    El = c.sym("elements", "list")
    st = c.sym("start", "int")
    c.kwargs()
    n, k, s0 = M.llen(v), M.llen(El), M.int_of(st)
    c.requires(z3.And(M.is_Ref(p), M.rcls(p) == ct.id("PathHolder"), M.rid(p) < c.pre_alloc), "path")
    c.requires(M.isinstance_f(ct, v, "list"), "value-is-list")
    c.requires(elements_wf(ct, El), "elements-wf")
    c.requires(z3.And(M.is_intlike(st), s0 >= 0, z3.Or(k > 0, s0 <= n)), "start")
    c.paths()
    c.raises()
    c.returns("list")
    base = z3.Select(c.pre_ph, p)
    c.ensures("is-list", lambda r, post: z3.And(M.is_Ref(r), M.rcls(r) == ct.id("list")))
    c.ensures("verdict", lambda r, post: (M.llen(r) == 0) == z3.And(s0 + k <= n, elems_conform(El, v, s0, k)),
              ("C02",))
    c.ensures("located", lambda r, post: z3.And(
        errs_alloc(r, post.alloc),
        errs_located(r, lambda e: ve_located(ct, e, El, v, s0, base, epath(post.ph, e), k))), ("C03",))
    c.ensures("path-frame", lambda r, post: path_frame(post), ("C03", "C07"))


@invariant(VAL, "Validator._validate_elements", loop=0)
def _inv_validate_elements(L):
    ct = L.ct
    errs = L.v("errors")
    v, El = L.v("value"), L.v("elements")
    s0 = M.int_of(L.v("start"))
    n = M.llen(v)
    base = z3.Select(L.ph_entry, L.v("path"))
    j = z3.Int("ij")
    return z3.And(
        M.is_Ref(errs), M.rcls(errs) == ct.id("list"),
        z3.ForAll([j], z3.Implies(z3.And(0 <= j, j < L.i), s0 + j < n), patterns=[M.lat(El, j)]),
        z3.Implies(L.i > 0, s0 + L.i - 1 < n),
        (M.llen(errs) == 0) == elems_conform(El, v, s0, L.i),
        errs_alloc(errs, L.alloc),
        errs_located(errs, lambda e: ve_located(ct, e, El, v, s0, base, z3.Select(L.ph, M.attr("path")(e)), L.i)),
        z3.Select(L.ph, L.v("path")) == base)


# ----------------------------------------------------------------------------- container visits
rvalid = z3.Function("rvalid", Obj, Obj, M.B)
"""rvalid(S, v): the name the Substitutor contracts use for `the relaxed pre-validation of v against S reports no error`.
The relaxed validator is verified in contracts/relaxed.py against the specification relation rconforms; every call-site
contract states rvalid(S, v) == rconforms_def(class of S, S, v)."""


def self_is_relaxed(c) -> bool:
    if c.mode != "call" or "self" not in c.args:
        return False
    try:
        return c.ex.hint_of(c.args["self"], c.st) == "SubstitutorValidator"
    except Exception:
        return False


def relaxed_container_visit(c, cls: str) -> None:
    """call-site contract of visit_<container> when the visitor is the SubstitutorValidator (assumed)"""
    ct = c.ct
    Sx = c.sym("schema", cls)
    v = c.sym("value")
    if c.has_arg("path"):
        c.sym("path")
    c.kwargs()
    c.paths()
    c.returns("ValidationResult")
    c.raises()
    c.ex.used_assumptions.add("SubstitutorValidator (relaxed validation of list / dict / any / alias values): the verdict is "
                              "named by the uninterpreted rvalid(schema, value) (a pure function of its arguments); proved against "
                              "the overrides' bodies: no exception, a passing list value is a list within the declared lengths, a "
                              "passing dict value is a dict; ASSUMED: an exact element list admits only values of its length, and "
                              "what the verdict says about members")
    c.ensures("result", lambda r, post: z3.And(*S.is_result(ct, r)))
    c.ensures("verdict", lambda r, post: S.no_errors(r) == rvalid(Sx, v))
    c.ensures("errors-wf", lambda r, post: errs_alloc(S.errors_of(r), post.alloc))
    c.ensures("path-frame", lambda r, post: path_frame(post))


def _rvalid_axioms(ct) -> List[Any]:
    Sx, v = z3.Consts("rvS rvv", Obj)
    ln, mn, mx = S.prop(Sx, "len"), S.prop(Sx, "min_len"), S.prop(Sx, "max_len")
    n = M.llen(v)
    return [
        z3.ForAll([Sx, v], z3.Implies(z3.And(rvalid(Sx, v), M.is_Ref(Sx), M.rcls(Sx) == ct.id("ListSchema")), z3.And(
            M.isinstance_f(ct, v, "list"),
            z3.Implies(ln != M.NilV, n == M.int_of(ln)), z3.Implies(mn != M.NilV, n >= M.int_of(mn)),
            z3.Implies(mx != M.NilV, n <= M.int_of(mx)),
            # exact element list (no `...`, no type): as many values as element schemas
            z3.Implies(z3.And(S.prop(Sx, "type") == M.NilV, S.prop(Sx, "elements") != M.NilV,
                              z3.Or(M.llen(S.prop(Sx, "elements")) == 0,
                                    z3.And(M.lat(S.prop(Sx, "elements"), 0) != M.EllV,
                                           M.lat(S.prop(Sx, "elements"), M.llen(S.prop(Sx, "elements")) - 1) != M.EllV))),
                       n == M.llen(S.prop(Sx, "elements"))))), patterns=[rvalid(Sx, v)]),
        z3.ForAll([Sx, v], z3.Implies(z3.And(rvalid(Sx, v), M.is_Ref(Sx), M.rcls(Sx) == ct.id("DictSchema")),
                                      M.isinstance_f(ct, v, "dict")), patterns=[rvalid(Sx, v)]),
    ]


# (no longer axioms: the relaxed validator is verified in contracts/relaxed.py; what a passing verdict implies follows
#  from rvalid(S, v) == rconforms_def(class, S, v), which the call-site contract and the lemmas state)


def container_visit(cls: str, visitor: str = "Validator"):
    def body(c):
        ct = c.ct
        if self_is_relaxed(c):
            # the inherited body run by a SubstitutorValidator validates the members relaxedly: the strict verdict
            # clause below would be unsound there
            return relaxed_container_visit(c, cls)
        c.built_self(visitor)
        Sx = c.sym("schema", cls)
        v = c.sym("value")
        p = c.sym("path", "PathHolder")
        c.kwargs()
        for f in S.wf_def(ct, cls, Sx):
            c.requires(f)
        c.requires(S.path_ok(ct, p, c.pre_alloc), "path")
        c.requires(S.deep_range(v), "float-repr")
        c.paths()
        c.returns("ValidationResult")
        c.raises(props=("C08", "C12"))
        base = S.pathseq_in(c.pre_ph, p)
        c.ensures("result", lambda r, post: z3.And(*S.is_result(ct, r)), ("C02",))
        c.ensures("verdict", lambda r, post: S.no_errors(r) == S.conforms_def(ct, cls, Sx, v), DEP_VERDICT)
        c.ensures("located", lambda r, post: z3.And(
            errs_alloc(S.errors_of(r), post.alloc),
            errs_located(S.errors_of(r), lambda e: located_def(ct, cls, e, Sx, v, base, epath(post.ph, e)))),
            ("C03",))
        c.ensures("path-frame", lambda r, post: path_frame(post), ("C03", "C07"))
    return body


for _m, _cls in [("visit_list", "ListSchema"), ("visit_dict", "DictSchema"), ("visit_any", "AnySchema"),
                 ("visit_type_alias", "TypeAliasSchema")]:
    contract(VAL, f"Validator.{_m}", props=("C02", "C03", "C08", "C07", "C16", "C01", "C04", "C05", "C12", "C13", "C14", "C15"),
             group="validator")(container_visit(_cls))


def _path_fixed(L):
    return z3.Select(L.ph, L.v("path")) == z3.Select(L.ph_entry, L.v("path"))


def _base(L):
    return z3.Select(L.ph_entry, L.v("path"))


@invariant(VAL, "Validator.visit_list", loop=0)
def _inv_list_typed(L):
    """L3: typed list -- no error so far iff every element so far conforms; every error is located under
    an element index already visited."""
    ct = L.ct
    errs, v = L.v("result"), L.v("value")
    t = L.v("type_schema")
    j = z3.Int("tj")
    ej = z3.Int("ej2")
    base = _base(L)
    return z3.And(
        M.is_Ref(errs), M.rcls(errs) == ct.id("list"),
        (M.llen(errs) == 0) == z3.ForAll([j], z3.Implies(z3.And(0 <= j, j < L.i), S.conforms(t, M.lat(v, j))),
                                         patterns=[M.lat(v, j)]),
        errs_alloc(errs, L.alloc),
        errs_located(errs, lambda e: z3.Exists([ej], z3.And(
            0 <= ej, ej < L.i, located_u(e, t, M.lat(v, ej), z3.Concat(base, z3.Unit(M.IntV(ej))),
                                         z3.Select(L.ph, M.attr("path")(e)))))),
        _path_fixed(L))


@invariant(VAL, "Validator.visit_list", loop=1)
def _inv_list_contains(L):
    """L4: all_errors[m] is the error list of window m (empty iff the window fits and conforms)."""
    ct = L.ct
    ae, v, El = L.v("all_errors"), L.v("value"), L.v("elements")
    n, kk = M.llen(v), M.llen(El) - 2
    base = _base(L)
    m = z3.Int("wm")
    ej = z3.Int("we")
    inner = lambda mm: M.lat(ae, mm)
    win_ok = lambda mm: z3.And(mm + kk <= n, S.window_ok(El, 1, kk, v, mm))
    return z3.And(
        M.is_Ref(ae), M.rcls(ae) == ct.id("list"), M.llen(ae) == L.i,
        L.v("result") == L.pre("result"),
        z3.ForAll([m], z3.Implies(z3.And(0 <= m, m < L.i), z3.And(
            M.is_Ref(inner(m)), M.rcls(inner(m)) == ct.id("list"),
            (M.llen(inner(m)) == 0) == win_ok(m),
            errs_alloc(inner(m), L.alloc),
            z3.ForAll([ej], z3.Implies(z3.And(0 <= ej, ej < M.llen(inner(m))),
                                       ve_located_off(ct, M.lat(inner(m), ej), El, 1, v, m, base,
                                                      z3.Select(L.ph, M.attr("path")(M.lat(inner(m), ej))), kk)),
                      patterns=[M.lat(inner(m), ej)]))),
            patterns=[M.lat(ae, m), S.window_ok(El, 1, kk, v, m)]),
        _path_fixed(L))


def ve_located_off(ct, e, El, eoff, v, start, base, ep, upto):
    """ve_located with the element schemas taken from El[eoff + j]"""
    n = M.llen(v)
    j = z3.Int("vj")
    idx = M.int_of(M.attr("index")(e))
    missing = z3.And(M.rcls(e) == ct.id("MissingElementValidationError"), ep == base,
                     M.attr("actual_value")(e) == v, M.is_intlike(M.attr("index")(e)),
                     idx >= n, idx >= start, idx < start + upto)
    under = z3.Exists([j], z3.And(0 <= j, j < upto, start + j < n,
                                  located_u(e, M.lat(El, eoff + j), M.lat(v, start + j),
                                            z3.Concat(base, z3.Unit(M.IntV(start + j))), ep)))
    return z3.And(M.is_Ref(e), z3.Or(missing, under))


@invariant(VAL, "Validator.visit_list", loop=2)
def _inv_list_extra(L):
    """L5: the errors recorded before the loop are kept; one ExtraElement error per surplus index."""
    ct = L.ct
    errs, pre, v, El = L.v("result"), L.pre("result"), L.v("value"), L.v("elements")
    n, m = M.llen(v), M.llen(El)
    j = z3.Int("xj")
    pth = L.v("path")
    return z3.And(
        M.is_Ref(errs), M.rcls(errs) == ct.id("list"),
        M.llen(errs) == M.llen(pre) + L.i,
        z3.ForAll([j], z3.Implies(z3.And(0 <= j, j < M.llen(pre)), M.lat(errs, j) == M.lat(pre, j)),
                  patterns=[M.lat(errs, j)]),
        z3.ForAll([j], z3.Implies(z3.And(M.llen(pre) <= j, j < M.llen(errs)), z3.And(
            M.is_Ref(M.lat(errs, j)),
            M.rcls(M.lat(errs, j)) == ct.id("ExtraElementValidationError"),
            M.attr("path")(M.lat(errs, j)) == pth,
            M.attr("actual_value")(M.lat(errs, j)) == v,
            M.attr("index")(M.lat(errs, j)) == M.IntV(m + (j - M.llen(pre))))),
            patterns=[M.lat(errs, j)]),
        _path_fixed(L),
        z3.ForAll([j], z3.Implies(z3.And(0 <= j, j < M.llen(pre)),
                                  z3.Select(L.ph, M.attr("path")(M.lat(pre, j))) ==
                                  z3.Select(L.ph_entry, M.attr("path")(M.lat(pre, j)))),
                  patterns=[M.lat(pre, j)]))


# ----------------------------------------------------------------------------- definitional unfolding
def _schema_freeze_hook(ex, st, cls: str, ident: Any) -> None:
    """A schema object built concretely in the code under verification (e.g. the `AnySchema()` default of
    TypeAliasProps.type, or the result of a substitution): unfold the *definitions* of the specification
    relations for its class -- wf(x) := wf_def(cls, x), conforms(x, v) := conforms_def(cls, x, v)."""
    if cls not in S.PROP_NAMES:
        return
    ct = ex.ct
    w = z3.Const("uv", Obj)
    st.assume(S.unfold_defs(ct, cls, ident),
              S.conforms(ident, M.NoneV) == S.conforms_def(ct, cls, ident, M.NoneV))   # a ground instance


from pyvc.contracts import REG as _REG  # noqa: E402
_REG.schema_freeze_hook = _schema_freeze_hook


# ----------------------------------------------------------------------------- visit_dict / visit_any invariants
def dict_key_ok(K, v, x):
    pair = M.dget(K, x)
    return z3.Or(x == M.EllV,
                 z3.If(M.has(v, x), S.conforms(M.lat(pair, 0), M.dget(v, x)), M.lat(pair, 1) == M.mk_bool(True)))


def dict_err_located(ct, e, Sx, K, v, base, ep):
    """an error produced by the two loops of visit_dict: exactly located_def(DictSchema) minus Type"""
    return located_def(ct, "DictSchema", e, Sx, v, base, ep)


@invariant(VAL, "Validator.visit_dict", loop=0)
def _inv_dict_declared(L):
    """L6: no error so far iff every declared key seen so far is satisfied (present and conforming, or
    absent and optional); every error is a MissingKey at this level or located under a present key."""
    ct = L.ct
    errs, v, Sx = L.v("result"), L.v("value"), L.v("schema")
    K = S.prop(Sx, "keys")
    base = _base(L)
    j = z3.Int("kj")
    return z3.And(
        M.is_Ref(errs), M.rcls(errs) == ct.id("list"),
        (M.llen(errs) == 0) == z3.ForAll([j], z3.Implies(z3.And(0 <= j, j < L.i), dict_key_ok(K, v, M.kat(K, j))),
                                         patterns=[M.kat(K, j)]),
        errs_alloc(errs, L.alloc),
        errs_located(errs, lambda e: dict_err_located(ct, e, Sx, K, v, base, z3.Select(L.ph, M.attr("path")(e)))),
        _path_fixed(L))


@invariant(VAL, "Validator.visit_dict", loop=1)
def _inv_dict_extra(L):
    """L7: earlier errors are kept; no error at all iff there was none before and every key of the value
    seen so far is declared."""
    ct = L.ct
    errs, pre, v, Sx = L.v("result"), L.pre("result"), L.v("value"), L.v("schema")
    K = S.prop(Sx, "keys")
    base = _base(L)
    j = z3.Int("xj")
    return z3.And(
        M.is_Ref(errs), M.rcls(errs) == ct.id("list"),
        (M.llen(errs) == 0) == z3.And(M.llen(pre) == 0,
                                      z3.ForAll([j], z3.Implies(z3.And(0 <= j, j < L.i), M.has(K, M.kat(v, j))),
                                                patterns=[M.kat(v, j)])),
        errs_alloc(errs, L.alloc),
        errs_located(errs, lambda e: dict_err_located(ct, e, Sx, K, v, base, z3.Select(L.ph, M.attr("path")(e)))),
        _path_fixed(L))


@invariant(VAL, "Validator.visit_any", loop=0)
def _inv_any(L):
    """L8: no alternative seen so far accepts the value; nothing has been recorded."""
    v, Sx = L.v("value"), L.v("schema")
    t = S.prop(Sx, "types")
    j = z3.Int("aj")
    return z3.And(L.v("result") == L.pre("result"),
                  z3.ForAll([j], z3.Implies(z3.And(0 <= j, j < L.i), z3.Not(S.conforms(M.lat(t, j), v))),
                            patterns=[M.lat(t, j)]),
                  _path_fixed(L))
