"""Contracts for d42/validation (C02 verdict, C03 located/true errors + path frame, C08 totality)."""
from __future__ import annotations

from typing import Any, List

import z3

from pyvc import model as M
from pyvc.contracts import accept_contract, contract, invariant, transparent
from pyvc.model import Obj

from . import spec as S

VAL = "d42/validation/_validator.py"
RES = "d42/validation/_validation_result.py"

# -- transparent helpers (expanded from their real source at every call site) ------------------------
transparent("d42/declaration/_props.py", "Props.get", "Props.__init__", "Props.set", "Props.update",
            "Props.__iter__")
transparent("d42/declaration/types/_schema.py", "Schema.props", "Schema.__init__")
transparent("d42/declaration/_is_ellipsis.py", "is_ellipsis")
transparent(VAL, "Validator.__init__", "Validator._validate_type", "Validator._validate_value",
            "Validator.make_validation_result", "Validator.make_path")
transparent(RES, "ValidationResult.__init__", "ValidationResult.add_error",
            "ValidationResult.has_errors", "ValidationResult.get_errors")
for _cls, _props in [("Bool", ["value"]), ("Int", ["value", "min", "max"]),
                     ("Float", ["value", "min", "max", "precision"]),
                     ("Str", ["value", "len", "min_len", "max_len", "alphabet", "substr", "pattern"]),
                     ("List", ["elements", "type", "len", "min_len", "max_len"]),
                     ("Dict", ["keys"]), ("Any", ["types"]), ("Bytes", ["value"]),
                     ("UUID4", ["value"]), ("DateTime", ["value"]), ("Date", ["value"])]:
    _f = {"Bool": "_bool_schema", "Int": "_int_schema", "Float": "_float_schema", "Str": "_str_schema",
          "List": "_list_schema", "Dict": "_dict_schema", "Any": "_any_schema", "Bytes": "_bytes_schema",
          "UUID4": "_uuid4_schema", "DateTime": "_datetime_schema", "Date": "_date_schema"}[_cls]
    transparent(f"d42/declaration/types/{_f}.py", *[f"{_cls}Props.{p}" for p in _props],
                f"{_cls}Schema.__accept__")
transparent("d42/declaration/types/_none_schema.py", "NoneSchema.__accept__")
transparent("d42/declaration/types/_type_alias_schema.py", "TypeAliasProps.type", "TypeAliasProps.name",
            "GenericTypeAliasSchema.__accept__")
_ERRS = ["Type", "Value", "MinValue", "MaxValue", "Length", "MinLength", "MaxLength", "Alphabet",
         "Substr", "Regex", "MissingElement", "ExtraElement", "MissingKey", "ExtraKey",
         "SchemaMismatch", "InvalidUUIDVersion"]
transparent("d42/validation/errors/__init__.py", *[f"{e}ValidationError.__init__" for e in _ERRS])


# -- error facts (C03) -------------------------------------------------------------------------------
def err_fact(ct, cls: str, e: Any, Sx: Any, v: Any) -> Any:
    """`fact(e, S, v)` of DESIGN §3 for the error classes a scalar schema of class `cls` can report."""
    ec = M.rcls(e)
    P = lambda n: S.prop(Sx, n)
    D = lambda n: S.declared(Sx, n)
    A = lambda n: M.attr(n)(e)
    E = lambda n: ec == ct.id(n + "ValidationError")
    alts: List[Any] = []
    if cls in S.VALUE_TYPE:
        t = S.VALUE_TYPE[cls]
        alts.append(z3.And(E("Type"), z3.Not(M.isinstance_f(ct, v, t)),
                           A("expected_type") == M.ClsV(ct.id(t))))
    if cls in ("BoolSchema", "IntSchema", "StrSchema", "BytesSchema", "DateTimeSchema", "DateSchema",
               "UUID4Schema"):
        alts.append(z3.And(E("Value"), D("value"), A("expected_value") == P("value"),
                           z3.Not(M.py_eq(v, P("value")))))
    if cls == "FloatSchema":
        alts.append(z3.And(E("Value"), D("value"), A("expected_value") == P("value"),
                           z3.Not(S.feq(v, P("value"), P("precision")))))
    if cls in ("IntSchema", "FloatSchema"):
        alts.append(z3.And(E("MinValue"), D("min"), A("min_value") == P("min"), M.num_lt(v, P("min"))))
        alts.append(z3.And(E("MaxValue"), D("max"), A("max_value") == P("max"), M.num_lt(P("max"), v)))
    if cls == "StrSchema":
        s = M.sval(v)
        n = z3.Length(s)
        alts += [
            z3.And(E("Regex"), D("pattern"), A("pattern") == P("pattern"),
                   z3.Not(M.re_search(M.sval(P("pattern")), s))),
            z3.And(E("Length"), D("len"), A("length") == P("len"), n != M.int_of(P("len"))),
            z3.And(E("MinLength"), D("min_len"), A("min_length") == P("min_len"), n < M.int_of(P("min_len"))),
            z3.And(E("MaxLength"), D("max_len"), A("max_length") == P("max_len"), n > M.int_of(P("max_len"))),
            z3.And(E("Substr"), D("substr"), A("substr") == P("substr"),
                   z3.Not(z3.Contains(s, M.sval(P("substr"))))),
            z3.And(E("Alphabet"), D("alphabet"), A("alphabet") == P("alphabet"),
                   z3.Not(S.in_alphabet(s, M.sval(P("alphabet"))))),
        ]
    if cls == "UUID4Schema":
        alts.append(z3.And(E("InvalidUUIDVersion"), M.isinstance_f(ct, v, "UUID"),
                           z3.Not(M.py_eq(M.attr("version")(v), M.mk_int(4))),
                           A("actual_version") == M.attr("version")(v),
                           A("expected_version") == M.mk_int(4)))
    return z3.Or(*alts) if alts else z3.BoolVal(False)


def all_errors(r: Any, pred) -> Any:
    j = z3.Int("ej")
    errs = S.errors_of(r)
    return z3.ForAll([j], z3.Implies(z3.And(0 <= j, j < M.llen(errs)), pred(M.lat(errs, j))),
                     patterns=[M.lat(errs, j)])


def located(ct, cls, r, Sx, v, pseq, post) -> Any:
    """C03 local rule: every reported error sits at the path handed in, reports the value handed in,
    and states a true fact about it."""
    return all_errors(r, lambda e: z3.And(
        M.is_Ref(e),
        z3.Select(post.ph, M.attr("path")(e)) == pseq,
        M.attr("actual_value")(e) == v,
        err_fact(ct, cls, e, Sx, v)))


def path_frame(post) -> Any:
    """No PathHolder that existed before the call has been changed (C03 sibling isolation, C07)."""
    p = z3.Const("fp", Obj)
    return z3.ForAll([p], z3.Implies(M.rid(p) < post.pre_alloc,
                                     z3.Select(post.ph, p) == z3.Select(post.pre_ph, p)),
                     patterns=[z3.Select(post.ph, p)])


def scalar_visit(cls: str):
    def body(c):
        ct = c.ct
        c.built_self("Validator")
        Sx = c.sym("schema", cls)
        v = c.sym("value")
        p = c.sym("path", "PathHolder")
        c.kwargs()
        for f in S.wf_def(ct, cls, Sx):
            c.requires(f)
        c.requires(S.path_ok(ct, p, c.pre_alloc), "path")
        c.requires(S.float_range(v), "float-repr")
        c.paths()
        c.returns("ValidationResult")
        c.raises(props=("C08",))
        pseq = S.pathseq_in(c.pre_ph, p)
        c.ensures("result", lambda r, post: z3.And(*S.is_result(ct, r)), ("C02",))
        c.ensures("verdict", lambda r, post: S.no_errors(r) == S.conforms_def(ct, cls, Sx, v), ("C02",))
        c.ensures("located", lambda r, post: located(ct, cls, r, Sx, v, pseq, post), ("C03",))
        c.ensures("path-frame", lambda r, post: path_frame(post), ("C03", "C07"))
        if cls == "FloatSchema":
            c.known_region("C02-float-nan", "visit_float:ensures[verdict]",
                           z3.Or(M.is_FNanV(v), M.is_FNanV(S.prop(Sx, "min")), M.is_FNanV(S.prop(Sx, "max"))))
    return body


for _m, _cls in [("visit_none", "NoneSchema"), ("visit_bool", "BoolSchema"), ("visit_int", "IntSchema"),
                 ("visit_float", "FloatSchema"), ("visit_str", "StrSchema"),
                 ("visit_bytes", "BytesSchema"), ("visit_datetime", "DateTimeSchema"),
                 ("visit_uuid4", "UUID4Schema"), ("visit_date", "DateSchema")]:
    contract(VAL, f"Validator.{_m}", props=("C02", "C03", "C08", "C07"), group="validator")(scalar_visit(_cls))


# -- loop invariants -----------------------------------------------------------------------------------
@invariant(VAL, "Validator.visit_str", loop=0)
def _inv_alphabet(L):
    """L2: every letter seen so far is in the alphabet; nothing has been recorded by the loop."""
    v = M.sval(L.v("value"))
    a = M.sval(S.prop(L.v("schema"), "alphabet"))
    j = z3.Int("ij")
    return z3.And(L.v("result") == L.pre("result"),
                  z3.ForAll([j], z3.Implies(z3.And(0 <= j, j < L.i), z3.Contains(a, z3.SubString(v, j, 1))),
                            patterns=[z3.SubString(v, j, 1)]))
