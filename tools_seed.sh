#!/bin/bash
# tools_seed.sh confirm <pid> <wt> <name>   -- confirm an agent's change in its worktree and store it under seeded/<name>
# tools_seed.sh run <name> <prop...>        -- apply seeded/<name>/patch.diff to /repo, run the checks, undo
set -u
cmd=$1; shift
if [ "$cmd" = confirm ]; then
  pid=$1; wt=$2; name=$3
  d=/verif/seeded/$name; mkdir -p $d
  cd $wt || exit 1
  git diff -- d42 > $d/patch.diff
  cp demo_$pid.py $d/demo.py
  export PYTHONPATH=$wt
  t_with=$(/venv/bin/python -m pytest -q -p no:cacheprovider 2>&1 | tail -1)
  /venv/bin/python demo_$pid.py > /tmp/demo_with.txt 2>&1; rc_with=$?
  git stash -q
  /venv/bin/python demo_$pid.py > /tmp/demo_without.txt 2>&1; rc_without=$?
  git stash pop -q
  echo "$name tests_with_change='$t_with' demo_with_change_exit=$rc_with demo_without_change_exit=$rc_without"
  echo "{\"tests_with_change\": \"$t_with\", \"demo_with_change_exit\": $rc_with, \"demo_without_change_exit\": $rc_without}" > $d/confirm.json
elif [ "$cmd" = run ]; then
  name=$1; shift
  cd /repo && git apply /verif/seeded/$name/patch.diff || { echo "patch does not apply"; exit 1; }
  cd /verif
  for p in "$@"; do ./check $p --tier quick 2>&1 | grep -E "^VIOLATION|^UNDECIDED|^KNOWN|^C[0-9]+:|CHECKER" | grep -v "^KNOWN" | head -8; done
  git -C /repo checkout -- .
fi
