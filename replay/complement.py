"""Bounded complement (DESIGN 2.15): for the functions a property depends on that are NOT yet under contract, the
property's native oracle is run over an enumerated zoo on every check.  This is a *bounded stand-in*, reported separately
in the evidence and never counted among the proof obligations.

Usage: /venv/bin/python replay/complement.py <property> <tier> <seed>  -> one JSON object on the last stdout line
"""
from __future__ import annotations

import itertools
import json
import os
import random
import sys

HERE = os.path.dirname(os.path.dirname(os.path.abspath(__file__)))
sys.path.insert(0, HERE)
from replay import native as N  # noqa: E402

# --------------------------------------------------------------------------------- container substitution (C04/C05/C12)
LIST_SCHEMAS = [
    "schema.list", "schema.list(schema.int)", "schema.list(schema.int.min(0))", "schema.list(schema.str).len(2)",
    "schema.list(schema.int).len(1, ...)", "schema.list([schema.int, schema.str])", "schema.list([])",
    "schema.list([schema.int, ...])", "schema.list([schema.int, schema.str, ...])", "schema.list([..., schema.int])",
    "schema.list([..., schema.int, schema.str])", "schema.list([..., schema.int, ...])",
    "schema.list([..., schema.int, schema.str, ...])", "schema.list([..., schema.int(1), ...])",
    "schema.list(schema.dict({'a': schema.int, optional('b'): schema.str}))",
    "schema.list([schema.dict({'a': schema.int}), ...])", "schema.list([..., schema.dict({'a': schema.int}), ...])",
    "schema.list(schema.list(schema.int))", "schema.list(schema.any(schema.int, schema.str))",
    "schema.list([..., schema.list([schema.int, ...]), ...])",
    "schema.list([..., schema.dict({'a': schema.int, 'b': schema.int}), ...])",
]
DICT_SCHEMAS = [
    "schema.dict", "schema.dict({})", "schema.dict({'a': schema.int})", "schema.dict({'a': schema.int, 'b': schema.str})",
    "schema.dict({'a': schema.int, optional('b'): schema.str})", "schema.dict({'a': schema.int, ...: ...})",
    "schema.dict({...: ...})", "schema.dict({'a': schema.dict({'x': schema.int, 'y': schema.str}), 'b': schema.int})",
    "schema.dict({'a': schema.dict({'x': schema.int, ...: ...}), optional('c'): schema.none})",
    "schema.dict({'a': schema.list(schema.int), 'b': schema.list([schema.str, ...])})",
    "schema.dict({'a': schema.any(schema.int, schema.dict({'x': schema.int}))})", "schema.dict({1: schema.int, None: schema.str})",
    "schema.dict({'a': schema.int(1), 'b': schema.float.precision(1)})",
    "schema.dict({'a': schema.str.regex('[A-Z]{2}-[0-9]{2}'), 'b': schema.str.alphabet('xy').len(1, 3)})",
    "schema.dict({'a': schema.int.min(0).max(9), 'b': schema.str.contains('x')})",
]
ANY_SCHEMAS = [
    "schema.any", "schema.any(schema.int)", "schema.any(schema.int, schema.str)", "schema.any(schema.int.min(0), schema.int.max(0))",
    "schema.any(schema.dict({'a': schema.int}), schema.dict({'a': schema.str, 'b': schema.int}))",
    "schema.any(schema.list(schema.int), schema.list([schema.str, ...]))", "schema.any(schema.any(schema.int), schema.none)",
    "schema.any(schema.dict({'a': schema.int, ...: ...}), schema.none)", "schema.alias('n', schema.int)",
    "schema.any(schema.dict({'a': schema.int, ...: ...}), schema.dict({'a': schema.int, 'b': schema.int, 'c': schema.int}))",
    "schema.alias('d', schema.dict({'a': schema.int, optional('b'): schema.str}))", "schema.alias('l', schema.list(schema.int))",
]
SCALAR_VALUES = ["{...: 1}", "0", "1", "-1", "'x'", "''", "None", "True", "1.5", "b'b'", "object()", "(1,)", "{1}"]
LIST_VALUES = ["[{'a': 1}, {'a': 1, 'b': 2}]", "[]", "[1]", "[1, 'x']", "['x', 1]", "[1, 2]", "[1, 2, 3]", "[0, 1, 'x', 2]", "['a', 1, 'x']", "[1, 'x', 'y']",
               "[{'a': 1}]", "[{'a': 1, 'b': 'q'}]", "[{'a': 'bad'}]", "[{'a': 1, 'zz': 0}]", "[{}]", "[[1], [2, 3]]", "[[1, 'x']]",
               "[object()]", "[1, object()]", "[{1: object()}]", "[-1]", "[None]", "[[1, 2], 5]", "[5, [1, 2], 6]", "[{'a': 1}, 3]",
               "[3, {'a': 1}, 4]", "[...]", "[1, ...]", "[..., 1]", "[..., 1, ...]", "[1, ..., 'x']", "(1, 2)", "'ab'"]
DICT_VALUES = ["{'a': 1, 'b': 2}", "{'a': {...: 1}}", "{'q': {...: ...}}", "{'a': [{...: 1}]}", "{'a': 'AB-12', 'b': 'xy'}", "{'a': 5, 'b': 'axb'}", "{}", "{'a': 1}", "{'a': 1, 'b': 'x'}", "{'b': 'x'}", "{'a': 'bad'}", "{'a': 1, 'zz': 0}", "{'zz': 0}", "{'a': {'x': 1}}",
               "{'a': {'x': 1, 'y': 'q'}, 'b': 2}", "{'a': {}}", "{'a': {'x': 1, 'q': 0}}", "{'a': {'x': 'bad'}}", "{'a': [1, 2], 'b': ['s']}",
               "{'a': [1, 'x']}", "{'a': 1, 'b': 1.04}", "{'a': 1, 'b': 1.0}", "{1: 5, None: 's'}", "{1: 5}", "{'a': object()}",
               "{'q': object()}", "{'a': {'x': object()}}", "{'c': None}", "{'a': 1, ...: ...}", "{'a': ...}", "{...: ...}",
               "{'a': {'x': ...}}", "{'a': {'x': 1, 2: 2}}", "[('a', 1)]", "{'a': 5}", "{'a': {'x': 1}, 'zz': {'deep': [1]}}"]


def ev(src: str):
    return N.build({"k": "expr", "src": src})


def substitution_cases():
    for s in LIST_SCHEMAS:
        for v in LIST_VALUES + SCALAR_VALUES[:4]:
            yield s, v
    for s in DICT_SCHEMAS:
        for v in DICT_VALUES + SCALAR_VALUES[:4]:
            yield s, v
    for s in ANY_SCHEMAS:
        for v in SCALAR_VALUES + LIST_VALUES[:12] + DICT_VALUES[:14]:
            yield s, v


def repr_cases():
    for s in LIST_SCHEMAS + DICT_SCHEMAS + ANY_SCHEMAS:
        if "alias" in s:
            continue      # C06 is stated for schemas without type aliases
        yield s
        yield "schema.list([%s, %s])" % (s, s)
        yield "schema.dict({'k': %s, optional('o'): %s})" % (s, s)
        yield "schema.any(%s, schema.none)" % s


def classify(detail: str) -> str:
    """a coarse signature of a failure, used to key listed known findings"""
    d = detail
    if d.startswith("v conforms to S but S % v = schema.any("):
        return "any-falls-back-to-an-alternative-the-value-does-not-conform-to"
    if d.startswith("v conforms to S but S % v = schema.list(") and "Missing" in d:
        return "contains-list-substitutes-at-a-partially-matching-position"
    for needle, sig in (("returned a schema that cannot be used", "placeholder-kept-as-member-schema"),
                        ("AttributeError(\"'ellipsis' object has no attribute '__accept__'\")", "list-contains-fallthrough-AttributeError"),
                        ("DeclarationError", "leaks-DeclarationError"),
                        ("schema.any()", "any-without-alternatives"),
                        ("TypeError", "TypeError"), ("KeyError", "KeyError"), ("IndexError", "IndexError"),
                        ("AttributeError", "AttributeError")):
        if needle in d:
            return sig
    return "other"


def run(prop: str, tier: str, seed: int):
    oracle = N.ORACLES[prop]
    out = {"property": prop, "evaluations": 0, "distinct": 0, "failures": [], "samples": [], "unreachable": 0,
           "functions": [], "rule": ""}
    seen = set()
    if prop in ("C04", "C05", "C12"):
        out["functions"] = ["SubstitutorValidator.visit_list (assumed contract rvalid)",
                            "SubstitutorValidator.visit_dict (assumed contract rvalid)",
                            "idempotence of container substitution (C12; not a proof obligation)",
                            "second opinion on the container visits of Substitutor (which are under contract)"]
        out["rule"] = ("every pair of %d container schemas (typed / element / head / tail / contains lists, strict / relaxed / "
                       "nested / optional dicts, any, alias) and ~35 values each (conforming, partial, perturbed, extra keys, "
                       "inconvertible members, ... placeholders); distinct = pairs for which the substitution is attempted on a "
                       "container value" % (len(LIST_SCHEMAS) + len(DICT_SCHEMAS) + len(ANY_SCHEMAS)))
        cases = [({"schema": {"k": "expr", "src": s}, "value": {"k": "expr", "src": v}}, f"{s} % {v}") for s, v in substitution_cases()]
    elif prop == "C06":
        out["functions"] = ["Representor.visit_list (non-empty element lists)", "Representor.visit_dict", "Representor.visit_any",
                            "Representor.visit_type_alias"]
        out["rule"] = "container schemas (the substitution zoo) alone and nested once in a list / dict / any; distinct = expressions"
        cases = [({"schema": {"k": "expr", "src": s}}, s) for s in repr_cases()]
    else:
        return out
    for inputs, label in cases:
        out["evaluations"] += 1
        try:
            bad, detail = oracle(inputs, {})
        except N.Unreachable:
            out["unreachable"] += 1
            continue
        except Exception as e:        # harness trouble is not a violation
            out.setdefault("harness_errors", []).append(f"{label}: {e!r}"[:200])
            continue
        if label not in seen:
            seen.add(label)
        if len(out["samples"]) < 6 and out["evaluations"] % 97 == 5:
            out["samples"].append({"case": label, "oracle_says": detail[:160]})
        if bad:
            out["failures"].append({"inputs": inputs, "label": label, "detail": detail, "signature": classify(detail)})
    out["distinct"] = len(seen)
    return out


if __name__ == "__main__":
    prop, tier, seed = sys.argv[1], sys.argv[2], int(sys.argv[3])
    print(json.dumps(run(prop, tier, seed), default=str))
