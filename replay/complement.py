"""Bounded complement (DESIGN 2.15): for the functions a property depends on that are NOT yet under contract, the
property's native oracle is run over an enumerated zoo on every check.  This is a *bounded stand-in*, reported separately
in the evidence and never counted among the proof obligations.

Usage: /venv/bin/python replay/complement.py <property> <tier> <seed>  -> one JSON object on the last stdout line
"""
from __future__ import annotations

import itertools
import json
import os
import random
import sys

HERE = os.path.dirname(os.path.dirname(os.path.abspath(__file__)))
sys.path.insert(0, HERE)
from replay import native as N  # noqa: E402

# --------------------------------------------------------------------------------- container substitution (C04/C05/C12)
CONTAINS_RELAXED = ("schema.list([..., schema.dict({'id': schema.int, 'name': schema.str, ...: ...}), "
                    "schema.dict({'id': schema.int, 'name': schema.str, ...: ...}), ...])")
LIST_SCHEMAS = [
    CONTAINS_RELAXED,
    "schema.list", "schema.list(schema.int)", "schema.list(schema.int.min(0))", "schema.list(schema.str).len(2)",
    "schema.list(schema.int).len(1, ...)", "schema.list(schema.int).len(..., 4)", "schema.list(schema.int).len(1, 3)",
    "schema.list([schema.int, schema.str])", "schema.list([])",
    "schema.list([schema.int, ...])", "schema.list([schema.int, schema.str, ...])", "schema.list([..., schema.int])",
    "schema.list([..., schema.int, schema.str])", "schema.list([..., schema.int, ...])",
    "schema.list([..., schema.int, schema.str, ...])", "schema.list([..., schema.int(1), ...])",
    "schema.list(schema.dict({'a': schema.int, optional('b'): schema.str}))",
    "schema.list([schema.dict({'a': schema.int}), ...])", "schema.list([..., schema.dict({'a': schema.int}), ...])",
    "schema.list(schema.list(schema.int))", "schema.list(schema.any(schema.int, schema.str))",
    "schema.list([..., schema.list([schema.int, ...]), ...])",
    "schema.list([..., schema.dict({'a': schema.int, 'b': schema.int}), ...])",
]
DICT_SCHEMAS = [
    "schema.dict", "schema.dict({})", "schema.dict({'a': schema.int})", "schema.dict({'a': schema.int, 'b': schema.str})",
    "schema.dict({'a': schema.int, optional('b'): schema.str})", "schema.dict({'a': schema.int, ...: ...})",
    "schema.dict({...: ...})", "schema.dict({'a': schema.dict({'x': schema.int, 'y': schema.str}), 'b': schema.int})",
    "schema.dict({'a': schema.dict({'x': schema.int, ...: ...}), optional('c'): schema.none})",
    "schema.dict({'a': schema.list(schema.int), 'b': schema.list([schema.str, ...])})",
    "schema.dict({'a': schema.any(schema.int, schema.dict({'x': schema.int}))})", "schema.dict({1: schema.int, None: schema.str})",
    "schema.dict({'a': schema.int(1), 'b': schema.float.precision(1)})",
    "schema.dict({'a': schema.str.regex('[A-Z]{2}-[0-9]{2}'), 'b': schema.str.alphabet('xy').len(1, 3)})",
    "schema.dict({'a': schema.int.min(0).max(9), 'b': schema.str.contains('x')})",
    # `...` not last (what relaxed + strict produces)
    "schema.dict({'a': schema.int, ...: ...}) + schema.dict({'b': schema.str})",
    "schema.dict({...: ..., 'a': schema.int})", "schema.dict({'a': schema.int, ...: ..., 'b': schema.str('x'), optional('c'): schema.int})",
    "schema.dict({'a': schema.int, 'b': schema.str}) + schema.dict({optional('b'): schema.str, ...: ...})",
    "schema.dict({'a': schema.dict({'x': schema.int, ...: ...}) + schema.dict({'y': schema.int})})",
]
ANY_SCHEMAS = [
    "schema.any", "schema.any(schema.int)", "schema.any(schema.int, schema.str)", "schema.any(schema.int.min(0), schema.int.max(0))",
    "schema.any(schema.dict({'a': schema.int}), schema.dict({'a': schema.str, 'b': schema.int}))",
    "schema.any(schema.list(schema.int), schema.list([schema.str, ...]))", "schema.any(schema.any(schema.int), schema.none)",
    "schema.any(schema.dict({'a': schema.int, ...: ...}), schema.none)", "schema.alias('n', schema.int)",
    "schema.any(schema.dict({'a': schema.int, ...: ...}), schema.dict({'a': schema.int, 'b': schema.int, 'c': schema.int}))",
    "schema.alias('d', schema.dict({'a': schema.int, optional('b'): schema.str}))", "schema.alias('l', schema.list(schema.int))",
]
SCALAR_VALUES = ["{...: 1}", "0", "1", "-1", "'x'", "''", "None", "True", "1.5", "b'b'", "object()", "(1,)", "{1}"]
LIST_VALUES = ["[{'id': 1, 'extra': True}, {'id': 2}]", "[{'id': 1, 'name': 'n'}, {'id': 2, 'name': 'm'}, {'id': 3}]",
               "[{'a': 1}, {'a': 1, 'b': 2}]", "[]", "[1]", "[1, 'x']", "['x', 1]", "[1, 2]", "[1, 2, 3]", "[0, 1, 'x', 2]", "['a', 1, 'x']", "[1, 'x', 'y']",
               "[{'a': 1}]", "[{'a': 1, 'b': 'q'}]", "[{'a': 'bad'}]", "[{'a': 1, 'zz': 0}]", "[{}]", "[[1], [2, 3]]", "[[1, 'x']]",
               "[object()]", "[1, object()]", "[{1: object()}]", "[-1]", "[None]", "[[1, 2], 5]", "[5, [1, 2], 6]", "[{'a': 1}, 3]",
               "[3, {'a': 1}, 4]", "[...]", "[1, ...]", "[..., 1]", "[..., 1, ...]", "[1, ..., 'x']", "(1, 2)", "'ab'"]
DICT_VALUES = ["{'a': 1, 'b': 2}", "{'a': {...: 1}}", "{'q': {...: ...}}", "{'a': [{...: 1}]}", "{'a': 'AB-12', 'b': 'xy'}", "{'a': 5, 'b': 'axb'}", "{}", "{'a': 1}", "{'a': 1, 'b': 'x'}", "{'b': 'x'}", "{'a': 'bad'}", "{'a': 1, 'zz': 0}", "{'zz': 0}", "{'a': {'x': 1}}",
               "{'a': {'x': 1, 'y': 'q'}, 'b': 2}", "{'a': {}}", "{'a': {'x': 1, 'q': 0}}", "{'a': {'x': 'bad'}}", "{'a': [1, 2], 'b': ['s']}",
               "{'a': [1, 'x']}", "{'a': 1, 'b': 1.04}", "{'a': 1, 'b': 1.0}", "{1: 5, None: 's'}", "{1: 5}", "{'a': object()}",
               "{'q': object()}", "{'a': {'x': object()}}", "{'c': None}", "{'a': 1, ...: ...}", "{'a': ...}", "{...: ...}",
               "{'a': {'x': ...}}", "{'a': {'x': 1, 2: 2}}", "[('a', 1)]", "{'a': 5}", "{'a': {'x': 1}, 'zz': {'deep': [1]}}",
               # keys whose printed form is unusual (error messages print them): tuples, braces, percent signs
               "{'a': 1, (1, 2): 'x'}", "{'a': 1, (): 0}", "{'a': 1, '{k}': 0, '%s': 1}", "{'a': 1, 'zz': 0, 7: 3}"]


def ev(src: str):
    return N.build({"k": "expr", "src": src})


SCALAR_SUBST = [("schema.date", "datetime(2021, 5, 6, 7, 8, 9)"), ("schema.date", "date(2021, 5, 6)"), ("schema.datetime", "datetime(2021, 5, 6, 7, 8, 9)"),
                ("schema.dict({'d': schema.date, 'n': schema.int})", "{'d': datetime(2021, 5, 6, 7, 8, 9)}"), ("schema.list(schema.date)", "[datetime(2021, 5, 6, 1, 1)]"),
                ("schema.any(schema.date, schema.str)", "datetime(2021, 5, 6, 7, 8, 9)"),
                ("schema.float.precision(2)", "1e308"), ("schema.float(1.0).precision(2)", "1e308"), ("schema.float(1e308).precision(2)", "1e308"),
                ("schema.dict({'f': schema.float(1.0).precision(2), ...: ...})", "{'f': 1e308}"), ("schema.list([..., schema.float(1.0).precision(1), ...])", "[1e308]"),
                ("schema.any(schema.float(1.0).precision(2), schema.none)", "1e308"), ("schema.float.precision(1)", "float('inf')"),
                ("schema.int", "True"), ("schema.int", "0"), ("schema.str", "''"), ("schema.bool", "False"), ("schema.none", "None"),
                ("schema.str.regex('[A-Z]{2}-[0-9]{2}')", "'AB-12'"), ("schema.bytes", "b''"), ("schema.int.min(0).max(0)", "0"),
                ("schema.dict({'id': schema.int.min(1), optional('name'): schema.str.len(1, 10), ...: ...})", "{'id': 1}"),
                ("schema.dict({'o': schema.dict({'id': schema.int, optional('t'): schema.int.min(5), ...: ...})})", "{'o': {'id': 3}}"),
                ("schema.list(schema.dict({'id': schema.int, optional('t'): schema.str.len(2), ...: ...}))", "[{'id': 1}, {'id': 2, 't': 'ab'}]")]


def substitution_cases():
    for s, v in SCALAR_SUBST:
        yield s, v
    for s in LIST_SCHEMAS:
        for v in LIST_VALUES + SCALAR_VALUES[:4]:
            yield s, v
    for s in DICT_SCHEMAS:
        for v in DICT_VALUES + SCALAR_VALUES[:4]:
            yield s, v
    for s in ANY_SCHEMAS:
        for v in SCALAR_VALUES + LIST_VALUES[:12] + DICT_VALUES[:14]:
            yield s, v


def repr_cases():
    for s in LIST_SCHEMAS + DICT_SCHEMAS + ANY_SCHEMAS:
        if "alias" in s:
            continue      # C06 is stated for schemas without type aliases
        yield s
        yield "schema.list([%s, %s])" % (s, s)
        yield "schema.dict({'k': %s, optional('o'): %s})" % (s, s)
        yield "schema.any(%s, schema.none)" % s


def ownership_case(src: str):
    """C07 on containers: no operation may change the schema objects it is given (observable state: repr, key / element
    order, iteration, equality with a pristine twin)"""
    import copy
    from d42 import fake, substitute, validate
    from d42.representation import represent
    from d42.utils import make_required

    def snap(x):
        # a structural description that does not go through d42's own repr (which is one of the operations under test)
        if isinstance(x, N.Schema):
            reg = x.props._registry if hasattr(x.props, "_registry") else {}
            return (type(x).__name__, [(k, snap(v)) for k, v in reg.items()])
        if isinstance(x, dict):
            return (type(x).__name__, [(snap(k), snap(v)) for k, v in x.items()])
        if isinstance(x, (list, tuple)):
            return (type(x).__name__, [snap(v) for v in x])
        if x is ... or x is N.Nil:
            return str(x)
        if isinstance(x, N.optional):
            return ("optional", snap(x.key))
        return (type(x).__name__, x if isinstance(x, (int, float, str, bytes, bool, type(None))) else id(x))
    S1 = ev(src)
    before = snap(S1)
    ops = [("represent", lambda: represent(S1)), ("repr", lambda: repr(S1)), ("validate", lambda: validate(S1, {"a": 1})),
           ("validate-list", lambda: validate(S1, [1, "x"])), ("fake", lambda: fake(S1)),
           ("substitute", lambda: substitute(S1, {"a": 1})), ("substitute-list", lambda: substitute(S1, [1])),
           ("==", lambda: S1 == ev(src)), ("+", lambda: S1 + ev("schema.dict({'zz': schema.int})")),
           ("make_required", lambda: make_required(S1)), ("iter", lambda: list(S1)), ("keys", lambda: list(S1.keys()))]
    for name, op in ops:
        try:
            op()
        except Exception:
            pass
        after = snap(S1)
        if after != before:
            return True, f"{name} changed its operand {src}: {before!r} -> {after!r}"[:700]
    # ... nor a value passed in: plain containers and dict subclasses whose reads have side effects (a defaultdict
    # inserts the key it is asked for), empty, partial and nested
    import collections

    def values():
        dd = collections.defaultdict
        yield lambda: {}
        yield lambda: {"a": 1}
        yield lambda: dd(list)
        yield lambda: dd(int, {"a": 1})
        yield lambda: dd(str, {"zz": 0})
        yield lambda: dd(dict, {"a": dd(int)})
        yield lambda: {"a": dd(int), "u": dd(list, {"q": "zz"})}
        yield lambda: [dd(int), {"a": 1}]
        yield lambda: [1, dd(list)]
        yield lambda: collections.OrderedDict(b=1, a=2)
    for mk in values():
        for name, op in (("validate", lambda v: validate(S1, v)), ("==", lambda v: S1 == v), ("!=", lambda v: S1 != v),
                         ("substitute", lambda v: substitute(S1, v)), ("%", lambda v: S1 % v)):
            v = mk()
            vb = snap(v)
            try:
                op(v)
            except Exception:
                pass
            if snap(v) != vb:
                return True, f"{name}({src}, value) mutated the value passed in: {vb!r} -> {snap(v)!r}"[:700]
            if snap(S1) != before:
                return True, f"{name} with value {vb!r} changed its operand {src}"[:700]
    # later mutation of a list / dict that was passed to substitute or from_native does not change the schema built from it
    from d42.utils import from_native

    def scramble(x):
        if isinstance(x, list):
            for y in x:
                scramble(y)
            x.append(1)
        elif isinstance(x, dict):
            for y in list(x.values()):
                scramble(y)
            x["__later__"] = 1

    def later_values():
        yield lambda: []
        yield lambda: {}
        yield lambda: [1]
        yield lambda: [[]]
        yield lambda: [{}]
        yield lambda: {"a": 1}
        yield lambda: {"a": []}
        yield lambda: {"a": {}}
        yield lambda: {"items": [], "a": 1}
        yield lambda: [1, "x"]
        yield lambda: {"a": [1, {"b": []}]}
    for mk in later_values():
        for name, op in (("substitute", lambda v: substitute(S1, v)), ("from_native", lambda v: from_native(v))):
            v = mk()
            try:
                R = op(v)
            except Exception:
                continue
            rb = snap(R)
            scramble(v)
            if snap(R) != rb:
                return True, (f"{name}({src if name == 'substitute' else ''}{', ' if name == 'substitute' else ''}{mk()!r}) keeps the "
                              f"caller's container: mutating the value afterwards changes the schema built from it: {rb!r} -> {snap(R)!r}")[:700]
    # repeating an operation on equal inputs gives equal results regardless of what was executed in between: values that
    # compare equal but are of different kinds (True / 1 / 1.0, 0 / False / 0.0 / -0.0, '1' / b'1') substituted one after
    # the other into untyped positions -- each result must describe *its* value (memoisation keyed by == would not)
    import math as _m

    def kind(x):
        return (type(x).__name__, _m.copysign(1.0, x) if isinstance(x, float) else 0)
    alikes = [True, 1, 1.0, False, 0, 0.0, -0.0, "1", b"1"]
    schema = N.schema
    for untyped, wrap in ((schema.list, lambda x: [x]), (schema.dict, lambda x: {"k": x}), (schema.any, lambda x: x),
                          (schema.list([schema.none, ...]), lambda x: [None, x])):
        for order in (alikes, list(reversed(alikes))):
            for x in order:
                try:
                    R = substitute(untyped, wrap(x))
                    g = fake(R)
                except Exception:
                    continue
                leaf = g[-1] if isinstance(g, list) else (g["k"] if isinstance(g, dict) else g)
                if validate(R, wrap(x)).has_errors() or kind(leaf) != kind(x) or leaf != x:
                    return True, (f"substitute({untyped!r}, {wrap(x)!r}) after equal-comparing values of other kinds were substituted "
                                  f"gives {R!r}, which does not describe its value (generates {g!r})")[:700]
    return False, "operands and values unchanged"


def classify(detail: str) -> str:
    """a coarse signature of a failure, used to key listed known findings"""
    d = detail
    if d.startswith("v conforms to S but S % v = schema.any("):
        return "any-falls-back-to-an-alternative-the-value-does-not-conform-to"
    if d.startswith("v conforms to S but S % v = schema.list(") and "Missing" in d:
        return "contains-list-substitutes-at-a-partially-matching-position"
    for needle, sig in (("returned a schema that cannot be used", "placeholder-kept-as-member-schema"),
                        ("AttributeError(\"'ellipsis' object has no attribute '__accept__'\")", "list-contains-fallthrough-AttributeError"),
                        ("DeclarationError", "leaks-DeclarationError"),
                        ("schema.any()", "any-without-alternatives"),
                        ("TypeError", "TypeError"), ("KeyError", "KeyError"), ("IndexError", "IndexError"),
                        ("AttributeError", "AttributeError")):
        if needle in d:
            return sig
    return "other"


def run(prop: str, tier: str, seed: int):
    oracle = N.ORACLES[prop]
    out = {"property": prop, "evaluations": 0, "distinct": 0, "failures": [], "samples": [], "unreachable": 0,
           "functions": [], "rule": ""}
    seen = set()
    if prop in ("C04", "C05", "C12"):
        out["functions"] = ["idempotence of container substitution (C12 clause that is not a proof obligation)",
                            "second opinion on the container visits of Substitutor and on the relaxed validator "
                            "(all under contract): the property's native oracle on the real code"]
        out["rule"] = ("every pair of %d container schemas (typed / element / head / tail / contains lists, strict / relaxed / "
                       "nested / optional dicts, any, alias) and ~35 values each (conforming, partial, perturbed, extra keys, "
                       "inconvertible members, ... placeholders); distinct = pairs for which the substitution is attempted on a "
                       "container value" % (len(LIST_SCHEMAS) + len(DICT_SCHEMAS) + len(ANY_SCHEMAS)))
        cases = [({"schema": {"k": "expr", "src": s}, "value": {"k": "expr", "src": v}}, f"{s} % {v}") for s, v in substitution_cases()]
    elif prop == "C07":
        out["functions"] = ["Representor.visit_dict / visit_any / visit_list (element lists)", "Generator / Validator / Substitutor "
                            "container visits as far as their mutation of *operands* is concerned (second opinion)"]
        out["rule"] = "every container schema of the zoo: snapshot (repr, key order, element / alternative lists) before and after " \
                      "represent, repr, validate, fake, substitute, ==, +, make_required, iteration; distinct = schema expressions"
        for s_ in LIST_SCHEMAS + DICT_SCHEMAS + ANY_SCHEMAS:
            out["evaluations"] += 1
            seen.add(s_)
            try:
                bad, detail = ownership_case(s_)
            except N.Unreachable:
                out["unreachable"] += 1
                continue
            except Exception as e:
                out.setdefault("harness_errors", []).append(f"{s_}: {e!r}"[:200])
                continue
            if len(out["samples"]) < 6 and out["evaluations"] % 9 == 2:
                out["samples"].append({"case": s_, "oracle_says": detail[:160]})
            if bad:
                out["failures"].append({"inputs": {"schema": {"k": "expr", "src": s_}}, "label": s_, "detail": detail,
                                        "signature": "operand-mutated"})
        out["distinct"] = len(seen)
        return out
    elif prop == "C06":
        out["functions"] = ["Representor.visit_list (non-empty element lists)", "Representor.visit_dict", "Representor.visit_any",
                            "Representor.visit_type_alias"]
        out["rule"] = "container schemas (the substitution zoo) alone and nested once in a list / dict / any; distinct = expressions"
        cases = [({"schema": {"k": "expr", "src": s}}, s) for s in repr_cases()]
    else:
        return out
    for inputs, label in cases:
        out["evaluations"] += 1
        try:
            bad, detail = oracle(inputs, {})
        except N.Unreachable:
            out["unreachable"] += 1
            continue
        except Exception as e:        # harness trouble is not a violation
            out.setdefault("harness_errors", []).append(f"{label}: {e!r}"[:200])
            continue
        if label not in seen:
            seen.add(label)
        if len(out["samples"]) < 6 and out["evaluations"] % 97 == 5:
            out["samples"].append({"case": label, "oracle_says": detail[:160]})
        if bad:
            out["failures"].append({"inputs": inputs, "label": label, "detail": detail, "signature": classify(detail)})
    out["distinct"] = len(seen)
    return out


if __name__ == "__main__":
    prop, tier, seed = sys.argv[1], sys.argv[2], int(sys.argv[3])
    print(json.dumps(run(prop, tier, seed), default=str))
