"""Refutation fallback (DESIGN §2.12): when an obligation fails but the solver's counter-models do not
replay (float tolerances, uninterpreted rounding, ...), enumerate a boundary zoo natively against the
same property oracle.  A hit is a real failing input (sound however it was found); no hit proves
nothing and is reported as such.  Bounded by construction: at most MAX_CASES cases.

Usage: /venv/bin/python replay/search.py <spec.json>   (spec: oracle, function, meta)
prints {"found": bool, "inputs": ..., "detail": ..., "cases": n}
"""
from __future__ import annotations

import itertools
import json
import math
import os
import sys
import uuid as _uuid

HERE = os.path.dirname(os.path.dirname(os.path.abspath(__file__)))
sys.path.insert(0, HERE)
from replay import native as N  # noqa: E402

MAX_CASES = 60000


def J(x):
    """python value -> replay JSON"""
    from fractions import Fraction
    if x is None:
        return {"k": "none"}
    if x is N.Nil:
        return {"k": "nil"}
    if x is ...:
        return {"k": "ellipsis"}
    if isinstance(x, bool):
        return {"k": "bool", "v": x}
    if isinstance(x, int):
        return {"k": "int", "v": str(x)}
    if isinstance(x, float):
        if math.isnan(x):
            return {"k": "fnan"}
        if math.isinf(x):
            return {"k": "finf", "neg": x < 0}
        fr = Fraction(x)
        return {"k": "float", "num": str(fr.numerator), "den": str(fr.denominator)}
    if isinstance(x, str):
        return {"k": "str", "v": x}
    if isinstance(x, bytes):
        return {"k": "bytes", "v": x.decode("latin-1")}
    if isinstance(x, list):
        return {"k": "list", "items": [J(i) for i in x]}
    if isinstance(x, tuple):
        return {"k": "tuple", "items": [J(i) for i in x]}
    if isinstance(x, dict):
        return {"k": "dict", "items": [[J(k), J(v)] for k, v in x.items()]}
    if isinstance(x, _uuid.UUID):
        return {"k": "uuid", "version": J(x.version)}
    return {"k": "opaque"}


FLOATS = [0.0, 1.0, -1.0, 1.5, 1.54, 1.46, 1.23, 1.25, 1.21, 0.15, 0.996, 1.0 - 1e-12, 1.0 + 1e-12, 1.0 + 9e-10, 1.0 + 1.8e-9, 2.0,
          1234567.891, 1234567.892, 20000000.25, 20000000.26, 1e9 + 0.5, 1e9 + 1.5, 1e307, 1e308,
          -1e308, sys.float_info.max, math.inf, -math.inf, math.nan]
INTS = [0, 1, -1, 2, 5, 2 ** 63, -2 ** 63 - 1, True, False]
STRS = ["", "a", "ab", "abc", "banana", " ", "A", "aa", "xyz"]
ODD = [None, ..., N.Nil, 1, 1.0, "a", b"a", [], {}, (), set(), object(), True]


def schemas_for(cls: str):
    S = N.schema
    nil = N.Nil

    def props(**kw):
        return {k: J(v) for k, v in kw.items() if v is not nil}
    if cls == "FloatSchema":
        base = [0.0, 1.0, 1.5, 1.23, 1234567.891, 20000000.25, 1e9 + 0.5, 1e307, math.inf, math.nan]
        for v, mn, mx, p in itertools.product([nil] + base, [nil, 0.0, 1.0, math.nan], [nil, 1.0, 2.0, math.nan],
                                              [nil, 1, 2, 3]):
            yield props(value=v, min=mn, max=mx, precision=p)
    elif cls == "IntSchema":
        for v, mn, mx in itertools.product([nil, 0, 1, 5, True], [nil, 0, 1, 2 ** 63], [nil, 0, 1, -2 ** 64]):
            yield props(value=v, min=mn, max=mx)
    elif cls == "StrSchema":
        for v, ln, mn, mx in itertools.product([nil, "", "a", "banana"], [nil, 0, 1, 6], [nil, 0, 1, 40], [nil, -1, 0, 1, 6]):
            if ln is not nil and (mn is not nil or mx is not nil):
                continue
            for al, sub, pat in [(nil, nil, nil), ("ab", nil, nil), ("", nil, nil), (nil, "an", nil),
                                 ("abn", "an", nil), (nil, nil, "a+"), (nil, nil, "^b")]:
                yield props(value=v, len=ln, min_len=mn, max_len=mx, alphabet=al, substr=sub, pattern=pat)
        # Unicode-aware classes / boundaries, long exact lengths (beyond CPython's small-int cache), odd characters
        for pat in (r"^\w+$", r"\d{3}", r"\bкот\b", r"(?i)^zoë$", r"^[^\W\d]+$"):
            yield props(pattern=pat)
        for ln in (257, 300, 1000):
            yield props(len=ln)
            yield props(min_len=ln)
            yield props(max_len=ln)
        yield props(alphabet="xyé{}%")
        yield props(substr="é{")
    elif cls in ("BoolSchema",):
        for v in [nil, True, False]:
            yield props(value=v)
    elif cls == "BytesSchema":
        for v in [nil, b"", b"a"]:
            yield props(value=v)
    elif cls == "UUID4Schema":
        for v in [nil, _uuid.UUID("12345678-1234-4234-8234-123456789abc")]:
            yield props(value=v)
    else:
        yield {}


def values_for(cls: str):
    if cls == "FloatSchema":
        return FLOATS + [1, "1.0", None]
    if cls == "IntSchema":
        return INTS + [1.0, "1", None]
    if cls == "StrSchema":
        return STRS + [1, None, b"a", "привет", "٣٤٥", "мой кот спит", "Zoë", "ZOË", "x" * 256, "x" * 257, "x" * 300, "y" * 1000, "x" * 299,
                       "xyé{}%", "a{b}", "100%", "line\nbreak", "'quoted\"", "\u00e9{"]
    if cls == "UUID4Schema":
        return [_uuid.UUID("12345678-1234-4234-8234-123456789abc"), _uuid.UUID("12345678-1234-1234-8234-123456789abc"),
                _uuid.UUID(int=1), "x", None]
    return ODD


ARGS = {
    "min": lambda cls: [[x] for x in (FLOATS if cls == "FloatSchema" else INTS) + ["a", None]],
    "max": lambda cls: [[x] for x in (FLOATS if cls == "FloatSchema" else INTS) + ["a", None]],
    "precision": lambda cls: [[x] for x in [0, 1, 2, 15, 16, True, 1.0, "1"]],
    "__call__": lambda cls: [[x] for x in values_for(cls)],
    "len": lambda cls: [[a, b] for a in [0, 1, 6, -1, -2, ..., "a"] for b in [N.Nil, ..., 0, 1, 6, -1, -2, "a"]],
    "alphabet": lambda cls: [[x] for x in STRS + [1]],
    "contains": lambda cls: [[x] for x in STRS + [1]],
    "regex": lambda cls: [[x] for x in ["a", "a+", "^b", "(", ".*", 1]],
}


def pattern_zoo():
    """patterns from the supported grammar (bounded composition) with the listed unsupported constructs embedded"""
    atoms = ["a", ".", r"\d", r"\w", "[a-c]", "[^a-c]", r"[^\d]", r"[^\w]", r"[\d_x]", r"[^\dx-z]", r"[^a-f\d]", r"[^.\-\w]", r"[^x\dq-s\w]", r"\.", r"\n", "[.]", "[^.]",
             r"[\n]", "[^\n]", "é", "[^é]", "[ -~]", r"[a\-c]", r"\\", "[]a]", "[^]a]", "_", " "]
    unsup = [r"\s", r"\S", r"\D", r"\W", "(?=a)", "(?!a)", "(?<=a)", r"(a)\1", "(?>a)", "a*+", "a++", r"[\s]", r"[^\S]", r"[\D]",
             r"[\W]", "(?P<n>a)(?P=n)"]
    # (upper bounds 42..46: the numeric values of the sre opcodes MIN_REPEAT / MAX_REPEAT in CPython 3.8 - 3.13, which the
    # generator's open-ended test must not mistake for "no upper bound")
    quants = ["", "*", "+", "?", "{2}", "{2,}", "{1,3}", "{0}", "*?", "+?", "??", "{2,3}?", "{40,}", "{33,}?",
              "{40,42}", "{40,43}", "{40,44}", "{44}", "{,44}", "{41,44}?", "{40,45}", "{40,46}"]
    seen = set()

    def emit(p):
        if p not in seen:
            seen.add(p)
            return True
        return False
    for a in atoms + unsup:
        for q in quants:
            if a in ("a*+", "a++") and q:
                continue
            if emit(a + q):
                yield a + q
    groups = ["(%s)", "(?:%s)", "(?P<g>%s)"]
    for a in atoms[:12]:
        for b in atoms[:8] + unsup[:6]:
            for form in ("%s%s", "%s|%s", "^%s%s$", r"\A%s%s\Z"):
                p = form % (a, b)
                if emit(p):
                    yield p
            for g in groups:
                for q in ("", "+", "{2,}", "*?"):
                    p = (g % (a + "|" + b)) + q
                    if emit(p):
                        yield p
    for a in atoms[:10]:
        for u in unsup:
            for form in ("%s%s", "%s%s" , "(%s|%s)+", "(?:%s(%s))*"):
                for x, y in ((a, u), (u, a)):
                    p = form % (x, y)
                    if emit(p):
                        yield p
    for a in ("[a-c]", "[^a-c]", r"\d", "."):
        for b in (r"[^\w]", "x", r"\w"):
            for p in ("((%s|%s)+%s){2}" % (a, b, a), "(?:%s{2,}|(%s%s)*?)+" % (a, b, a), "^(%s(?:%s|%s{1,2})){2,}$" % (a, b, a)):
                if emit(p):
                    yield p


def search(spec):
    oracle = spec["oracle"]
    fn = N.ORACLES[oracle]
    func = spec.get("function", "")
    meta = spec.get("meta") or {}
    q = func.split(":")[-1]
    n = 0
    two = oracle in ("C10", "C11")

    # NaN parameters: the listed NaN findings (C02 / C10 / C15 ...); for C11 the oracle compares the two results with ==,
    # which NaN parameters defeat (C15-nan) although the registries are identical -- not a C11 matter
    skip_nan = any("nan" in r for r in (spec.get("active_regions") or [])) or oracle == "C11"

    def has_nan(x):
        if isinstance(x, dict):
            return x.get("k") == "fnan" or any(has_nan(v) for v in x.values()) or ("nan" in str(x.get("src", "")))
        if isinstance(x, list):
            return any(has_nan(v) for v in x)
        return False

    def run(inputs, m):
        nonlocal n
        if skip_nan and has_nan(inputs):
            return None          # inside a listed known finding (NaN): not searched again
        n += 1
        try:
            import inspect
            if len(inspect.signature(fn).parameters) >= 2:
                rep, detail = fn(inputs, m)
            else:
                rep, detail = fn(inputs)
        except N.Unreachable:
            return None
        except Exception:
            return None
        return (inputs, m, detail) if rep else None

    if oracle == "C03" and not q.startswith("Validator.visit_") or (oracle == "C03" and q.split("visit_")[-1] in ("list", "dict", "any", "type_alias")) \
            or (oracle == "C03" and "_validate_elements" in q):
        nested = [("schema.dict({'p': schema.list([schema.int(1), schema.int(2)])})", "{'p': [1, 3]}"),
                  ("schema.list(schema.list([schema.int, schema.str]))", "[[1, 'a'], [2, 3]]"),
                  ("schema.dict({'p': schema.list([..., schema.int(2)])})", "{'p': [5, 3]}"),
                  ("schema.dict({'p': schema.list([schema.int(1), ...])})", "{'p': [2, 3]}"),
                  ("schema.list([schema.dict({'a': schema.list([..., schema.int(7), ...])})])", "[{'a': [1, 2]}]"),
                  ("schema.dict({'u': schema.dict({'age': schema.int.min(0), 'n': schema.str.len(1, ...)})})", "{'u': {'age': -5, 'n': ''}}"),
                  ("schema.list(schema.dict({'a': schema.int}))", "[{'a': 1}, {'a': 'x'}, {}]"),
                  ("schema.dict({'x': schema.any(schema.int, schema.list(schema.int))})", "{'x': ['a']}"),
                  ("schema.dict({'al': schema.alias('n', schema.int.min(0))})", "{'al': -1}"),
                  ("schema.list(schema.alias('n', schema.str.len(2)))", "['ab', 'c']"),
                  ("schema.dict({'a': schema.int, ...: ...}) + schema.dict({'b': schema.list([schema.int])})", "{'a': 1, 'b': ['x']}")]
        for es, ev_ in nested:
            hit = run({"schema": {"k": "expr", "src": es}, "value": {"k": "expr", "src": ev_}, "path": {"k": "nil"}}, meta)
            if hit:
                return hit, n
        return None, n
    if oracle in ("C02", "C08") and (not q.startswith("Validator.visit_") or q.split("visit_")[-1] in ("list", "dict", "any", "type_alias")):
        cases = []
        dsch = ["schema.dict({'id': schema.int, ...: ..., 'name': schema.str})", "schema.dict({'id': schema.int, ...: ...}) + schema.dict({'name': schema.str})",
                "schema.dict({...: ..., optional('name'): schema.str})", "schema.dict({'a': schema.int, optional('b'): schema.str})", "schema.dict({'a': schema.int})",
                "schema.dict", "schema.dict({})"]
        dval = ["{'a': 1, 1: 0, None: 0}", "{'id': 1, 'zz': 0, ('t', 1): 0}", "{b'k': 0, 2.5: 0}", "{'id': 1, 'name': 42}", "{'id': 1}", "{'name': None}", "{'id': 1, 'name': 'x'}", "{'a': 1}", "{'a': 1, 'b': 2}", "{}", "{'a': 'x'}", "{'zz': 1}", "[]"]
        lsch = ["schema.list.len(..., 0)", "schema.list.len(0, 0)", "schema.list(schema.int).len(..., 0)", "schema.list.len(0)", "schema.list(schema.int).len(1, 2)",
                "schema.list([schema.int, ...])", "schema.list([..., schema.int])", "schema.list([..., schema.int, ...])", "schema.list([schema.int, schema.str])",
                "schema.list([])", "schema.list", "schema.any(schema.int, schema.list(schema.str))", "schema.alias('n', schema.list(schema.int).len(1))"]
        lval = ["[None, 1.5, b'x', object()]", "[]", "[1]", "[1, 2]", "[1, 'x']", "['x']", "['x', 1]", "[1, 2, 3]", "1", "'x'", "['a', 'b']"]
        # wide / long values (anything that prints over several lines if pretty-printed), alone and nested
        wide = ["tuple(range(40))", "list(range(60))", "'word ' * 40", "set(range(40))", "{str(i): i for i in range(30)}",
                "bytearray(b'x' * 120)", "{'id': tuple(range(40))}", "[1, tuple(range(40))]", "{'id': 1, 'tags': 'word ' * 40}"]
        wsch = ["schema.int", "schema.str", "schema.none", "schema.dict({'id': schema.int, 'tags': schema.list(schema.str)})",
                "schema.list(schema.int)", "schema.list([schema.int, schema.int])", "schema.uuid4", "schema.bytes"]
        for es, ev_ in list(itertools.product(dsch, dval)) + list(itertools.product(lsch, lval)) + list(itertools.product(wsch, wide)):
            hit = run({"schema": {"k": "expr", "src": es}, "value": {"k": "expr", "src": ev_}, "path": {"k": "nil"}}, meta)
            if hit:
                return hit, n
        return None, n
    if oracle in ("C02", "C03", "C08") and q.startswith("Validator.visit_"):
        cls = {"none": "NoneSchema", "bool": "BoolSchema", "int": "IntSchema", "float": "FloatSchema",
               "str": "StrSchema", "bytes": "BytesSchema", "uuid4": "UUID4Schema", "datetime": "DateTimeSchema",
               "date": "DateSchema"}.get(q.split("visit_")[1])
        if cls is None:
            return None, n
        vals = values_for(cls) + ODD
        for p in schemas_for(cls):
            for v in vals:
                if n >= MAX_CASES:
                    return None, n
                hit = run({"schema": {"k": "schema", "cls": cls, "props": p}, "value": J(v),
                           "path": {"k": "nil"}}, meta)
                if hit:
                    return hit, n
    if oracle == "C06":
        # every declarable combination of refinements, in several orders -- including orders the DSL refuses today (those
        # are skipped: `DSL refuses the expression`); a declaration method that starts accepting one of them yields a
        # schema whose printed form may not be re-declarable
        import itertools as it
        zoo = ["schema.none", "schema.bool(True)", "schema.int(3).min(1).max(5)", "schema.int.max(5).min(1)", "schema.float(1.5).precision(1)",
               "schema.float.precision(2)(1.25)", "schema.float.min(0.5).max(2.5).precision(3)", "schema.bytes(b'x')", "schema.str('ab')",
               "schema.list([])", "schema.list([]).len(0)", "schema.list([...])", "schema.list([...]).len(..., 3)", "schema.list([...]).len(1, 3)",
               "schema.list([schema.int, ...]).len(1, 3)", "schema.list([..., schema.int]).len(2)", "schema.list([..., schema.int, ...]).len(1, ...)",
               "schema.list(schema.int).len(..., 4)", "schema.list(schema.list([schema.int, schema.str]).len(2))", "schema.dict({})",
               "schema.dict({...: ...})", "schema.any(schema.int, schema.any(schema.str, schema.none))", "schema.int | schema.str | schema.none",
               "schema.list([schema.int | schema.none, ...])",
               # unions combined with unions (every way of building one must leave the alternatives flat)
               "(schema.int | schema.float) | (schema.none | schema.str)", "schema.int | schema.float | (schema.none | schema.str)",
               "schema.int | (schema.float | schema.none)", "schema.any(schema.int, schema.float) | schema.any(schema.none, schema.str)",
               "schema.any | schema.int", "schema.int | schema.any", "(schema.any | schema.int) | schema.str",
               "schema.list([(schema.int | schema.float) | (schema.none | schema.str)])",
               "schema.dict({'k': (schema.int | schema.float) | (schema.none | schema.str)})",
               "schema.any(schema.int, schema.str) % 1", "schema.list(schema.int | schema.str) % [1, 'a']"]
        refs = [".len(2)", ".len(1, ...)", ".len(..., 5)", ".len(1, 5)", ".alphabet('ab')", ".contains('a')", ".regex('a+')", ".regex('^ab$')"]
        for base in ("schema.str", "schema.str('ab')"):
            for k in (1, 2, 3):
                for combo in it.permutations(refs, k):
                    zoo.append(base + "".join(combo))
        for e in zoo:
            if n >= MAX_CASES:
                return None, n
            hit = run({"schema": {"k": "expr", "src": e}}, meta)
            if hit:
                return hit, n
        for kind in ("list", "dict"):
            hit = run({"history": {"k": "str", "v": kind}}, meta)
            if hit:
                return hit, n
        from replay.complement import repr_cases
        for e in repr_cases():
            hit = run({"schema": {"k": "expr", "src": e}}, meta)
            if hit:
                return hit, n
        return None, n
    if oracle == "C01":
        zoo = N.C17_ZOO + [
            "schema.str('AB-12').regex('[A-Z]{2}-[0-9]{2}')", "schema.str('x').len(1)", "schema.str('abc').alphabet('abc').contains('b')",
            "schema.int(3).min(0).max(9)", "schema.float(1.5).precision(1)", "schema.list(schema.int).len(0)",
            "schema.list(schema.str.len(1)).len(0, 2)", "schema.list([schema.int, schema.str])", "schema.list([schema.int, ...])",
            "schema.list([..., schema.int])", "schema.list([..., schema.int, ...])", "schema.str.len(0)", "schema.str.len(0, 0)",
            "schema.str.len(40)", "schema.str.regex('a{40,}')", "schema.str.regex('[^a-y]')", "schema.int.min(5).max(5)",
            "schema.float.min(0.5).max(0.5)", "schema.dict({'a': schema.int, optional('b'): schema.str})", "schema.dict",
            "schema.dict({'a': schema.int, ...: ...})", "schema.any", "schema.any(schema.none)", "schema.bool(True)", "schema.none",
            "schema.str.regex('^id-.$')", "schema.str.regex('x.y')", "schema.str.regex('[a-c].[0-9]')", "schema.str.regex('a|.b')",
            "schema.list(schema.int).len(3)", "schema.list.len(2)", "schema.bytes(b'x')", "schema.list(schema.list(schema.int).len(1)).len(2)",
        ]
        for e in zoo:
            n += 1
            inputs = {"schema": {"k": "expr", "src": e}}
            hit = run(inputs, meta)
            if hit:
                return hit, n
        return None, n
    if oracle == "C16":
        for inner in ["schema.int", "schema.str.len(1, 3)", "schema.dict({'x': schema.int})", "schema.list(schema.int)", "schema.none"]:
            hit = run({"schema": {"k": "custom", "inner": {"k": "expr", "src": inner}}}, {})
            if hit:
                return hit, n
        return None, n
    if oracle == "C14":
        vals = ["date(2024, 2, 29)", "datetime(2024, 2, 29, 13, 37)", "{'d': date(2024, 2, 29)}", "[date(2024, 2, 29), 1]", "1", "True", "1.5",
                "'a'", "None", "b'x'", "[1, 'a', None]", "{'a': [1, {'b': None}]}", "UUID('12345678-1234-4234-8234-123456789abc')",
                "UUID('12345678-1234-1234-8234-123456789abc')", "UUID(int=0)", "[UUID(int=0)]", "{'u': UUID('12345678-1234-1234-8234-123456789abc')}",
                "(1,)", "{1}", "object()", "[object()]", "{'k': (1,)}", "1e308", "float('inf')"]
        ws = {"date(2024, 2, 29)": ["datetime(2024, 2, 29, 13, 37)", "datetime(2024, 2, 29, 0, 0)", "date(2024, 3, 1)"],
              "datetime(2024, 2, 29, 13, 37)": ["date(2024, 2, 29)"], "{'d': date(2024, 2, 29)}": ["{'d': datetime(2024, 2, 29, 1, 1)}"],
              "[date(2024, 2, 29), 1]": ["[datetime(2024, 2, 29, 0, 0), 1]"], "1": ["True", "1.0", "2"], "True": ["1"], "1.5": ["1.5000000001", "2"],
              "[1, 'a', None]": ["[1, 'a']", "[1, 'a', None, None]", "[True, 'a', None]"], "{'a': [1, {'b': None}]}": ["{'a': [1, {'b': None, 'c': 1}]}", "{'a': [1, {}]}"]}
        for v in vals:
            for w in [None] + ws.get(v, []):
                inputs = {"value": {"k": "expr", "src": v}}
                if w is not None:
                    inputs["w"] = {"k": "expr", "src": w}
                hit = run(inputs, {})
                if hit:
                    return hit, n
        return None, n
    if oracle == "C13":
        dicts = ["schema.dict", "schema.dict({})", "schema.dict({'a': schema.int})", "schema.dict({'a': schema.int, 'b': schema.str})",
                 "schema.dict({optional('a'): schema.int, 'c': schema.none})", "schema.dict({'a': schema.str, ...: ...})",
                 "schema.dict({optional('b'): schema.str, ...: ...})", "schema.dict({...: ...})",
                 "schema.dict({'a': schema.int, optional('b'): schema.str})", "schema.dict({'id': schema.int, 'name': schema.str})"]
        for ea, eb in itertools.product(dicts, repeat=2):
            hit = run({"self": {"k": "expr", "src": ea}, "other": {"k": "expr", "src": eb}}, {"kind": "add"})
            if hit:
                return hit, n
        for ea in dicts:
            for ks in ("None", "['a']", "{'a', 'b'}", "['b']", "[]", "['zz']", "('a',)"):
                hit = run({"schema": {"k": "expr", "src": ea}, "keys": {"k": "expr", "src": ks}}, {})
                if hit:
                    return hit, n
        others = ["schema.int", "schema.str", "schema.none", "schema.any(schema.int, schema.str)", "schema.list(schema.int)",
                  "schema.dict({'a': schema.int})", "schema.any", "schema.int(1) | schema.int(2)"]
        for ea, eb in itertools.product(others, repeat=2):
            hit = run({"self": {"k": "expr", "src": ea}, "other": {"k": "expr", "src": eb}}, {"kind": "union"})
            if hit:
                return hit, n
        return None, n
    if oracle == "C17":
        # the C17 oracle carries its own zoo of seeded schemas, run in three interpreters with different hash seeds
        n += 1
        bad, detail = N.oracle_C17({}, meta)
        return ((({}, dict(meta), detail), n) if bad else (None, n))
    if oracle == "C09":
        for p in pattern_zoo():
            n += 1
            try:
                bad, detail = N.check_pattern(p)
            except N.Unreachable:
                continue
            if bad:
                return ({"pattern": J(p)}, {}, detail), n
        return None, n
    if oracle == "C15":
        # pairs of small schemas of one class: == must be symmetric / reflexive, != its negation, and equal
        # schemas must give the same verdicts
        import itertools as it
        for cls in ("IntSchema", "StrSchema", "BoolSchema", "FloatSchema", "BytesSchema"):
            built = []
            for p in it.islice(schemas_for(cls), 0, 400, 7):
                if any(v.get("k") == "fnan" for v in p.values()):
                    continue          # NaN parameters: the listed known finding C15-nan
                try:
                    built.append((p, N.build_schema(cls, p)))
                except N.Unreachable:
                    pass
            vals = values_for(cls)
            for (pa, A), (pb, B) in it.product(built[:40], repeat=2):
                n += 1
                if n >= MAX_CASES:
                    return None, n
                try:
                    bad = None
                    if (A == B) != (B == A):
                        bad = f"A == B is {A == B} but B == A is {B == A}"
                    elif (A != B) == (A == B):
                        bad = "!= is not the negation of =="
                    elif A == B and any(N.validate(A, v).has_errors() != N.validate(B, v).has_errors() for v in vals):
                        bad = "equal schemas give different verdicts"
                    elif not (A == A):
                        bad = "not reflexive"
                    if bad:
                        inputs = {"A": {"k": "schema", "cls": cls, "props": pa}, "B": {"k": "schema", "cls": cls, "props": pb},
                                  "C": {"k": "schema", "cls": cls, "props": pb}}
                        return (inputs, {"law": None}, f"{bad}: A={A!r} B={B!r}"), n
                except Exception:
                    continue
        # schemas of different classes (incl. the ones that accept anything): never equal, from either side
        exprs = ["schema.any", "schema.int", "schema.str", "schema.none", "schema.list", "schema.dict", "schema.bool",
                 "schema.any(schema.any, schema.none)", "schema.any(schema.int)", "schema.list(schema.any)",
                 "schema.dict({'a': schema.any})", "schema.float", "schema.bytes", "schema.any(schema.int, schema.str)"]
        built2 = [(e, N.build({"k": "expr", "src": e})) for e in exprs]
        probe = [None, 0, 1, "a", [], {}, [1], {"a": 1}, 1.5, b"", True]
        for (ea, A), (eb, B) in it.product(built2, repeat=2):
            n += 1
            try:
                bad = None
                if (A == B) != (B == A):
                    bad = f"{ea} == {eb} is {A == B} but {eb} == {ea} is {B == A}"
                elif (A != B) == (A == B):
                    bad = f"!= is not the negation of == for {ea}, {eb}"
                elif A == B and any(N.validate(A, v).has_errors() != N.validate(B, v).has_errors() for v in probe):
                    bad = f"{ea} == {eb} although they give different verdicts"
                if bad:
                    inputs = {"A": {"k": "expr", "src": ea}, "B": {"k": "expr", "src": eb}, "C": {"k": "expr", "src": eb}}
                    return (inputs, {"law": None}, bad), n
            except Exception:
                continue
        # transitivity over triples of dict / list schemas declared from different kinds of mapping / key orders / value
        # kinds (the stored key table must compare like a plain dict whatever it was declared from)
        exprs3 = ["schema.dict({'id': schema.int, 'name': schema.str})", "schema.dict({'name': schema.str, 'id': schema.int})",
                  "schema.dict(OrderedDict([('id', schema.int), ('name', schema.str)]))",
                  "schema.dict(OrderedDict([('name', schema.str), ('id', schema.int)]))",
                  "schema.dict(defaultdict(list, {'id': schema.int, 'name': schema.str}))",
                  "schema.dict({'id': schema.int, optional('name'): schema.str})",
                  "schema.dict(OrderedDict([(optional('name'), schema.str), ('id', schema.int)]))",
                  "schema.dict({'id': schema.int, 'name': schema.str, ...: ...})",
                  "schema.dict(OrderedDict([(..., ...), ('id', schema.int), ('name', schema.str)]))",
                  "schema.list([schema.int(1), schema.int(True)])", "schema.list([schema.int(True), schema.int(1)])",
                  "schema.list([schema.int(1), schema.int(1)])", "schema.int(1)", "schema.int(True)", "schema.float(1.0)"]
        built3 = []
        for e in exprs3:
            try:
                built3.append((e, N.build({"k": "expr", "src": e})))
            except N.Unreachable:
                pass
        probe3 = [{"id": 1, "name": "n"}, {"name": "n", "id": 1}, {"id": 1}, {"id": 1, "name": "n", "x": 0}, [1, 1], [True, 1], 1, True, 1.0]
        for (ea, A), (eb, B), (ec, C) in it.product(built3, repeat=3):
            n += 1
            try:
                bad = None
                if A == B and B == C and not (A == C):
                    bad = f"not transitive: {ea} == {eb} and {eb} == {ec}, but {ea} != {ec}"
                elif (A == B) != (B == A):
                    bad = f"{ea} == {eb} is {A == B} but the other way round is {B == A}"
                elif A == B and any(N.validate(A, v).has_errors() != N.validate(B, v).has_errors() for v in probe3):
                    bad = f"{ea} == {eb} although they give different verdicts"
                if bad:
                    inputs = {"A": {"k": "expr", "src": ea}, "B": {"k": "expr", "src": eb}, "C": {"k": "expr", "src": ec}}
                    return (inputs, {"law": None}, bad), n
            except Exception:
                continue
        return None, n
    if oracle in ("C10", "C11") and "Schema." not in q:
        # call chains as text: receivers whose printed form is unusual (error messages print the receiver: braces, percent
        # signs, tuple keys, nested containers), refinements that are refused, in every order
        str_bases = ["schema.str('ab')", "schema.str('a{}b')", "schema.str('/users/{id}')", "schema.str('100%d')", "schema.str",
                     "schema.str('ab{}')"]
        str_refs = [".len(..., 1)", ".len(5, ...)", ".len(2)", ".alphabet('ab{}')", ".contains('{id}')", ".contains('b')", ".regex('a')",
                    ".alphabet('%sab')"]
        list_bases = ["schema.list([schema.dict({(0, 1): schema.int})])", "schema.list([schema.dict({'id': schema.int})])",
                      "schema.list([schema.str('{0}'), ...])", "schema.list(schema.dict({(0, 1): schema.int, optional((2,)): schema.str}))",
                      "schema.list([schema.dict({(): schema.int, ...: ...}), schema.any(schema.dict({('x', 'y'): schema.int}), schema.none)])"]
        list_refs = [".len(2)", ".len(..., 0)", ".len(3, ...)", ".len(-1)", ".len(0, 0)", ".len(1)", "([])", "(schema.int)"]
        other = [("schema.dict({(0, 1): schema.int})", ["({})"]), ("schema.dict({optional((0, 1)): schema.int, 'id': schema.int})", ["({'a': schema.int})"]),
                 ("schema.any(schema.dict({(0, 1): schema.int}), schema.none)", ["(schema.int)"]),
                 ("schema.int", ["(schema.dict({(0, 1): schema.int}))"]), ("schema.str", [".len(schema.dict({(0, 1): schema.int}))"]),
                 ("schema.int(5)", [".min(7)", ".max(3)"]), ("schema.float(1.5)", [".min(2.0)", ".precision(0)"]),
                 ("schema.bytes(b'{}')", ["(b'x')"]), ("schema.list(schema.str('{}')).len(1, 3)", [".len(2)"])]
        cases = []
        for b_ in str_bases:
            for k_ in (1, 2):
                for combo in itertools.combinations(str_refs, k_):
                    cases.append((b_, list(combo)))
        for b_ in list_bases:
            for k_ in (1, 2):
                for combo in itertools.combinations(list_refs, k_):
                    cases.append((b_, list(combo)))
        cases += other
        for b_, refs_ in cases:
            if n >= MAX_CASES:
                return None, n
            hit = run({"base": {"k": "expr", "src": b_}, "refs": [{"k": "expr", "src": r_} for r_ in refs_]}, {})
            if hit:
                return hit, n
        return None, n
    if oracle in ("C10", "C11") and "Schema." in q:
        cls, method = q.split(".", 1)
        if method not in ARGS:
            return None, n
        for p in schemas_for(cls):
            for args in ARGS[method](cls):
                if n >= MAX_CASES:
                    return None, n
                params = meta.get("params") or (["val_or_min", "max"] if method == "len" else ["value"])
                inputs = {"self": {"k": "schema", "cls": cls, "props": p}}
                for name, a in zip(params, args):
                    inputs[name] = J(a)
                m = dict(meta)
                m.setdefault("method", method)
                m.setdefault("params", params)
                hit = run(inputs, m)
                if hit:
                    return hit, n
    return None, n


def main():
    spec = json.load(open(sys.argv[1]))
    hit, n = search(spec)
    if hit:
        print(json.dumps({"found": True, "inputs": hit[0], "meta": hit[1], "detail": hit[2], "cases": n}))
    else:
        print(json.dumps({"found": False, "cases": n}))


if __name__ == "__main__":
    main()
