"""Native replay (runs under /venv/bin/python against /repo): rebuilds the concretised inputs of a
counter-model through the *public* DSL and evaluates the property statement end-to-end.

Usage:  /venv/bin/python replay/native.py <replay.json>     -> prints one JSON object, exit 0
        {"reproduced": bool, "unreachable": bool, "detail": str}
The oracles here are independent native implementations of the specification functions of DESIGN §3,
written from the property statements (they never call the code under test to decide the expected
answer).
"""
from __future__ import annotations

import datetime as _dt
import json
import math
import os
import re
import sys
import uuid as _uuid
from decimal import Decimal
from fractions import Fraction

sys.path.insert(0, os.environ.get("PYVC_REPO", "/repo"))

from niltype import Nil  # noqa: E402

import d42  # noqa: E402,F401
from d42 import fake, optional, schema, substitute, validate  # noqa: E402
from d42.declaration import DeclarationError  # noqa: E402
from d42.declaration.types import (AnySchema, BoolSchema, BytesSchema, DateSchema,  # noqa: E402
                                   DateTimeSchema, DictSchema, FloatSchema, IntSchema, ListSchema,
                                   NoneSchema, Schema, StrSchema, TypeAliasSchema, UUID4Schema)


class Unreachable(Exception):
    """The counter-model's schema is not constructible through the DSL: outside Reach_T."""


class Opaque:
    def __repr__(self) -> str:
        return "<opaque>"


# ----------------------------------------------------------------------------- building inputs
def build(d):
    k = d["k"]
    if k == "none":
        return None
    if k == "nil":
        return Nil
    if k == "ellipsis":
        return ...
    if k == "bool":
        return bool(d["v"])
    if k == "int":
        return int(d["v"])
    if k == "float":
        return float(Fraction(int(d["num"]), int(d["den"])))
    if k == "finf":
        return -math.inf if d["neg"] else math.inf
    if k == "fnan":
        return math.nan
    if k == "str":
        return d["v"]
    if k == "bytes":
        return d["v"].encode("latin-1", "replace")
    if k == "list":
        return [build(x) for x in d["items"]]
    if k == "tuple":
        return tuple(build(x) for x in d["items"])
    if k == "dict":
        out = {}
        for kk, vv in d["items"]:
            try:
                out[build(kk)] = build(vv)
            except TypeError:
                raise Unreachable("unhashable dict key in model")
        return out
    if k in ("set", "frozenset"):
        try:
            return set(build(x) for x in d["items"])
        except TypeError:
            raise Unreachable("unhashable set member")
    if k == "uuid":
        ver = d.get("version", {})
        v = int(ver["v"]) if ver.get("k") == "int" else None
        if v == 4:
            return _uuid.UUID("12345678-1234-4234-8234-123456789abc")
        if v in (1, 2, 3, 5):
            return _uuid.UUID(f"12345678-1234-{v}234-8234-123456789abc")
        return _uuid.UUID(int=1)    # version None
    if k == "datetime":
        return _dt.datetime(2020, 1, 2, 3, 4, 5)
    if k == "date":
        return _dt.date(2020, 1, 2)
    if k == "Decimal":
        return Decimal("1.5")
    if k == "Fraction":
        return Fraction(1, 3)
    if k == "complex":
        return 1j
    if k == "bytearray":
        return bytearray(b"x")
    if k == "class":
        return {"int": int, "str": str, "float": float, "bool": bool, "list": list, "dict": dict,
                "NoneType": type(None)}.get(d["name"], object)
    if k == "schema":
        return build_schema(d["cls"], d["props"])
    if k == "expr":      # a DSL / literal expression (bounded complement zoo): readable in replay files
        try:
            import threading, collections
            return eval(d["src"], {"schema": schema, "optional": optional, "Nil": Nil, "object": object, "datetime": _dt.datetime,
                                   "date": _dt.date, "UUID": _uuid.UUID, "Lock": threading.Lock, "float": float,
                                   "OrderedDict": collections.OrderedDict, "defaultdict": collections.defaultdict,
                                   "list": list, "int": int, "str": str, "dict": dict, "bytearray": bytearray,
                                   "tuple": tuple, "range": range, "set": set, "frozenset": frozenset, "bytes": bytes,
                                   "__builtins__": {}})
        except DeclarationError as e:
            raise Unreachable(f"DSL refuses the expression: {e}")
    if k == "optional":
        return optional(build(d["key"]))
    if k == "custom":
        return make_custom(build(d["inner"]))
    if k == "props":
        import d42.declaration.types as TY
        cls = getattr(TY, d["cls"], None)
        if cls is None:
            from d42.declaration import Props as cls
        reg = {}
        for kk, vv in d["items"]:
            key = build(kk)
            if not isinstance(key, str):
                raise Unreachable("non-string registry key")
            reg[key] = build(vv)
        return cls(reg)
    if k == "error":
        import d42.validation.errors as E
        cls = getattr(E, d["cls"])
        a = d["attrs"]
        order = ["path", "actual_value"] + [x for x in a if x not in ("path", "actual_value")]
        return cls(*[build(a[x]) for x in order])
    if k == "path":
        from th import PathHolder
        p = PathHolder()
        for x in d["keys"]:
            p = p[build(x)]
        return p
    return Opaque()


def _len_call(s, props):
    ln, mn, mx = props.get("len"), props.get("min_len"), props.get("max_len")
    if ln is not None:
        if mn is not None or mx is not None:
            raise Unreachable("len together with min_len/max_len")
        return s.len(build(ln))
    if mn is not None and mx is not None:
        return s.len(build(mn), build(mx))
    if mn is not None:
        return s.len(build(mn), ...)
    if mx is not None:
        return s.len(..., build(mx))
    return s


def build_schema(cls: str, props: dict):
    """Synthesise the DSL expression for the target registry (value call first, then refinements)."""
    try:
        return _build_schema(cls, props)
    except DeclarationError as e:
        raise Unreachable(f"DSL refuses the model's schema: {e}")
    except (TypeError, AttributeError, KeyError) as e:
        raise Unreachable(f"model's schema is not DSL-constructible: {e!r}")


def _build_schema(cls: str, props: dict):
    g = lambda n: props.get(n)
    if cls == "NoneSchema":
        return schema.none
    simple = {"BoolSchema": "bool", "BytesSchema": "bytes", "UUID4Schema": "uuid4",
              "DateTimeSchema": "datetime", "DateSchema": "date"}
    if cls in simple:
        s = getattr(schema, simple[cls])
        return s(build(g("value"))) if g("value") is not None else s
    if cls in ("IntSchema", "FloatSchema"):
        s = schema.int if cls == "IntSchema" else schema.float
        if g("value") is not None:
            s = s(build(g("value")))
        if g("min") is not None:
            s = s.min(build(g("min")))
        if g("max") is not None:
            s = s.max(build(g("max")))
        if g("precision") is not None:
            s = s.precision(build(g("precision")))
        return s
    if cls == "StrSchema":
        s = schema.str
        if g("value") is not None:
            s = s(build(g("value")))
        # max_len may precede regex in the unrepaired tree: declare lengths first when a pattern exists
        if g("pattern") is not None:
            s = _len_call(s, props)
            s = s.regex(build(g("pattern")))
            if g("alphabet") is not None or g("substr") is not None:
                raise Unreachable("pattern with alphabet/substr")
            return s
        if g("alphabet") is not None:
            s = s.alphabet(build(g("alphabet")))
        if g("substr") is not None:
            s = s.contains(build(g("substr")))
        return _len_call(s, props)
    if cls == "ListSchema":
        s = schema.list
        if g("type") is not None and g("elements") is not None:
            raise Unreachable("both type and elements")
        if g("type") is not None:
            s = s(build(g("type")))
        elif g("elements") is not None:
            s = s(build(g("elements")))
        return _len_call(s, props)
    if cls == "DictSchema":
        s = schema.dict
        if g("keys") is None:
            return s
        keys = {}
        kd = g("keys")
        if kd.get("k") != "dict":
            raise Unreachable("keys is not a dict")
        for kk, vv in kd["items"]:
            key = build(kk)
            if vv.get("k") != "tuple" or len(vv["items"]) != 2:
                raise Unreachable("keys entry is not a pair")
            val, opt = build(vv["items"][0]), build(vv["items"][1])
            if key is ...:
                keys[...] = ...
            else:
                keys[optional(key) if opt is True else key] = val
        return s(keys)
    if cls == "AnySchema":
        s = schema.any
        if g("types") is None:
            return s
        ts = build(g("types"))
        if not ts:
            raise Unreachable("empty types tuple is not declarable")
        return s(*ts)
    if cls == "TypeAliasSchema":
        return schema.alias(build(g("name")) if g("name") is not None else "alias",
                            build(g("type")) if g("type") is not None else schema.any)
    raise Unreachable(f"schema class {cls}")


# ----------------------------------------------------------------------------- spec functions (native)
def isclose(a, b):
    return math.isclose(a, b)


def feq(a, b, precision):
    if precision is Nil:
        return math.isclose(a, b)
    sc = Fraction(10) ** precision
    mx = Fraction(sys.float_info.max)
    if math.isfinite(a) and math.isfinite(b) and abs(Fraction(a) * sc) <= mx and abs(Fraction(b) * sc) <= mx:
        return round(Fraction(a) * sc) == round(Fraction(b) * sc)
    return a == b


def conforms(S, v) -> bool:
    """C02's meaning of a schema (DESIGN §3)."""
    p = S.props
    if isinstance(S, NoneSchema):
        return v is None
    if isinstance(S, BoolSchema):
        return isinstance(v, bool) and (p.value is Nil or v == p.value)
    if isinstance(S, IntSchema):
        return (isinstance(v, int) and (p.value is Nil or v == p.value)
                and (p.min is Nil or p.min <= v) and (p.max is Nil or v <= p.max))
    if isinstance(S, FloatSchema):
        return (isinstance(v, float) and (p.value is Nil or feq(v, p.value, p.precision))
                and (p.min is Nil or p.min <= v) and (p.max is Nil or v <= p.max))
    if isinstance(S, StrSchema):
        return (isinstance(v, str) and (p.value is Nil or v == p.value)
                and (p.pattern is Nil or re.search(p.pattern, v) is not None)
                and (p.len is Nil or len(v) == p.len)
                and (p.min_len is Nil or len(v) >= p.min_len)
                and (p.max_len is Nil or len(v) <= p.max_len)
                and (p.substr is Nil or p.substr in v)
                and (p.alphabet is Nil or all(c in p.alphabet for c in v)))
    if isinstance(S, BytesSchema):
        return isinstance(v, bytes) and (p.value is Nil or v == p.value)
    if isinstance(S, UUID4Schema):
        return isinstance(v, _uuid.UUID) and v.version == 4 and (p.value is Nil or v == p.value)
    if isinstance(S, DateTimeSchema):
        return isinstance(v, _dt.datetime) and (p.value is Nil or v == p.value)
    if isinstance(S, DateSchema):
        return isinstance(v, _dt.date) and (p.value is Nil or v == p.value)
    if isinstance(S, AnySchema):
        return p.types is Nil or any(conforms(t, v) for t in p.types)
    if isinstance(S, TypeAliasSchema):
        return conforms(p.type, v)
    if isinstance(S, ListSchema):
        if not isinstance(v, list):
            return False
        n = len(v)
        if p.len is not Nil and n != p.len:
            return False
        if p.min_len is not Nil and n < p.min_len:
            return False
        if p.max_len is not Nil and n > p.max_len:
            return False
        if p.type is not Nil:
            return all(conforms(p.type, x) for x in v)
        if p.elements is Nil:
            return True
        E = p.elements
        m = len(E)
        if m > 2 and E[0] is ... and E[-1] is ...:
            k = m - 2
            return any(all(conforms(E[1 + j], v[i + j]) for j in range(k)) for i in range(0, n - k + 1))
        if m >= 2 and E[-1] is ...:
            k = m - 1
            return k <= n and all(conforms(E[j], v[j]) for j in range(k))
        if m >= 1 and E[0] is ...:
            k = m - 1
            return k <= n and all(conforms(E[1 + j], v[n - k + j]) for j in range(k))
        return n == m and all(conforms(E[j], v[j]) for j in range(m))
    if isinstance(S, DictSchema):
        if not isinstance(v, dict):
            return False
        if p.keys is Nil:
            return True
        for k, (s, opt) in p.keys.items():
            if k is ...:
                continue
            if k in v:
                if not conforms(s, v[k]):
                    return False
            elif not opt:
                return False
        if ... not in p.keys:
            return all(k in p.keys for k in v)
        return True
    raise Unreachable(f"no native spec for {type(S).__name__}")


def follow(root, path):
    cur = root
    for k in path:
        # th's PathHolder iterates over accessor objects (ItemAccessor('p'), ...) that apply themselves to a target
        cur = k(cur) if callable(k) else cur[k]
    return cur


# ----------------------------------------------------------------------------- property oracles
def oracle_C02(inp):
    S, v = build(inp["schema"]), build(inp["value"])
    got = not validate(S, v).has_errors()
    want = conforms(S, v)
    return got != want, f"validate ok={got}, spec conforms={want}; S={S!r} v={v!r}"


def _sr(x) -> str:
    """repr for the oracle's own messages (the value under test may be unprintable, e.g. an int of 5000 digits)"""
    try:
        t = repr(x)
    except Exception as e:
        return f"<{type(x).__name__} whose repr raises {type(e).__name__}>"
    return t if len(t) <= 300 else t[:300] + "..."


def oracle_C08(inp):
    if "error" in inp:
        return oracle_format(inp)
    S, v = build(inp["schema"]), build(inp["value"])
    from d42.validation import ValidationException, validate_or_fail
    try:
        r = validate(S, v)
        msgs = [e.format(d42.validation.Formatter()) for e in r.get_errors()]
    except Exception as e:
        return True, f"validate/format raised {e!r}; S={_sr(S)} v={_sr(v)}"
    if any((not isinstance(m, str)) or m == "" for m in msgs):
        return True, f"empty message; S={_sr(S)} v={_sr(v)}"
    if any("\n" in m for m in msgs):
        return True, f"an error renders to more than one line (validate_or_fail carries one line per error); S={_sr(S)} v={_sr(v)}"
    try:
        ok = validate_or_fail(S, v)
        if ok is not True or msgs:
            return True, "validate_or_fail returned although errors exist"
    except ValidationException as e:
        if not msgs:
            return True, "ValidationException without errors"
        if str(e).count("\n - ") < len(msgs):
            return True, "not one line per error"
    except Exception as e:
        return True, f"validate_or_fail raised {e!r}"
    # ... and with a validator the user configured (own zero-argument result factory, own root path)
    from d42.validation import ValidationResult as _VR, Validator as _V
    from th import PathHolder as _PH
    try:
        vis = _V(validation_result_factory=lambda: _VR(), path_holder_factory=lambda: _PH()["body"])
        r2 = S.__accept__(vis, value=v)
        if len(r2.get_errors()) != len(r.get_errors()):
            return True, f"a Validator with its own factories reports {len(r2.get_errors())} errors, the default one {len(r.get_errors())}; S={_sr(S)} v={_sr(v)}"
    except Exception as e:
        return True, f"validation with Validator(validation_result_factory=lambda: ValidationResult(), path_holder_factory=...) raised {e!r}; S={_sr(S)} v={_sr(v)}"
    return False, f"total; S={_sr(S)} v={_sr(v)}"


def error_fact_true(e, sub) -> bool:
    """Is the fact an error states true of the sub-value it reports?  (native `fact`, DESIGN §3)"""
    n = type(e).__name__
    try:
        if n == "TypeValidationError":
            return not isinstance(sub, e.expected_type)
        if n == "ValueValidationError":
            return not (sub == e.expected_value) or (isinstance(sub, float) and sub != e.expected_value)
        if n == "MinValueValidationError":
            return not (sub >= e.min_value)
        if n == "MaxValueValidationError":
            return not (sub <= e.max_value)
        if n == "LengthValidationError":
            return len(sub) != e.length
        if n == "MinLengthValidationError":
            return len(sub) < e.min_length
        if n == "MaxLengthValidationError":
            return len(sub) > e.max_length
        if n == "AlphabetValidationError":
            return any(c not in e.alphabet for c in sub)
        if n == "SubstrValidationError":
            return e.substr not in sub
        if n == "RegexValidationError":
            return re.search(e.pattern, sub) is None
        if n == "MissingElementValidationError":
            return e.index >= len(sub)
        if n == "ExtraElementValidationError":
            return 0 <= e.index < len(sub)
        if n == "MissingKeyValidationError":
            return e.missing_key not in sub
        if n == "ExtraKeyValidationError":
            return e.extra_key in sub
        if n == "SchemaMismatchValidationError":
            return not any(conforms(s, sub) for s in e.expected_schemas)
        if n == "InvalidUUIDVersionValidationError":
            return sub.version != 4 and e.actual_version == sub.version
    except Exception:
        return False
    return True


def oracle_format(inp):
    """Formatter-level: rendering an error is total, non-empty, names the error's path, is repeatable
    and leaves the error untouched."""
    from copy import deepcopy
    from d42.validation import Formatter
    from th import PathHolder
    e = build(inp["error"])
    fm = Formatter()
    before = [x for x in e.path]
    try:
        m1 = e.format(fm)
        m2 = e.format(fm)
    except Exception as x:
        return True, f"formatting {e!r} raised {x!r}"
    after = [x for x in e.path]
    if not isinstance(m1, str) or not m1:
        return True, f"empty message for {e!r}"
    if m1 != m2:
        return True, f"rendering {type(e).__name__} twice gives {m1!r} then {m2!r}"
    if before != after:
        return True, f"rendering changed the error's path: {before} -> {after}"
    shown = before
    n = type(e).__name__
    if n == "MissingElementValidationError":
        shown = before + [e.index]
    if n == "MissingKeyValidationError":
        shown = before + [e.missing_key]
    if shown:
        p = PathHolder()
        for k in shown:
            p = p[k]
        text = str(PathHolder("_", [x for x in p]))
        if text not in m1:
            return True, f"message {m1!r} does not name path {text}"
    return False, f"{m1!r}"


def oracle_C03(inp):
    from d42.validation import Formatter
    if "error" in inp:
        return oracle_format(inp)
    S, v = build(inp["schema"]), build(inp["value"])
    fm = Formatter()
    bad = []
    prefix = []
    kw = {}
    if inp.get("path", {}).get("k") == "path" and inp["path"]["keys"]:
        # the function-level counter-model sits below a non-empty path: validate there; every error
        # must keep that prefix and its remaining keys must lead from `v` to the reported sub-value
        kw["path"] = build(inp["path"])
        prefix = [x for x in kw["path"]]
    for e in validate(S, v, **kw).get_errors():
        keys = [x for x in e.path]
        if keys[:len(prefix)] != prefix:
            bad.append(f"{type(e).__name__}: path {e.path} lost the prefix {prefix} it was validated under")
            continue
        try:
            sub = follow(v, keys[len(prefix):])
        except Exception as x:
            bad.append(f"{type(e).__name__}: path {e.path} does not lead into the value ({x!r})")
            continue
        if sub is not e.actual_value:
            bad.append(f"{type(e).__name__}: path {e.path} reaches {sub!r}, error reports {e.actual_value!r}")
            continue
        if not error_fact_true(e, sub):
            bad.append(f"{type(e).__name__}: stated fact is false of {sub!r}")
            continue
        msg = e.format(fm)
        shown = e.path
        n = type(e).__name__
        if n == "MissingElementValidationError":
            from copy import deepcopy
            shown = deepcopy(e.path)[e.index]
        if n == "MissingKeyValidationError":
            from copy import deepcopy
            shown = deepcopy(e.path)[e.missing_key]
        if len(shown) > 0:
            from th import PathHolder
            text = str(PathHolder("_", [x for x in shown]))
            if text not in msg:
                bad.append(f"{n}: message {msg!r} does not name path {text}")
    # rendering is pure: formatting again gives the same text and leaves every error's path alone
    errs = validate(S, v, **kw).get_errors()
    before = [[x for x in e.path] for e in errs]
    first = [e.format(fm) for e in errs]
    second = [e.format(fm) for e in errs]
    after = [[x for x in e.path] for e in errs]
    if first != second:
        bad.append(f"rendering the same errors twice gives different messages: {first} vs {second}")
    if before != after:
        bad.append(f"rendering changed an error's path: {before} -> {after}")
    return bool(bad), ("; ".join(bad) if bad else "all errors located and true") + f"; S={S!r} v={v!r}"


ORACLES = {"C02": oracle_C02, "C03": oracle_C03, "C08": oracle_C08}


def main() -> None:
    spec = json.load(open(sys.argv[1]))
    out = {"reproduced": False, "unreachable": False, "detail": ""}
    try:
        fn = ORACLES.get(spec["oracle"])
        if fn is None:
            from replay import oracles_more  # type: ignore
            fn = oracles_more.ORACLES[spec["oracle"]]
        import inspect
        if len(inspect.signature(fn).parameters) >= 2:
            rep, detail = fn(spec["inputs"], spec.get("meta") or {})
        else:
            rep, detail = fn(spec["inputs"])
        out["reproduced"], out["detail"] = bool(rep), detail
    except Unreachable as u:
        out["unreachable"], out["detail"] = True, str(u)
    except Exception as e:   # a crash of the replay harness is not a violation
        out["detail"] = f"replay harness error: {e!r}"
        out["harness_error"] = True
    print(json.dumps(out))




# ----------------------------------------------------------------------------- declaration oracles
def _call(S, m, args):
    """-> ('raise', exc_type_name) | ('ok', schema)"""
    try:
        return ("ok", getattr(S, m)(*args))
    except DeclarationError:
        return ("raise", "DeclarationError")
    except Exception as e:       # any other exception type is itself a C10 violation
        return ("raise", type(e).__name__)


def _args(inp, prefix, names):
    out = []
    for n in names:
        v = build(inp[f"{prefix}.{n}"])
        if n == "max" and v is Nil:
            continue
        out.append(v)
    return out


GROUPS = {"min": ["min"], "max": ["max"], "precision": ["precision"], "len": ["len", "min_len", "max_len"],
          "alphabet": ["alphabet"], "contains": ["substr"], "regex": ["pattern"]}


def _decl_args(group, props):
    """arguments that re-declare refinement `group` as found in `props` (replay JSON)"""
    g = lambda n: build(props[n]) if n in props else Nil
    if group == "len":
        if g("len") is not Nil:
            return [g("len")]
        if g("min_len") is not Nil and g("max_len") is not Nil:
            return [g("min_len"), g("max_len")]
        if g("min_len") is not Nil:
            return [g("min_len"), ...]
        return [..., g("max_len")]
    return [g(GROUPS[group][0])]


def oracle_C11_fn(inp, meta):
    """function-level: S.<method>(*args) compared with every order obtained by moving one refinement
    that S already carries behind the new one."""
    sd = inp["self"]
    method = meta["method"]
    args = [build(inp[n]) for n in meta["params"]]
    if meta["params"] and meta["params"][-1] == "max" and args[-1] is Nil:
        args = args[:-1]
    props = sd["props"]
    S = build(sd)
    A = _call(S, method, args)
    if method == "__call__":
        return False, "value declaration is not a refinement"
    for group, names in GROUPS.items():
        present = [n for n in names if n in props]
        if not present:
            continue
        rest = {k: v for k, v in props.items() if k not in names}
        try:
            base = build_schema(sd["cls"], rest)
        except Unreachable:
            continue
        gargs = _decl_args(group, props)
        r1 = _call(base, method, args)
        B = _call(r1[1], group, gargs) if r1[0] == "ok" else r1
        desc = f"base={base!r}: {group}{tuple(gargs)!r} then {method}{tuple(args)!r} -> {A}; other order -> {B}"
        if A[0] != B[0]:
            return True, "orders disagree on acceptance: " + desc
        if A[0] == "ok" and not (A[1] == B[1] and repr(A[1]) == repr(B[1])):
            return True, "orders yield different schemas: " + desc
    return False, "no order dependence found around this call"


def _eval_chain(src: str):
    """('ok', schema) | ('rejected', None) | ('other', exception) for a DSL call chain given as text"""
    import threading, collections
    env = {"schema": schema, "optional": optional, "Nil": Nil, "OrderedDict": collections.OrderedDict,
           "defaultdict": collections.defaultdict, "list": list, "dict": dict, "__builtins__": {}}
    try:
        return "ok", eval(src, env)
    except DeclarationError:
        return "rejected", None
    except Exception as e:
        return "other", e


def oracle_chain(inp, meta=None):
    """C10 / C11 on call chains written as text: base + refinements in every order.  Each order either yields a schema
    or is rejected with DeclarationError (never anything else), all orders agree, and equal schemas result."""
    import itertools as _it
    base = inp["base"]["src"]
    refs = [r["src"] for r in inp["refs"]]
    outcomes = []
    for perm in _it.permutations(refs):
        src = base + "".join(perm)
        st, r = _eval_chain(src)
        if st == "other":
            return True, f"{src} raised {r!r} (neither a schema nor a DeclarationError)"
        if st == "ok" and not isinstance(r, Schema):
            return True, f"{src} returned {r!r}"
        outcomes.append((src, st, r))
    if (meta or {}).get("orders", True) and len(outcomes) > 1:
        kinds = {st for _, st, _ in outcomes}
        if len(kinds) > 1:
            a = [o for o in outcomes if o[1] == "ok"][0][0]
            b = [o for o in outcomes if o[1] == "rejected"][0][0]
            return True, f"orders disagree on acceptance: {a} succeeds, {b} is rejected"
        if kinds == {"ok"}:
            first = outcomes[0]
            for o in outcomes[1:]:
                if not (o[2] == first[2] and repr(o[2]) == repr(first[2])):
                    return True, f"orders yield different schemas: {first[0]} -> {first[2]!r}; {o[0]} -> {o[2]!r}"
    return False, f"{len(outcomes)} orders of {base} + {refs} agree"


def oracle_C11(inp, meta=None):
    if "base" in inp:
        return oracle_chain(inp, meta)
    if "m1" not in (meta or {}):
        return oracle_C11_fn(inp, meta or {})
    S = build(inp["self"])
    m1, m2 = meta["m1"], meta["m2"]
    a, b = _args(inp, "a", meta["a"]), _args(inp, "b", meta["b"])
    r1 = _call(S, m1, a)
    A = _call(r1[1], m2, b) if r1[0] == "ok" else r1
    r2 = _call(S, m2, b)
    B = _call(r2[1], m1, a) if r2[0] == "ok" else r2
    desc = f"S={S!r}; {m1}{tuple(a)!r} then {m2}{tuple(b)!r} -> {A}; other order -> {B}"
    if A[0] != B[0]:
        return True, "orders disagree on acceptance: " + desc
    if A[0] == "ok" and not (A[1] == B[1] and repr(A[1]) == repr(B[1])):
        return True, "orders yield different schemas: " + desc
    return False, desc


def oracle_C10(inp, meta=None):
    """function-level: self.<method>(*args) either raises DeclarationError leaving self unchanged or
    returns a schema whose fixed value conforms to it."""
    if "base" in inp:
        return oracle_chain(inp, dict(meta or {}, orders=False))
    S = build(inp["self"])
    method = meta["method"]
    args = [build(inp[n]) for n in meta["params"]]
    if meta["params"] and meta["params"][-1] == "max" and args[-1] is Nil:
        args = args[:-1]
    before = repr(S)
    r = _call(S, method, args)
    if repr(S) != before:
        return True, f"receiver changed: {before} -> {S!r}"
    if r[0] == "raise":
        if r[1] != "DeclarationError":
            return True, f"{before}.{method}{tuple(args)!r} raised {r[1]}"
        return False, "rejected cleanly"
    R = r[1]
    target = {"__call__": ["value"], "min": ["min"], "max": ["max"], "precision": ["precision"],
              "len": ["len", "min_len", "max_len"], "alphabet": ["alphabet"], "contains": ["substr"],
              "regex": ["pattern"]}.get(method, [])
    for t in target:
        if S.props.get(t) is not Nil:
            return True, f"re-declaration accepted: {before}.{method}{tuple(args)!r} -> {R!r}"
    v = getattr(R.props, "value", Nil)
    if v is not Nil and not conforms(R, v):
        return True, f"{before}.{method}{tuple(args)!r} -> {R!r} whose fixed value {v!r} does not conform to it"
    if v is not Nil and validate(R, v).has_errors():
        return True, f"{R!r} rejects its own fixed value {v!r}"
    return False, f"{before}.{method}{tuple(args)!r} -> {R!r} is self-consistent"


def _generators():
    """the real generator under several seeds, plus two scripted RNGs that always take the extreme
    outcome of every draw (C01: `for every outcome of the random draws`)"""
    import random as _r
    from d42.generation import Generator, Random, RegexGenerator

    class Extreme(Random):
        def __init__(self, hi: bool) -> None:
            self.hi = hi

        def random_int(self, start, end):
            if start > end:
                raise ValueError("empty range for randint")
            return end if self.hi else start

        def random_float(self, start, end, precision=Nil):
            if precision is Nil:
                if start > end:
                    raise ValueError("random_float: start must be <= end")
                return end if self.hi else start
            return super().random_float(start, end, precision)

        def random_choice(self, sequence):
            return sequence[-1] if self.hi else sequence[0]

        def random_str(self, length, alphabet):
            return "".join(self.random_choice(alphabet) for _ in range(length))

    class Pick(Extreme):
        """every choice takes element k of the sequence (modulo its length): with k over 0..127 every single member of
        every alphabet / alternative list of up to 128 items is drawn at least once"""
        def __init__(self, k: int) -> None:
            self.hi = False
            self.k = k

        def random_choice(self, sequence):
            return sequence[self.k % len(sequence)]

    gens = []
    for hi in (False, True):
        rnd = Extreme(hi)
        gens.append((f"extreme-{'max' if hi else 'min'}", Generator(rnd, RegexGenerator(rnd)), None))
    for k in range(1, 128):
        rnd = Pick(k)
        gens.append((f"choice-{k}", Generator(rnd, RegexGenerator(rnd)), None))
    for seed in range(12):
        rnd = Random()
        gens.append((f"seed-{seed}", Generator(rnd, RegexGenerator(rnd)), seed))
    return gens


def oracle_C01(inp, meta=None):
    S = build(inp["schema"])
    w = build(inp["w_sat"]) if "w_sat" in inp else None
    sat = (w is not None and conforms(S, w))
    if not sat:
        # look for any conforming value among a few obvious candidates
        fixed = getattr(getattr(S, "props", None), "value", Nil)
        for cand in ([fixed] if fixed is not Nil else []) + [None, True, 0, 1, 0.0, 1.0, "", "a", b"", [], {}, math.inf, -math.inf]:
            try:
                if conforms(S, cand):
                    sat = True
                    w = cand
                    break
            except Exception:
                pass
    if not sat:
        raise Unreachable("no conforming value known for the model's schema (satisfiability not established)")
    import random as _r
    for name, gen, seed in _generators():
        if seed is not None:
            _r.seed(seed)
        try:
            v = S.__accept__(gen)
        except Exception as e:
            return True, f"fake({S!r}) raised {e!r} [{name}] although {w!r} conforms"
        if validate(S, v).has_errors() or not conforms(S, v):
            return True, f"fake({S!r}) = {v!r} [{name}] does not validate: {validate(S, v).get_errors()}"
    return False, f"fake({S!r}) validates for all tried RNG outcomes"


def has_placeholder(v) -> bool:
    if v is ...:
        return True
    if isinstance(v, list):
        return any(has_placeholder(x) for x in v)
    if isinstance(v, dict):
        return any(has_placeholder(x) for x in v.values()) or any(k is ... for k in v)
    return False


def pinned(x, w) -> bool:
    """w carries the substituted data x at the substituted positions (C04)"""
    if isinstance(x, dict):
        return isinstance(w, dict) and all(k in w and pinned(x[k], w[k]) for k in x)
    if isinstance(x, list):
        return isinstance(w, list) and len(w) == len(x) and all(pinned(a, b) for a, b in zip(x, w))
    if isinstance(x, float) and isinstance(w, float):
        return x == w or math.isclose(x, w) or (x != x and w != w)
    try:
        return bool(x == w)
    except Exception:
        return False


def _substitute(S, v):
    from d42.substitution.errors import SubstitutionError
    try:
        return "ok", substitute(S, v)
    except SubstitutionError:
        return "sub-error", None
    except Exception as e:
        return "other-error", e


def _samples(R):
    import random as _r
    out = []
    for name, gen, seed in _generators():
        if seed is not None:
            _r.seed(seed)
        try:
            out.append((name, R.__accept__(gen)))
        except Exception as e:
            out.append((name, e))
    return out


def oracle_C04(inp, meta=None):
    S, v = build(inp["schema"]), build(inp["value"])
    if has_placeholder(v):
        raise Unreachable("value contains a ... placeholder (outside the property's domain)")
    st, R = _substitute(S, v)
    if st != "ok":
        return False, f"S % v does not succeed ({st})"
    if conforms(S, v) and (validate(R, v).has_errors() or not conforms(R, v)):
        return True, f"v conforms to S but S % v = {R!r} rejects v={v!r}: {validate(R, v).get_errors()}"
    ws = [build(inp["w"])] if "w" in inp else []
    for w in ws + [v]:
        if not validate(R, w).has_errors() and not pinned(v, w):
            return True, f"S % v = {R!r} accepts {w!r}, which does not carry v={v!r}"
    for name, g in _samples(R):
        if isinstance(g, Exception):
            return True, f"fake(S % v) raised {g!r} [{name}]; S={S!r} v={v!r} R={R!r}"
        if not pinned(v, g):
            return True, f"fake(S % v) = {g!r} [{name}] does not carry v={v!r}; R={R!r}"
    return False, f"S % v = {R!r} pins v"


def perturbations(v, depth: int = 3):
    """one-step perturbations of a plain value at every depth: an element / key added, dropped, duplicated or replaced by
    a value of another kind"""
    other = [None, "x", 0, True, 1.5, [], {}, b"b"]
    if depth <= 0:
        return
    if isinstance(v, list):
        for o in other:
            yield v + [o]
            yield [o] + v
        if v:
            yield v[:-1]
            yield v[1:]
            yield v + [v[-1]]
        for i, x in enumerate(v):
            for o in other[:4]:
                if type(o) is not type(x):
                    yield v[:i] + [o] + v[i + 1:]
            for y in perturbations(x, depth - 1):
                yield v[:i] + [y] + v[i + 1:]
    elif isinstance(v, dict):
        yield {**v, "__extra__": 0}
        for k in list(v):
            h = dict(v)
            del h[k]
            yield h
            for o in other[:4]:
                if type(o) is not type(v[k]):
                    yield {**v, k: o}
            for y in perturbations(v[k], depth - 1):
                yield {**v, k: y}
    else:
        for o in other:
            if type(o) is not type(v):
                yield o


def oracle_C05(inp, meta=None):
    S, v = build(inp["schema"]), build(inp["value"])
    if has_placeholder(v):
        raise Unreachable("value contains a ... placeholder")
    st, R = _substitute(S, v)
    if st != "ok":
        return False, f"S % v does not succeed ({st})"
    ws = ([build(inp["w"])] if "w" in inp else []) + [v] + [g for _, g in _samples(R) if not isinstance(g, Exception)]
    import itertools as _it
    ws += list(_it.islice(perturbations(v), 400))
    for w in ws:
        if not validate(R, w).has_errors() and validate(S, w).has_errors():
            return True, f"S % v = {R!r} accepts {w!r} but S = {S!r} rejects it: {validate(S, w).get_errors()}"
    return False, f"S % v = {R!r} only narrows S = {S!r}"


def oracle_C12(inp, meta=None):
    S, v = build(inp["schema"]), build(inp["value"])
    st, R = _substitute(S, v)
    if st == "other-error":
        return True, f"substitute({_sr(S)}, {_sr(v)}) raised {R!r} (not SubstitutionError)"
    if st != "ok":
        return False, "SubstitutionError"
    try:
        repr(R)
        validate(R, v)
    except Exception as e:
        return True, f"substitute({S!r}, {v!r}) returned a schema that cannot be used: validating / printing it raises {e!r}"
    sm = _samples(R)
    if all(isinstance(g, Exception) or validate(R, g).has_errors() for _, g in sm):
        return True, f"S % v = {R!r} cannot be generated from / accepts nothing it generates: {sm[0][1]!r}"
    if not has_placeholder(v):
        st2, R2 = _substitute(R, v)
        if st2 != "ok":
            return True, f"substituting v again into S % v = {R!r} fails ({st2}: {R2!r})"
        if not (R2 == R and repr(R2) == repr(R)):
            return True, f"(S % v) % v = {R2!r} differs from S % v = {R!r}"
    return False, f"S % v = {R!r} is usable and idempotent"


def denotes_native(x, w) -> bool:
    """C14: w is the same plain value as x (bool/int identification and float tolerance aside)"""
    if x is None:
        return w is None
    if isinstance(x, bool):
        return isinstance(w, bool) and w == x
    if isinstance(x, int):
        return isinstance(w, int) and w == x
    if isinstance(x, float):
        return isinstance(w, float) and math.isclose(w, x)
    if isinstance(x, str):
        return isinstance(w, str) and w == x
    if isinstance(x, list):
        return isinstance(w, list) and len(w) == len(x) and all(denotes_native(a, b) for a, b in zip(x, w))
    if isinstance(x, dict):
        return isinstance(w, dict) and set(w) == set(x) and all(denotes_native(x[k], w[k]) for k in x)
    if isinstance(x, bytes):
        return isinstance(w, bytes) and w == x
    if isinstance(x, _uuid.UUID):
        return isinstance(w, _uuid.UUID) and w.version == 4 and w == x
    if isinstance(x, _dt.datetime):
        return isinstance(w, _dt.datetime) and w == x
    if isinstance(x, _dt.date):
        return isinstance(w, _dt.date) and w == x
    return False


def is_plain(x) -> bool:
    if x is None or isinstance(x, (bool, int, float, str, bytes, _dt.date)):
        return True
    if isinstance(x, _uuid.UUID):
        return x.version == 4
    if isinstance(x, list):
        return all(is_plain(i) for i in x)
    if isinstance(x, dict):
        return all((k is not ...) and not isinstance(k, optional) and is_plain(v) for k, v in x.items())
    return False


def has_special_keys(x) -> bool:
    if isinstance(x, list):
        return any(has_special_keys(i) for i in x)
    if isinstance(x, dict):
        return any(k is ... or isinstance(k, optional) or has_special_keys(v) for k, v in x.items())
    return False


def oracle_C14(inp, meta=None):
    from d42.utils import from_native
    x = build(inp["value"])
    try:
        R = from_native(x)
    except ValueError:
        if is_plain(x):
            return True, f"from_native({x!r}) refused a plain value"
        return False, "refused with ValueError"
    except Exception as e:
        if is_plain(x):
            return True, f"from_native({x!r}) raised {e!r}"
        if has_special_keys(x):
            return False, f"outside the plain-value domain (`...` / optional dict keys): {e!r}"
        return True, f"from_native({x!r}) refused with {e!r} instead of ValueError"
    if not is_plain(x):
        if isinstance(x, (tuple, set, frozenset, bytearray, complex)) or type(x).__name__ in ("Opaque", "Decimal", "Fraction"):
            return True, f"from_native({x!r}) accepted a non-plain kind: {R!r}"
        return False, "outside the plain-value domain"
    if validate(R, x).has_errors():
        return True, f"from_native({x!r}) = {R!r} rejects the value itself: {validate(R, x).get_errors()}"
    for name, g in _samples(R):
        if isinstance(g, Exception) or not denotes_native(x, g):
            return True, f"fake(from_native({x!r})) gave {g!r} [{name}]"
    if "w" in inp:
        w = build(inp["w"])
        if (not validate(R, w).has_errors()) != denotes_native(x, w):
            return True, f"from_native({x!r}) accepts {w!r}: {not validate(R, w).has_errors()}, expected {denotes_native(x, w)}"
    return False, f"from_native({x!r}) = {R!r} denotes the value"


def _probe_values(schemas):
    """values to compare verdicts on: generated from each schema, plus one-step perturbations"""
    vals = [None, 0, "x", [], {}]
    for S_ in schemas:
        for _, g in _samples(S_)[:6]:
            if isinstance(g, Exception):
                continue
            vals.append(g)
            if isinstance(g, dict):
                for k in list(g):
                    h = dict(g)
                    del h[k]
                    vals.append(h)
                vals.append({**g, "__extra__": 1})
    return vals


def oracle_C13(inp, meta=None):
    from d42.utils import make_required
    kind = (meta or {}).get("kind")
    if "keys" in inp and "schema" in inp:                      # make_required
        d, ks = build(inp["schema"]), build(inp["keys"])
        if not isinstance(d, DictSchema):
            return False, "not a dict schema"
        try:
            R = make_required(d, ks)
        except DeclarationError:
            return False, "rejected"
        except Exception as e:
            return True, f"make_required raised {e!r}"
        listed = list(d.keys()) if ks is None else list(ks)
        listed = [k for k in listed if k is not ...]
        for v in _probe_values([d, R]) + ([build(inp["value"])] if "value" in inp else []):
            want = conforms(d, v) and isinstance(v, dict) and all(k in v for k in listed)
            got = not validate(R, v).has_errors()
            if got != want:
                return True, f"make_required({d!r}, {ks!r}) = {R!r}: value {v!r} accepted={got}, expected {want}"
        # ... whatever was done with the same operand before: a second call with other keys, on the same object, must mean
        # what it means on a freshly declared equal schema
        import copy as _copy
        keys_all = [k for k in d.keys() if k is not ...]
        for first in ([], keys_all[:1], keys_all[-1:], keys_all):
            d1 = eval(repr(d), {"schema": schema, "optional": optional}) if "<" not in repr(d) else None
            if d1 is None:
                break
            try:
                make_required(d1, first)
            except DeclarationError:
                continue
            for second in ([], keys_all[-1:], keys_all[:1]):
                fresh = eval(repr(d), {"schema": schema, "optional": optional})
                try:
                    R1, R2 = make_required(d1, second), make_required(fresh, second)
                except DeclarationError:
                    continue
                for v in _probe_values([d, R2])[:40]:
                    a_, b_ = not validate(R1, v).has_errors(), not validate(R2, v).has_errors()
                    if a_ != b_:
                        return True, (f"make_required(d, {second!r}) after make_required(d, {first!r}) on the same operand d = {d!r}: value "
                                      f"{v!r} accepted={a_}, on a freshly declared d: {b_}")
        return False, "make_required means what it says"
    if "self" in inp and "other" in inp:
        a, b = build(inp["self"]), build(inp["other"])
        if isinstance(a, DictSchema) and isinstance(b, DictSchema) and (kind in (None, "add") or "DictSchema.__add__" in str(meta)):
            try:
                R = a + b
            except Exception as e:
                return True, f"{a!r} + {b!r} raised {e!r}"
            ka = dict(a.props.keys) if a.props.keys is not Nil else {}
            kb = dict(b.props.keys) if b.props.keys is not Nil else {}
            want_keys = {**ka, **kb}
            if dict(R.props.keys) != want_keys:
                return True, f"{a!r} + {b!r} = {R!r}: keys differ from d1's overridden/extended by d2's"
            E = DictSchema(type(a.props)().update(keys=want_keys))
            for v in _probe_values([a, b, R]):
                if validate(R, v).has_errors() != (not conforms(E, v)):
                    return True, f"{a!r} + {b!r}: value {v!r} verdict differs from the merged key table"
            return False, "d1 + d2 is the right-biased merge"
        if isinstance(a, Schema):
            try:
                R = a | b
            except DeclarationError:
                return isinstance(b, Schema), "union rejected"
            except Exception as e:
                return True, f"{a!r} | {b!r} raised {e!r}"
            for v in _probe_values([a, b, R]):
                if (not validate(R, v).has_errors()) != (conforms(a, v) or conforms(b, v)):
                    return True, f"({a!r} | {b!r}) on {v!r}: accepted={not validate(R, v).has_errors()}"
            return False, "a | b accepts the union"
    raise Unreachable("no C13 oracle for these inputs")


def oracle_C15(inp, meta=None):
    law = (meta or {}).get("law")
    if "A" in inp:
        A, B, C = build(inp["A"]), build(inp["B"]), build(inp["C"])
        if law == "reflexive" or law is None:
            if not (A == A) or (A != A):
                return True, f"{A!r} is not equal to itself"
        if law == "symmetric" or law is None:
            if (A == B) != (B == A):
                return True, f"A == B is {A == B} but B == A is {B == A}; A={A!r} B={B!r}"
        if law == "transitive" or law is None:
            if (A == B) and (B == C) and not (A == C):
                return True, f"A == B and B == C but A != C; A={A!r} B={B!r} C={C!r}"
        return False, "law holds on these schemas"
    if "self" in inp and "other" in inp:
        P, Q = build(inp["self"]), build(inp["other"])
        if type(P) is type(Q):
            if (P == Q) != (Q == P):
                return True, f"{P!r} == {Q!r} is {P == Q} but the reverse is {Q == P}"
            if not (P == P):
                return True, f"{P!r} is not equal to itself"
        return False, "== on these props is symmetric"
    if "schema" in inp and "value" in inp:
        S_, v = build(inp["schema"]), build(inp["value"])
        if isinstance(v, Schema):
            if (S_ == v) != (v == S_):
                return True, f"({S_!r} == {v!r}) is {S_ == v} but the reverse is {v == S_}"
            if (S_ != v) == (S_ == v):
                return True, f"!= is not the negation of == for {S_!r}, {v!r}"
            if S_ == v:
                for w in [None, 0, 1, "a", [], {}, [1], {"a": 1}, 1.5, b"", True]:
                    if validate(S_, w).has_errors() != validate(v, w).has_errors():
                        return True, f"{S_!r} == {v!r} although they give different verdicts on {w!r}"
            return False, "schema operands compare consistently"
        got = (S_ == v)
        want = not validate(S_, v).has_errors()
        if got != want or (S_ != v) == got:
            return True, f"({S_!r} == {v!r}) is {got}, validates: {want}, != gives {S_ != v}"
        return False, "== means validates"
    raise Unreachable("no C15 oracle for these inputs")


def _mutate(x):
    """mutate a list / dict in place the way a caller might after handing it to d42"""
    if isinstance(x, list):
        x.append(schema.none)
        if len(x) > 1:
            x.pop(0)
        return True
    if isinstance(x, dict):
        x["__later__"] = schema.none
        return True
    return False


def oracle_C07(inp, meta=None):
    """a declaration call: the receiver is unchanged, and mutating a list/dict argument afterwards does not
    change the schema that was built from it"""
    meta = meta or {}
    if "self" in inp and "method" in meta:
        S_ = build(inp["self"])
        args = [build(inp[n]) for n in meta["params"]]
        if meta["params"] and meta["params"][-1] == "max" and args[-1] is Nil:
            args = args[:-1]
        before = repr(S_)
        r = _call(S_, meta["method"], args)
        if repr(S_) != before:
            return True, f"receiver changed: {before} -> {S_!r}"
        if r[0] != "ok":
            return False, "rejected"
        R = r[1]
        text = repr(R)
        changed = [a for a in args if _mutate(a)]
        if changed and repr(R) != text:
            return True, (f"{before}.{meta['method']}(<list/dict>) then mutating the argument changes the schema: "
                          f"{text} -> {R!r}")
        return False, "argument mutation does not reach the schema"
    if "schema" in inp and inp["schema"].get("k") == "expr" and "keys" not in inp:
        from replay.complement import ownership_case
        return ownership_case(inp["schema"]["src"])
    if "schema" in inp and "keys" in inp:
        from d42.utils import make_required
        d, ks = build(inp["schema"]), build(inp["keys"])
        cands = [d] if isinstance(d, DictSchema) else []
        cands += [schema.dict({"id": schema.int, optional("name"): schema.str}),
                  schema.dict({optional("a"): schema.int, optional("b"): schema.int, ...: ...})]
        for dd in cands:
            for kk in ([ks] if dd is d else []) + [None, [k for k in dd.keys() if k is not ...][:1]]:
                before = repr(dd)
                kcopy = repr(kk)
                try:
                    make_required(dd, kk)
                except DeclarationError:
                    pass
                except Exception as e:
                    return True, f"make_required({before}, {kk!r}) raised {e!r}"
                if repr(dd) != before:
                    return True, f"make_required({before}, {kk!r}) changed its argument schema into {dd!r}"
                if repr(kk) != kcopy:
                    return True, f"make_required mutated its keys argument: {kcopy} -> {kk!r}"
        return False, "make_required leaves its arguments alone"
    raise Unreachable("no C07 oracle for these inputs")


def oracle_C06(inp, meta=None):
    from d42.representation import represent
    from uuid import UUID                      # names the printed text may use
    from datetime import datetime, date        # noqa: F401
    import datetime as datetime_mod            # noqa: F401
    if "history" in inp:
        # the printed form is a function of the declaration: reusing the list / dict it was declared from must not change it
        kind = inp["history"].get("v")
        if kind == "list":
            arg = [schema.int, schema.str]
            S0 = schema.list(arg).len(2)
            t0 = repr(S0)
            arg.append(schema.none)
            arg.insert(0, ...)
        else:
            arg = {"a": schema.int, optional("b"): schema.str}
            S0 = schema.dict(arg)
            t0 = repr(S0)
            arg["c"] = schema.none
            del arg["a"]
        try:
            t1 = repr(S0)
        except Exception as e:
            return True, f"after the {kind} a schema was declared from is reused, printing the schema raises {e!r} (it printed {t0!r} before)"
        if t1 != t0:
            return True, f"the printed form of a schema changes when the {kind} it was declared from is reused: {t0!r} -> {t1!r}"
        return False, "the printed form does not depend on later changes of the declaration's argument"
    S_ = build(inp["schema"])
    text = repr(S_)
    if text != represent(S_) or text != repr(S_):
        return True, "repr is not deterministic / differs from represent()"
    env = {"schema": schema, "optional": optional, "UUID": UUID, "datetime": _dt, "date": _dt.date}
    try:
        R = eval(text, {"__builtins__": {}}, env)
    except Exception as e:
        try:
            R = eval(text, {"__builtins__": {}}, {**env, "datetime": _dt.datetime})
        except Exception as e2:
            return True, f"repr {text!r} does not evaluate: {e2!r}"
    if not (R == S_) or repr(R) != text:
        return True, f"repr {text!r} rebuilds {R!r} with props {R.props!r}, original props {S_.props!r}"
    return False, f"{text} round-trips"


NOISE = (
    "def noise():\n"
    "    # other public operations in the same process: generators / validators with their own configuration, used once\n"
    "    from d42 import validate, substitute, fake as _f\n"
    "    from d42.generation import Generator, RegexGenerator, Random as _R\n"
    "    from d42.validation import Validator\n"
    "    rg = RegexGenerator(_R(), alphabet={'digits': '01', 'word': 'xyz', 'letters': 'ab'}, max_repeat=4)\n"
    "    g = Generator(_R(), rg)\n"
    "    schema.str.regex(r'\\d\\w.').__accept__(g)\n"
    "    schema.list(schema.int).__accept__(g)\n"
    "    validate(schema.dict({'a': schema.int}), {'a': 'x'})\n"
    "    substitute(schema.dict({'a': schema.int, 'b': schema.str}), {'a': 1})\n"
    "    repr(schema.list([schema.int, ...]))\n"
    "    _f(schema.str.regex('[^a]x'))\n"
)


def _fake_in_subprocess(exprs, hashseed, noise=False):
    """repr(fake(S)) for each DSL expression, after Random().set_seed(k), in a fresh interpreter"""
    import subprocess
    code = (
        "import sys, json; sys.path.insert(0, %r)\n"
        "from uuid import UUID; import datetime\n"
        "from d42 import schema, optional, fake\n"
        "from d42.utils import make_required\n"
        "from d42.generation import Random\n"
        "import enum\n"
        "class RunId(str): pass\n"
        "class Stage(str, enum.Enum):\n"
        "    DEV = 'dev'\n"
        "class Level(enum.IntEnum):\n"
        "    LOW = 3\n"
        + (NOISE if noise else "def noise(): pass\n") +
        "out = []\n"
        "for k in (0, 42, 'seed', b'bytes', 2.5, True, 2**70, RunId('run-7'), Stage.DEV, Level.LOW, bytearray(b'ba')):\n"
        "    noise()\n"
        "    Random().set_seed(k)\n"
        "    row = []\n"
        "    for e in %r:\n"
        "        try:\n"
        "            row.append(repr(fake(eval(e))))\n"
        "        except Exception as x:\n"
        "            row.append('EXC ' + type(x).__name__)\n"
        "    out.append(row)\n"
        "print(json.dumps(out))\n") % (os.environ.get("PYVC_REPO", "/repo"), list(exprs))
    env = dict(os.environ)
    env["PYTHONHASHSEED"] = str(hashseed)
    p = subprocess.run([sys.executable, "-c", code], capture_output=True, text=True, env=env, timeout=120)
    return json.loads(p.stdout.strip().splitlines()[-1]) if p.stdout.strip() else [["NO OUTPUT " + p.stderr[-200:]]]


C17_ZOO = ["schema.int.min(0).max(10)", "schema.str.len(8)", "schema.str.alphabet('hello world').len(12)",
           "schema.str.alphabet('xxyyzz').len(6)", "schema.str.regex('[a-f]{3}-[0-9]+')", "schema.float.precision(2)",
           "schema.list(schema.bool).len(5)", "schema.dict({'a': schema.int, 'b': schema.str.contains('q')})",
           "schema.any(schema.int, schema.str, schema.none)", "schema.bytes",
           "schema.str.regex(r'\\d{4}-\\w{3}.x')", "schema.list(schema.str.regex(r'id-\\w\\d'))",
           # schemas built through the combinators (key / alternative order must not depend on the hash seed)
           "schema.dict({'id': schema.int, 'name': schema.str.len(3)}) + schema.dict({'tag': schema.str.len(2), 'n': schema.int})",
           "schema.list(schema.dict({'a': schema.int}) + schema.dict({'b': schema.int, 'c': schema.int})).len(2)",
           "schema.int | schema.str.len(4) | schema.none", "schema.int.min(0).max(99)",
           "make_required(schema.dict({optional('name'): schema.str.len(5), optional('age'): schema.int, optional('tag'): schema.str.len(2)}))",
           "make_required(schema.dict({optional('name'): schema.str.len(5), optional('age'): schema.int, 'id': schema.int}), {'name', 'age'})",
           # schemas built by substitution (untouched / substituted keys, elements and alternatives keep their order)
           "schema.dict({'id': schema.int, 'name': schema.str.len(5), 'tag': schema.str.len(3), 'age': schema.int.min(0).max(99)}) % {'id': 7}",
           "schema.dict({'id': schema.int, optional('name'): schema.str.len(5), optional('tag'): schema.str.len(3), 'zip': schema.str.len(4)}) % {'zip': 'abcd', 'id': 1}",
           "schema.dict({'a': schema.str.len(2), 'b': schema.str.len(3), 'c': schema.str.len(1), ...: ...}) % {'b': 'xyz'}",
           "schema.dict % {'name': 'n', 'tag': 't', 'age': 3}",
           "schema.list([schema.int, schema.dict({'p': schema.str.len(1), 'q': schema.str.len(2), 'r': schema.int})]) % [1, {'r': 2}]",
           "schema.list(schema.dict({'k': schema.str.len(2), 'v': schema.str.len(3), 'w': schema.int})) % [{'k': 'ab'}, {'w': 1}]",
           "schema.any(schema.dict({'a': schema.str.len(2), 'b': schema.str.len(2), 'c': schema.int}), schema.dict({'a': schema.int, 'd': schema.str.len(1), 'e': schema.str.len(2)})) % {'a': ...}",
           "schema.dict({'u': schema.dict({'p': schema.str.len(1), 'q': schema.str.len(2), 'r': schema.str.len(3)})}) % {'u': {'q': 'zz'}}"]


def oracle_C17(inp, meta=None):
    exprs = list((meta or {}).get("exprs") or C17_ZOO)
    if "schema" in inp:
        try:
            S_ = build(inp["schema"])
            if "UUID4Schema" not in repr(type(S_)) and "uuid4" not in repr(S_) and "datetime" not in repr(S_) and "date" not in repr(S_):
                exprs.insert(0, repr(S_))
        except Unreachable:
            pass
    runs = {hs: _fake_in_subprocess(exprs, hs) for hs in (0, 1, 2)}
    base = runs[0]
    for hs in (1, 2):
        if runs[hs] != base:
            for si, (ra, rb) in enumerate(zip(base, runs[hs])):
                for e, a, b in zip(exprs, ra, rb):
                    if a != b:
                        return True, f"seeded fake({e}) differs between PYTHONHASHSEED=0 and {hs}: {a} vs {b}"
            return True, "outputs differ between interpreters"
    again = _fake_in_subprocess(exprs, 0)
    if again != base:
        return True, "outputs differ between two runs with the same hash seed"
    noisy = _fake_in_subprocess(exprs, 0, noise=True)
    if noisy != base:
        for ra, rb in zip(base, noisy):
            for e, a, b in zip(exprs, ra, rb):
                if a != b:
                    return True, (f"seeded fake({e}) depends on what ran before in the same process (a user-built "
                                  f"RegexGenerator(alphabet=...) / Generator / validate / substitute / repr): {a} vs {b}")
        return True, "outputs depend on unrelated earlier operations in the same process"
    return False, "seeded generation is reproducible for these schemas"


_custom_cache = {}


def make_custom(inner):
    """a user-defined CustomSchema that forwards its four hooks to `inner` (the C16 assumption)"""
    from d42.custom_type import CustomSchema, Props

    class FwdProps(Props):
        pass

    class Forwarding(CustomSchema[FwdProps]):
        _inner = inner

        def __represent__(self, visitor, *, indent: int = 0, **kwargs):
            return self._inner.__accept__(visitor, indent=indent, **kwargs)

        def __generate__(self, visitor, **kwargs):
            return self._inner.__accept__(visitor, **kwargs)

        def __validate__(self, visitor, *, value=Nil, path=Nil, **kwargs):
            return self._inner.__accept__(visitor, value=value, path=path, **kwargs)

        def __substitute__(self, visitor, *, value=Nil, **kwargs):
            return self._inner.__accept__(visitor, value=value, **kwargs)

    return Forwarding()


def oracle_C16(inp, meta=None):
    """`T[custom(inner)]` is indistinguishable from `T[inner]` for a few embeddings T"""
    from d42.substitution.errors import SubstitutionError
    inners = []
    for key in ("self", "schema"):
        if key in inp and inp[key].get("k") == "custom":
            try:
                inners.append(build(inp[key]["inner"]))
            except Unreachable:
                pass
    inners += [schema.int.min(0), schema.dict({"x": schema.int, optional("y"): schema.str}),
               schema.list([schema.int, schema.str]), schema.any(schema.none, schema.str.len(2))]
    embeds = [("top", lambda s: s), ("dict value", lambda s: schema.dict({"k": s})),
              ("list element", lambda s: schema.list([s, schema.int])), ("typed list", lambda s: schema.list(s)),
              ("nested", lambda s: schema.dict({"a": schema.list([schema.dict({"b": s})])})),
              ("any alternative", lambda s: schema.any(schema.bytes, s))]
    for inner in inners:
        cust = make_custom(inner)
        for ename, E in embeds:
            if ename == "any alternative" and isinstance(inner, AnySchema) and inner.props.types is not Nil \
                    and not (meta or {}).get("with_union_alternative"):
                # listed known finding C16-union-alternative-not-flattened (replayed from its own witness): a declared union
                # placed as an alternative is flattened, the same union behind a custom type is not
                continue
            A, B = E(inner), E(cust)
            if repr(A) != repr(B):
                return True, f"printed form differs ({ename}): {A!r} vs {B!r}"
            import threading
            token = type("Token", (), {})()
            vals = [g for _, g in _samples(A)[:4] if not isinstance(g, Exception)] + \
                [None, {"k": 1}, [1], {"a": [{"b": None}]}, token, {"k": token}, [token], threading.Lock(), {"k": threading.Lock()},
                 0, "", False, [], {}, {"k": 0}, {"k": ""}, [0], [""]]
            for v in vals:
                def errs(S_):
                    try:
                        return [(type(e).__name__, repr(e.path), id(e.actual_value)) for e in validate(S_, v).get_errors()]
                    except Exception as x:
                        return ["RAISED " + type(x).__name__]
                ea, eb = errs(A), errs(B)
                if ea != eb:
                    return True, f"validation differs ({ename}) on {v!r}: {ea} vs {eb}"
                # ... also with a validator configured by the user (own root path, own result factory)
                from d42.validation import Validator as _V
                from th import PathHolder as _PH

                def errs2(S_):
                    try:
                        vis = _V(path_holder_factory=lambda: _PH()["body"][0])
                        return [(type(e).__name__, repr(e.path), id(e.actual_value)) for e in S_.__accept__(vis, value=v).get_errors()]
                    except Exception as x:
                        return ["RAISED " + type(x).__name__]
                ea2, eb2 = errs2(A), errs2(B)
                if ea2 != eb2:
                    return True, (f"validation with Validator(path_holder_factory=lambda: PathHolder()['body'][0]) differs ({ename}) "
                                  f"on {v!r}: {ea2} vs {eb2}")
                ra, rb = _substitute(A, v), _substitute(B, v)
                if ra[0] != rb[0] or (ra[0] == "ok" and repr(ra[1]) != repr(rb[1])):
                    return True, f"substitution differs ({ename}) on {v!r}: {ra} vs {rb}"
            for name, g in _samples(B)[:4]:
                if isinstance(g, Exception) or validate(A, g).has_errors():
                    return True, f"generation through the custom type ({ename}) gives {g!r} [{name}]"
    return False, "custom type is indistinguishable from its inner schema"


# ----------------------------------------------------------------------------------- C09 (regex generation)
SUPPORTED_OPS = {"ANY", "LITERAL", "NOT_LITERAL", "IN", "SUBPATTERN", "MAX_REPEAT", "MIN_REPEAT", "AT", "BRANCH"}


def _sre():
    if sys.version_info >= (3, 11):
        import re._constants as C
        import re._parser as P
    else:
        import sre_constants as C
        import sre_parse as P
    return C, P


def _scripted_randoms():
    """RNG schedules for C09 (`all RNG outcomes: every branch, min and max repeat count, both ends of each range`):
    strategy k takes element k (mod len) of every choice and alternates the ends of every integer draw."""
    from d42.generation import Random

    class Scripted(Random):
        def __init__(self, k: int) -> None:
            self.k = k
            self.n = 0

        def random_int(self, start, end):
            if start > end:
                raise ValueError("empty range for randint")
            self.n += 1
            mode = (self.k + (self.n if self.k >= 4 else 0)) % 4
            return [start, end, start, min(end, start + 1)][mode]

        def random_choice(self, sequence):
            if len(sequence) == 0:
                raise IndexError("Cannot choose from an empty sequence")
            return sequence[self.k % len(sequence)]

    out = [(f"scripted-{k}", Scripted(k), None) for k in range(0, 104)]
    for seed in range(8):
        out.append((f"seed-{seed}", Random(), seed))
    return out


def tree_ops(tree):
    """names of all opcodes in a parse tree (a SubPattern or list of (op, av))"""
    C, P = _sre()
    ops = []

    def walk(nodes):
        for op, av in nodes:
            ops.append(str(op))
            if op is C.IN:
                for iop, iav in av:
                    ops.append("IN:" + str(iop) + (":" + str(iav) if iop is C.CATEGORY else ""))
            elif op is C.SUBPATTERN:
                walk(av[3])
            elif op in (C.MAX_REPEAT, C.MIN_REPEAT, getattr(C, "POSSESSIVE_REPEAT", None)):
                walk(av[2])
            elif op is C.BRANCH:
                for b in av[1]:
                    walk(b)
            elif op in (C.ASSERT, C.ASSERT_NOT):
                walk(av[1])
            elif op is getattr(C, "ATOMIC_GROUP", None):
                walk(av)
            elif op is C.GROUPREF_EXISTS:
                walk(av[1])
                if av[2] is not None:
                    walk(av[2])
    walk(tree)
    return ops


def pattern_supported(pattern: str) -> bool:
    """the property's supported grammar, decided on CPython's own parse tree"""
    C, P = _sre()
    tree = P.parse(pattern)
    if tree.state.flags & ~(re.UNICODE):
        return False       # inline flags are not part of the stated grammar
    for o in tree_ops(tree):
        if o.startswith("IN:"):
            parts = o.split(":")
            if parts[1] == "CATEGORY" and parts[2] not in ("CATEGORY_DIGIT", "CATEGORY_WORD"):
                return False
            if parts[1] not in ("LITERAL", "RANGE", "CATEGORY", "NEGATE"):
                return False
        elif o not in SUPPORTED_OPS:
            return False
    # anchors only at the pattern ends (a mid-pattern anchor is neither in the supported nor in the unsupported list)
    data = list(tree)
    for i, (op, av) in enumerate(data):
        if op is C.AT and av not in (C.AT_BEGINNING, C.AT_BEGINNING_STRING, C.AT_END, C.AT_END_STRING):
            return False
        if op is C.AT and av in (C.AT_BEGINNING, C.AT_BEGINNING_STRING) and i != 0:
            return False
        if op is C.AT and av in (C.AT_END, C.AT_END_STRING) and i != len(data) - 1:
            return False
    inner = [o for o in tree_ops(tree)]
    if inner.count("AT") != sum(1 for op, _ in data if op is C.AT):
        return False       # an anchor nested inside a group / repeat / branch
    return True


def unparse_tree(nodes, names) -> str:
    """regex source for a (decoded) parse tree whose opcodes are *names*; Unreachable for shapes re would not produce"""
    out = []

    def esc(cp):
        if not isinstance(cp, int) or isinstance(cp, bool) or not (0 <= cp < 0x110000) or 0xD800 <= cp < 0xE000:
            raise Unreachable("not a code point")
        return re.escape(chr(cp))

    def item(op, av):
        if op == "LITERAL":
            return esc(av)
        if op == "RANGE":
            lo, hi = av
            if lo > hi:
                raise Unreachable("bad range")
            return esc(lo) + "-" + esc(hi)
        if op == "CATEGORY":
            m = {"CATEGORY_DIGIT": r"\d", "CATEGORY_WORD": r"\w", "CATEGORY_SPACE": r"\s", "CATEGORY_NOT_DIGIT": r"\D",
                 "CATEGORY_NOT_WORD": r"\W", "CATEGORY_NOT_SPACE": r"\S"}
            if av not in m:
                raise Unreachable("category")
            return m[av]
        raise Unreachable("class item " + str(op))

    for op, av in nodes:
        if op == "LITERAL":
            out.append(esc(av))
        elif op == "NOT_LITERAL":
            out.append("[^" + esc(av) + "]")
        elif op == "ANY":
            out.append(".")
        elif op == "AT":
            raise Unreachable("anchor position is not part of a node-level replay")
        elif op == "IN":
            items = list(av)
            neg = bool(items) and items[0][0] == "NEGATE"
            body = "".join(item(o, a) for o, a in (items[1:] if neg else items))
            if not body:
                raise Unreachable("empty class")
            out.append("[" + ("^" if neg else "") + body + "]")
        elif op == "SUBPATTERN":
            out.append("(?:" + unparse_tree(av[3], names) + ")")
        elif op in ("MAX_REPEAT", "MIN_REPEAT"):
            lo, hi, sub = av
            inner = unparse_tree(sub, names)
            q = "{%d,}" % lo if hi in ("MAXREPEAT", 4294967295) or (isinstance(hi, int) and hi >= 4294967295) else "{%d,%d}" % (lo, hi)
            out.append("(?:" + inner + ")" + q + ("?" if op == "MIN_REPEAT" else ""))
        elif op == "BRANCH":
            out.append("(?:" + "|".join(unparse_tree(b, names) for b in av[1]) + ")")
        else:
            raise Unreachable("node " + str(op))
    return "".join(out)


def _name_tree(x, names):
    """decoded counter-model tree (ints from the verifier's opcode table) -> tree of opcode *names*"""
    if isinstance(x, (list, tuple)) and len(x) == 2 and isinstance(x[0], int) and not isinstance(x[0], bool) \
            and str(x[0]) in names and isinstance(x, tuple):
        op = names[str(x[0])]
        av = x[1]
        if op in ("IN",):
            return (op, [_name_item(i, names) for i in av])
        if op == "SUBPATTERN":
            return (op, (av[0], av[1], av[2], [_name_tree(n, names) for n in av[3]]))
        if op in ("MAX_REPEAT", "MIN_REPEAT"):
            return (op, (av[0], av[1], [_name_tree(n, names) for n in av[2]]))
        if op == "BRANCH":
            return (op, (av[0], [[_name_tree(n, names) for n in b] for b in av[1]]))
        return (op, av)
    raise Unreachable("not a parse-tree node")


def _name_item(x, names):
    if isinstance(x, tuple) and len(x) == 2 and isinstance(x[0], int) and str(x[0]) in names:
        op = names[str(x[0])]
        av = x[1]
        if op == "CATEGORY":
            if not isinstance(av, int) or str(av) not in names:
                raise Unreachable("category code")
            av = names[str(av)]
        return (op, av)
    raise Unreachable("not a class item")


def check_pattern(pattern: str, want_index_error: bool = False, max_repeat=None):
    """(violated, detail) for one pattern over all scripted RNG schedules, with the default cap for open-ended
    quantifiers and with other values of that constructor parameter"""
    caps = [None] + ([max_repeat] if isinstance(max_repeat, int) and not isinstance(max_repeat, bool) and -5 <= max_repeat <= 300 else []) + [64, 3]
    for cap in caps:
        bad, detail = _check_pattern(pattern, want_index_error, cap)
        if bad:
            return bad, detail
    return False, detail


def _check_pattern(pattern: str, want_index_error: bool, cap):
    import random as _r
    from d42.generation import RegexGenerator
    try:
        re.compile(pattern)
    except re.error:
        raise Unreachable("pattern does not compile")
    supported = pattern_supported(pattern)
    for name, rnd, seed in _scripted_randoms():
        if seed is not None:
            _r.seed(seed)
        try:
            rg = RegexGenerator(rnd) if cap is None else RegexGenerator(rnd, max_repeat=cap)
            s = rg.generate(pattern)
            name = name if cap is None else f"{name}, max_repeat={cap}"
        except ValueError as e:
            if supported:
                return True, f"RegexGenerator.generate({pattern!r}) raised {e!r} [{name}] although every construct is supported"
            continue
        except IndexError as e:
            if want_index_error:
                return True, (f"RegexGenerator.generate({pattern!r}) raised {e!r} [{name}]: the negated class excludes the "
                              f"generator's whole alphabet, although e.g. {chr(0xe9)!r} matches")
            continue
        except RecursionError:
            continue
        except Exception as e:
            return True, f"RegexGenerator.generate({pattern!r}) raised {e!r} [{name}]"
        if not isinstance(s, str) or re.fullmatch(pattern, s) is None:
            return True, f"RegexGenerator.generate({pattern!r}) returned {s!r} [{name}], which does not match the pattern"
    return False, f"generate({pattern!r}) matches (or refuses) under every scripted RNG schedule"


def oracle_C09(inp, meta=None):
    meta = meta or {}
    mr = None
    if "max_repeat" in inp:
        try:
            mr = build(inp["max_repeat"])
        except Unreachable:
            mr = None
    if "pattern" in inp:
        p = build(inp["pattern"])
        if not isinstance(p, str):
            raise Unreachable("pattern is not a str")
        return check_pattern(p, bool(meta.get("expect_index_error")), mr)
    names = {str(v): k for k, v in (meta.get("sre_const") or {}).items()}
    if not names:
        raise Unreachable("no opcode table")
    fn = (meta.get("function") or "").split(".")[-1]
    v = build(inp["value"]) if "value" in inp else None
    if fn == "_generate":
        node = _name_tree((build(inp["opcode"]), v), names)
    elif fn == "_generate_pattern":
        return check_pattern(unparse_tree([_name_tree(n, names) for n in v], names), False, mr)
    elif fn == "_generate_not_in":
        node = ("IN", [("NEGATE", None)] + [_name_item(i, names) for i in v])
    elif fn == "_get_category_alphabet":
        node = ("IN", [("CATEGORY", names.get(str(v)) or "?")])
    else:
        opname = {"_generate_in": "IN", "_generate_literal": "LITERAL", "_generate_any": "ANY",
                  "_generate_not_literal": "NOT_LITERAL", "_generate_subpattern": "SUBPATTERN",
                  "_generate_branch": "BRANCH", "_generate_max_repeat": "MAX_REPEAT",
                  "_generate_min_repeat": "MIN_REPEAT"}.get(fn)
        if opname is None:
            raise Unreachable("no node-level replay for " + fn)
        code = [k for k, n in names.items() if n == opname][0]
        node = _name_tree((int(code), v), names)
    return check_pattern(unparse_tree([node], names), False, mr)


ORACLES.update({"C09": oracle_C09})
ORACLES.update({"C14": oracle_C14, "C13": oracle_C13, "C15": oracle_C15, "C16": oracle_C16,
                "C07": oracle_C07, "C06": oracle_C06, "C17": oracle_C17})
ORACLES.update({"C10": oracle_C10, "C11": oracle_C11, "C01": oracle_C01, "C04": oracle_C04,
                "C05": oracle_C05, "C12": oracle_C12})


if __name__ == "__main__":
    main()
