"""Bounded stand-ins (DESIGN 4.18/4.19): contracts on the real functions, checked at run time over an enumerated,
stated bound.  NOT proofs: evidence level `exploration`; used only where the deductive engine cannot reach the
function (dict-of-dict aliasing and str.split in rollout; Python's own parser in the import rewriter).

Runs under /venv/bin/python with PYTHONPATH=/repo (the real code, re-imported from the working tree on every run)."""
from __future__ import annotations

import hashlib
import json
import os
import sys
import time
from typing import Any, Callable, Dict, Iterable, List, Optional, Tuple

HERE = os.path.dirname(os.path.dirname(os.path.abspath(__file__)))
REPO = os.environ.get("PYVC_REPO", "/repo")
KNOWN = os.path.join(HERE, "known_findings.jsonl")
REPLAY_DIR = os.path.join(HERE, "replays")
EVID_DIR = os.environ.get("PYVC_EVIDENCE_DIR") or os.path.join(HERE, "evidence")   # (seed runs write elsewhere)


def load_known(prop: str) -> List[Dict[str, Any]]:
    out = []
    if os.path.exists(KNOWN):
        for line in open(KNOWN):
            line = line.strip()
            if line.startswith("{"):
                k = json.loads(line)
                if k.get("property") == prop and k.get("engine") == "bounded" and k.get("status") == "open":
                    out.append(k)
    return out


def write_replay(prop: str, spec: Dict[str, Any]) -> str:
    os.makedirs(REPLAY_DIR, exist_ok=True)
    blob = json.dumps(spec, sort_keys=True, default=str)
    path = os.path.join(REPLAY_DIR, f"{prop}-{hashlib.sha256(blob.encode()).hexdigest()[:12]}.json")
    with open(path, "w") as f:
        f.write(blob)
    return path


class Result:
    def __init__(self) -> None:
        self.evaluations = 0
        self.distinct: set = set()
        self.samples: List[Any] = []
        self.failures: List[Tuple[str, Dict[str, Any], str]] = []   # (contract clause, case, detail)
        self.clauses: Dict[str, int] = {}

    def ok(self, clause: str) -> None:
        self.clauses[clause] = self.clauses.get(clause, 0) + 1


def run(prop: str, tier: str, seed: int, check: Callable[[str, int, Result], None], *, rule: str, bound: str,
        functions: List[str], assumptions: List[str], signature: Callable[[Dict[str, Any]], List[str]],
        replay_one: Callable[[Dict[str, Any]], Tuple[bool, str]], exhaustive: bool) -> int:
    t0 = time.time()
    res = Result()
    check(tier, seed, res)
    known = load_known(prop)
    status = 0
    lines: List[str] = []
    # known findings: the listed witness must still fail (otherwise the entry is stale and suppresses nothing)
    active = []
    for k in known:
        bad, detail = replay_one(k["witness"])
        if bad:
            active.append(k)
            lines.append(f"KNOWN-FINDING: property={prop} {k['what']}")
    reported = set()
    nviol = 0
    for clause, case, detail in res.failures:
        sig = signature(case)
        if any(k["signature"] in sig for k in active):
            continue
        key = (clause, tuple(sorted(sig)))
        if key in reported:
            continue
        reported.add(key)
        path = write_replay(prop, {"property": prop, "engine": "bounded", "obligation": clause, "case": case,
                                   "detail": detail, "signature": sig})
        lines.append(f"VIOLATION property={prop} replay={path}")
        lines.append(f"  contract clause: {clause}: {detail[:300]}")
        nviol += 1
        status = 1
    if res.evaluations == 0 and status == 0:
        lines.append("CHECKER-ERROR zero cases evaluated")
        status = 3
    wall = time.time() - t0
    for ln in lines:
        print(ln)
    ev = {"property_id": prop, "tier": tier, "seed": seed, "level": "exploration",
          "coverage": {"evaluations": res.evaluations, "distinct_nontrivial": len(res.distinct), "rule": rule,
                       "samples": res.samples[:8], "exhaustive": exhaustive, "bound": bound,
                       "clauses_checked": res.clauses, "functions_under_contract": functions,
                       "failing_cases": len(res.failures), "known_findings_active": [k["signature"] for k in active],
                       "explanation": "BOUNDED stand-in, not a proof: run-time contracts on the real function over an "
                                      "enumerated bound (see DESIGN.md)"},
          "assumptions": assumptions, "wall_s": round(wall, 2), "violations": nviol}
    os.makedirs(EVID_DIR, exist_ok=True)
    with open(os.path.join(EVID_DIR, f"{prop}.json"), "w") as f:
        json.dump(ev, f, indent=1, default=str)
    print(f"{prop}: bounded cases={res.evaluations} distinct={len(res.distinct)} failing={len(res.failures)} "
          f"violations={nviol} known={len(active)} wall={wall:.1f}s exit={status}")
    return status
