"""C18 bounded stand-in: contract on the real d42.utils.rollout, checked over enumerated nested mappings.

contract (from the property statement):
  requires  m is a nested mapping: dict values are nested mappings (non-empty), everything else is a leaf payload;
            keys are strings that do not contain the separator (and share no character with it, see DESIGN: a key
            ending in a prefix of a multi-character separator makes the *flattening* itself ambiguous);
            optional(...) only on leaves; optionally a top-level `...: ...` entry
  ensures   inverse:   rollout(flatten(m, sep) in any key order, separator=sep) == m, the same leaf objects (is),
                       optional markers on the same leaves
  ensures   identity:  rollout(m, separator=sep) == m   (m has no separators in its keys)
"""
from __future__ import annotations

import itertools
import random
import sys
from typing import Any, Dict, List, Tuple

from . import common

LEAVES: List[Any] = [0, "x", None, [1, 2], ("t",), 1.5, True, b"b", object(), ..., "", [], "a.b"]
KEYS = ["a", "b", "c"]
ODD_KEYS = ["", " ", "é", "0", "ab", "A"]
SEPS = [".", "__", "/", "->", "..", " ", "|"]


class StrKey(str):
    """a plain subclass of str (what a `class Field(str, Enum)` member or a tagged key type is): equal to, and hashing
    like, the str it wraps"""


import enum  # noqa: E402


class EnumKey(str, enum.Enum):
    a = "a"
    b = "b"
    c = "c"


def wrap_key(key: str, kind):
    if kind == "strsub":
        return StrKey(key)
    if kind == "enum" and key in ("a", "b", "c"):
        return EnumKey(key)
    return key


def build(tree, optional, keykind=None):
    """tree: list of [key, opt, sub] with sub = int (leaf index) or tree"""
    out = {}
    for key, opt, sub in tree:
        k = wrap_key(key, keykind)
        if isinstance(sub, int):
            out[optional(k) if opt else k] = LEAVES[sub]
        else:
            out[k] = build(sub, optional, keykind)
    return out


def flatten(tree, sep: str, prefix: Tuple[str, ...] = ()) -> List[Tuple[str, bool, int]]:
    out = []
    for key, opt, sub in tree:
        if isinstance(sub, int):
            out.append((sep.join(prefix + (key,)), opt, sub))
        else:
            out += flatten(sub, sep, prefix + (key,))
    return out


def canon(m, optional, path=()):
    """sorted [(path, is_optional, id(leaf))] -- structure, optional placement and leaf identity"""
    out = []
    for k, v in m.items():
        if k is ...:
            out.append((path + ("<...>",), False, id(v)))
            continue
        opt = isinstance(k, optional)
        kk = k.key if opt else k
        if isinstance(kk, str):
            kk = str.__str__(kk)      # a key of a str subclass stands for the str it equals
        if isinstance(v, dict):
            if opt:
                out.append((path + (kk,), "OPTIONAL-ON-INNER-NODE", 0))
            out += canon(v, optional, path + (kk,))
        else:
            out.append((path + (kk,), opt, id(v)))
    return sorted(out, key=repr)


def gen_trees(depth: int, fan: int, keys: List[str]):
    """all trees of depth <= depth with 1..fan children per node (children keyed by distinct keys), leaf index 0"""
    if depth == 0:
        return
    subs_cache: Dict[int, List[Any]] = {}

    def subtrees(d):
        if d in subs_cache:
            return subs_cache[d]
        res: List[Any] = [0]
        if d > 0:
            for j in range(1, fan + 1):
                for ks in itertools.combinations(keys, j):
                    for children in itertools.product(subtrees(d - 1), repeat=j):
                        res.append([[k, False, c] for k, c in zip(ks, children)])
        subs_cache[d] = res
        return res
    for t in subtrees(depth):
        if not isinstance(t, int):
            yield t


def leaves_of(tree):
    for node in tree:
        if isinstance(node[2], int):
            yield node
        else:
            yield from leaves_of(node[2])


def decorate(tree, opt_mask: int, leaf_shift: int):
    """copy of the tree with optional markers per bit mask and distinct leaf payloads"""
    import copy
    t = copy.deepcopy(tree)
    for i, node in enumerate(leaves_of(t)):
        node[1] = bool((opt_mask >> i) & 1)
        node[2] = (i + leaf_shift) % len(LEAVES)
    return t


def random_tree(rnd: random.Random, depth: int, keys: List[str]):
    n = rnd.randint(1, min(4, len(keys)))
    out = []
    for k in rnd.sample(keys, n):
        if depth > 1 and rnd.random() < 0.55:
            out.append([k, False, random_tree(rnd, depth - 1, keys)])
        else:
            out.append([k, rnd.random() < 0.3, rnd.randrange(len(LEAVES))])
    return out


def check_case(case: Dict[str, Any]) -> List[Tuple[str, str]]:
    """-> list of (clause, detail) that FAIL for this case"""
    from d42 import optional
    from d42.utils import rollout
    tree, sep, order, ell = case["tree"], case["sep"], case.get("order"), case.get("ellipsis", False)
    kk = case.get("keykind")
    m = build(tree, optional, kk)
    flat = flatten(tree, sep)
    if order is not None:
        flat = [flat[i] for i in order]
    fails = []
    flat_d: Dict[Any, Any] = {}
    pos = case.get("ellipsis_pos", 0)
    for i, (k, opt, leaf) in enumerate(flat):
        if ell and i == pos:
            flat_d[...] = ...
        k = wrap_key(k, kk) if sep not in k else (StrKey(k) if kk else k)
        flat_d[optional(k) if opt else k] = LEAVES[leaf]
    if ell and pos >= len(flat):
        flat_d[...] = ...
    if ell:
        m[...] = ...
    kw = {} if (sep == "." and case.get("default_sep")) else {"separator": sep}
    try:
        r = rollout(flat_d, **kw)
        if not (r == m):
            fails.append(("inverse", f"rollout({flat_d!r}, separator={sep!r}) = {r!r}, expected {m!r}"))
        elif canon(r, optional) != canon(m, optional):
            fails.append(("inverse", f"rollout({flat_d!r}, separator={sep!r}) = {r!r}: leaves or optional markers differ from {m!r}"))
    except Exception as e:
        fails.append(("inverse", f"rollout({flat_d!r}, separator={sep!r}) raised {e!r}"))
    try:
        m2 = build(tree, optional, kk)
        if ell:
            m2[...] = ...
        r2 = rollout(m2, **kw)
        if not (r2 == m2) or canon(r2, optional) != canon(build(tree, optional, kk) | ({...: ...} if ell else {}), optional):
            fails.append(("identity", f"rollout({m2!r}, separator={sep!r}) = {r2!r}, expected the mapping itself"))
    except Exception as e:
        fails.append(("identity", f"rollout of the nested mapping {build(tree, optional)!r} raised {e!r}"))
    return fails


def cases(tier: str, seed: int):
    # (1) exhaustive small bound: depth <= 2, fan-out <= 3 over 3 keys; every optional placement; every order of the
    #     flat keys (<= 4 leaves) or 24 sampled orders; separators "." and "__"
    rnd = random.Random(seed)
    for tree in gen_trees(2, 3, KEYS):
        nleaf = sum(1 for _ in leaves_of(tree))
        masks = range(1 << nleaf) if nleaf <= 4 else [0, (1 << nleaf) - 1, 0b10101 & ((1 << nleaf) - 1), 1]
        for mask in masks:
            t = decorate(tree, mask, mask)
            perms = list(itertools.permutations(range(nleaf))) if nleaf <= 4 else \
                [tuple(rnd.sample(range(nleaf), nleaf)) for _ in range(12)] + [tuple(range(nleaf)), tuple(reversed(range(nleaf)))]
            for order in perms:
                for sep in (".", "__") if (mask in (0, 1) or nleaf <= 3) else (".",):
                    yield {"tree": t, "sep": sep, "order": list(order), "part": "exhaustive-small"}
    # (2) ellipsis entry, default separator, odd keys and separators
    for tree in gen_trees(2, 2, KEYS[:2] + ODD_KEYS[:3]):
        nleaf = sum(1 for _ in leaves_of(tree))
        t = decorate(tree, 0b0110 & ((1 << nleaf) - 1), 3)
        for sep in SEPS:
            if any(set(sep) & set(node_key) for node_key in all_keys(t)):
                continue
            yield {"tree": t, "sep": sep, "order": list(reversed(range(nleaf))), "part": "odd-keys"}
        for pos in range(nleaf + 1):
            yield {"tree": t, "sep": ".", "order": list(range(nleaf)), "ellipsis": True, "ellipsis_pos": pos,
                   "default_sep": True, "part": "ellipsis"}
    # (2b) keys that are instances of str subclasses (a plain subclass, a str-Enum member), bare and wrapped in optional
    for tree in gen_trees(2, 2, KEYS):
        nleaf = sum(1 for _ in leaves_of(tree))
        for mask in (0, (1 << nleaf) - 1, 1):
            t = decorate(tree, mask, mask)
            for kind in ("strsub", "enum"):
                for sep in (".", "__", "/"):
                    yield {"tree": t, "sep": sep, "order": list(reversed(range(nleaf))), "keykind": kind, "part": "str-subclass-keys"}
    # (3) sampled: depth <= 4, fan-out <= 4, five keys
    n = 4000 if tier == "quick" else 60000
    keys = KEYS + ["d", "ab", "", "é"]
    for _ in range(n):
        t = random_tree(rnd, rnd.randint(2, 4), keys)
        nleaf = sum(1 for _ in leaves_of(t))
        order = list(range(nleaf))
        rnd.shuffle(order)
        sep = rnd.choice(SEPS)
        if any(set(sep) & set(k) for k in all_keys(t)):
            sep = "." if not any("." in k for k in all_keys(t)) else "/"
        yield {"tree": t, "sep": sep, "order": order, "ellipsis": rnd.random() < 0.2,
               "ellipsis_pos": rnd.randint(0, nleaf), "default_sep": rnd.random() < 0.5, "part": "sampled-depth-4"}


def all_keys(tree):
    for k, _, sub in tree:
        yield k
        if not isinstance(sub, int):
            yield from all_keys(sub)


def shape(tree) -> str:
    return "(" + ",".join(("L" if isinstance(s, int) else shape(s)) + ("?" if o else "") for _, o, s in tree) + ")"


def check(tier: str, seed: int, res: common.Result) -> None:
    for case in cases(tier, seed):
        res.evaluations += 1
        nleaf = sum(1 for _ in leaves_of(case["tree"]))
        depth_gt1 = any(not isinstance(s, int) for _, _, s in case["tree"])
        if depth_gt1:      # non-trivial: at least one key actually has to be split / grouped
            res.distinct.add((shape(case["tree"]), tuple(all_keys(case["tree"])), case["sep"], tuple(case["order"] or ()),
                              case.get("ellipsis", False)))
        if len(res.samples) < 6 and depth_gt1 and nleaf >= 3 and res.evaluations % 997 == 1:
            from d42 import optional
            res.samples.append({"nested": repr(build(case["tree"], optional)), "separator": case["sep"],
                                "flat_key_order": case["order"], "part": case["part"]})
        fails = check_case(case)
        for clause in ("inverse", "identity"):
            if not any(c == clause for c, _ in fails):
                res.ok(clause)
        for clause, detail in fails:
            res.failures.append((clause, case, detail))
            if len(res.failures) > 200:
                return


def signature(case: Dict[str, Any]) -> List[str]:
    return []


def replay_one(case: Dict[str, Any]) -> Tuple[bool, str]:
    f = check_case(case)
    return (bool(f), f[0][1] if f else "contract holds for this case")


def main(tier: str, seed: int) -> int:
    return common.run(
        "C18", tier, seed, check,
        rule="nested mappings as trees; (1) exhaustive: depth<=2, fan-out<=3 over keys a/b/c, every optional placement, "
             "every order of <=4 flat keys (sampled orders above), separators '.' and '__'; (2) odd keys ('', ' ', "
             "non-ASCII) x 7 separators, top-level ...:... at every position, default separator; (3) seeded sample of "
             "trees of depth<=4, fan-out<=4. non-trivial = at least one inner node (a key is split and grouped); "
             "distinct = (shape, keys, separator, key order, ellipsis)",
        bound="depth<=2 exhaustive / depth<=4 sampled; <=4 children per node; 13 leaf payloads; 7 separators",
        functions=["d42/utils/_rollout.py:rollout"],
        assumptions=["bounded stand-in, not a proof: nothing is claimed beyond the enumerated cases",
                     "keys sharing a character with the separator are outside the domain (flattening is then ambiguous)",
                     "the reference `flatten` is this file's 12-line function"],
        signature=signature, replay_one=replay_one, exhaustive=False)
