"""/venv/bin/python -m bounded.run <C18|C19> [--tier quick|thorough] | --replay <file>"""
import argparse
import json
import os
import sys

sys.path.insert(0, os.environ.get("PYVC_REPO", "/repo"))


def main() -> int:
    ap = argparse.ArgumentParser()
    ap.add_argument("prop", nargs="?")
    ap.add_argument("--tier", default=os.environ.get("VERIF_TIER", "quick"))
    ap.add_argument("--replay")
    a = ap.parse_args()
    seed = int(os.environ.get("VERIF_SEED", "0") or 0)
    if a.replay:
        spec = json.load(open(a.replay))
        mod = __import__("bounded." + spec["property"].lower(), fromlist=["x"])
        bad, detail = mod.replay_one(spec["case"])
        print(("REPRODUCED " if bad else "NOT-REPRODUCED ") + detail[:600])
        return 1 if bad else 0
    mod = __import__("bounded." + a.prop.lower(), fromlist=["x"])
    return mod.main(a.tier if a.tier in ("quick", "thorough") else "quick", seed)


if __name__ == "__main__":
    sys.exit(main())
