"""C19 bounded stand-in: contract on the real d42.migration.migrate_v1_to_v2.rewrite_imports, decided by comparing the
ASTs of input and output, over modules assembled from import forms and other statements.

contract (from the property statement):
  ensures  table:     every (new module, new name) in `mapping` is importable from this package      [exhaustive]
  requires src is syntactically valid Python
  ensures  valid:     the result is None or parses
  ensures  imports:   each top-level `from M import n [as a]` with (M, n) mapped binds the same local name to the v2
                      counterpart; unmapped names stay imported from M; relative imports are untouched
  ensures  preserved: every other top-level statement is unchanged and in order (ast.dump equality)
  ensures  nothing-to-do: None is returned only if no top-level from-import of a mapped name exists
"""
from __future__ import annotations

import ast
import itertools
import random
from typing import Any, Dict, List, Optional, Tuple

from . import common

ODD_BREAKS = ["\x0c", "\x0b", "\x1c", "\x1d", "\x1e", "\x85", "\u2028", "\u2029"]


def items(tree: ast.Module, mapping=None) -> List[Tuple]:
    out: List[Tuple] = []
    for node in tree.body:
        if isinstance(node, ast.ImportFrom) and node.level == 0:
            for al in node.names:
                local = al.asname or al.name
                mod, name = node.module, al.name
                if mapping is not None and mod in mapping and name in mapping[mod]:
                    mod, name = mapping[mod][name]
                out.append(("bind", local, mod, name))
        else:
            out.append(("stmt", ast.dump(node)))
    # bindings of adjacent import statements may be regrouped by module: compare runs as sorted groups
    norm: List[Tuple] = []
    run: List[Tuple] = []
    for it in out:
        if it[0] == "bind":
            run.append(it)
        else:
            if run:
                norm.append(("imports", tuple(sorted(run))))
                run = []
            norm.append(it)
    if run:
        norm.append(("imports", tuple(sorted(run))))
    return norm


def check_source(src: str) -> List[Tuple[str, str]]:
    from d42.migration.migrate_v1_to_v2 import mapping, rewrite_imports
    try:
        tin = ast.parse(src)
    except (SyntaxError, ValueError):
        return []          # outside the precondition
    fails: List[Tuple[str, str]] = []
    try:
        out = rewrite_imports(src, mapping)
    except Exception as e:
        return [("valid", f"rewrite_imports({src!r}) raised {e!r}")]
    want = items(tin, mapping)
    if out is None:
        if want != items(tin):
            fails.append(("nothing-to-do", f"rewrite_imports({src!r}) returned None although a mapped name is imported"))
        return fails
    try:
        tout = ast.parse(out)
    except (SyntaxError, ValueError) as e:
        return [("valid", f"rewrite_imports({src!r}) returned {out!r}, which does not parse: {e}")]
    got = items(tout)
    if got != want:
        gi = [g for g in got if g[0] == "imports"]
        wi = [w for w in want if w[0] == "imports"]
        gs = [g for g in got if g[0] == "stmt"]
        ws = [w for w in want if w[0] == "stmt"]
        if gs != ws:
            fails.append(("preserved", f"rewrite_imports({src!r}) returned {out!r}: {len(ws)} other statement(s) in, "
                                       f"{len(gs)} out, or changed"))
        elif gi != wi:
            fails.append(("imports", f"rewrite_imports({src!r}) returned {out!r}: bindings {gi} but expected {wi}"))
        else:
            fails.append(("preserved", f"rewrite_imports({src!r}) returned {out!r}: statements reordered around imports"))
    return fails


def import_forms(mod: str, names: List[Tuple[str, Optional[str]]]) -> List[str]:
    def a(n, s):
        return f"{n} as {s}" if s else n
    flat = ", ".join(a(n, s) for n, s in names)
    forms = [f"from {mod} import {flat}",
             f"from {mod} import ({flat})",
             f"from {mod} import (\n    " + ",\n    ".join(a(n, s) for n, s in names) + ",\n)",
             f"from {mod} import (  # comment\n    " + ",  # c\n    ".join(a(n, s) for n, s in names) + "\n)",
             f"from {mod} \\\n    import {flat}"]
    if len(names) > 1:
        forms.append(f"from {mod} import " + ", \\\n    ".join(a(n, s) for n, s in names))
    return forms


OTHER = ["x = 1", "import os", '"""doc\nfrom district42 import schema\n"""', "# from district42 import schema",
         "def f():\n    from district42 import schema\n    return schema", "if x:\n    from district42 import schema\nelse:\n    pass",
         "s = 'é'", "y = (1,\n     2)", "class C:\n    from district42 import schema", "import district42", "from . import schema",
         "from .district42 import schema", "from .. import x", "try:\n    from district42 import schema\nexcept ImportError:\n    schema = None",
         "from os import path", "from district42 import *", "pass", "z = '''a\n\nb'''"]


def modules(tier: str, seed: int):
    from d42.migration.migrate_v1_to_v2 import mapping
    rnd = random.Random(seed)
    allnames = [(m, n) for m, d in mapping.items() for n in d]
    # (1) every mapped name x every import form, alone and between two statements, with / without trailing newline
    for m, n in allnames:
        for alias in (None, "zz"):
            for f in import_forms(m, [(n, alias)]):
                yield f + "\n", "all-names"
                yield "x = 1\n" + f + "\ny = x\n", "all-names"
                yield f, "all-names"
    # (2) mixed mapped / unmapped names in one statement
    for m in mapping:
        ns = list(mapping[m])[:3]
        combos = [[(ns[0], None), ("unmapped_name", None)], [("unmapped_name", "u"), (ns[0], "a")],
                  [(x, None) for x in ns], [(ns[0], None), ("*", None)][:1] + [("other", None), (ns[-1], "b")]]
        for names in combos:
            for f in import_forms(m, names):
                yield "import sys\n" + f + "\nprint(sys)\n", "mixed"
    # (3) composition: statements before / after, several on one physical line, line endings, odd characters
    imps = ["from district42 import schema", "from district42 import schema as s, optional", "from revolt import substitute",
            "from district42.errors import DeclarationError, Other", "from district42 import (\n    schema,\n    optional,\n)",
            "from blahblah import fake"]
    for imp in imps:
        for pre, post in itertools.product(OTHER, OTHER[:10]):
            yield pre + "\n" + imp + "\n" + post + "\n", "composition"
        for o in OTHER:
            if "\n" in o or o.startswith("#"):
                continue
            yield o + "; " + imp + "\n", "same-line"
            yield imp + "; " + o + "\n", "same-line"
            yield o + "; " + imp + "; " + o + "\nw = 0\n", "same-line"
            yield "s = 'é'; " + imp + "; " + o, "same-line"
        yield imp + "; " + imps[2] + "\n", "same-line"
        yield imp + "  # trailing comment\nx = 1\n", "comment"
        for nl in ("\r\n", "\r"):
            yield ("x = 1\n" + imp + "\ny = 2\n").replace("\n", nl), "line-endings"
        for ch in ODD_BREAKS:
            yield f"s = 'a{ch}b'\n{imp}\ny = 2\n", "odd-linebreak"
            yield f"# c{ch}d\n{imp}\ny = 2\n", "odd-linebreak"
            yield f'"""doc{ch}string"""\nx = 1\n{imp}\n', "odd-linebreak"
        yield "\n\n" + imp + "\n\n\n" + imp + "\n", "blank-lines"
        yield "#!/usr/bin/env python\n# -*- coding: utf-8 -*-\n" + imp + "\n", "header"
        yield "from __future__ import annotations\n" + imp + "\nx: int = 1\n", "header"
        yield "\x0c" + imp + "\n", "odd-linebreak"
    # (4) seeded random assembly
    n = 3000 if tier == "quick" else 40000
    segs = OTHER + imps + [f for m, k in rnd.sample(allnames, 12) for f in import_forms(m, [(k, None), ("q", "r")])[:3]]
    for _ in range(n):
        k = rnd.randint(1, 5)
        parts = [rnd.choice(segs) for _ in range(k)]
        src = ""
        for p in parts:
            joiner = "; " if (src and "\n" not in p and not p.startswith("#") and not src.endswith("\n") and rnd.random() < 0.5) else None
            if joiner and "\n" not in src.splitlines()[-1] and not src.splitlines()[-1].lstrip().startswith(("#", "def", "if", "class", "try", " ")):
                src += joiner + p
            else:
                src += ("" if not src or src.endswith("\n") else "\n") + p
            if rnd.random() < 0.7:
                src += "\n"
        yield src, "random"


def check(tier: str, seed: int, res: common.Result) -> None:
    import importlib
    from d42.migration.migrate_v1_to_v2 import mapping
    for m, d in mapping.items():
        for n, (nm, nn) in d.items():
            res.evaluations += 1
            try:
                ok = hasattr(importlib.import_module(nm), nn)
                detail = f"{nm} has no attribute {nn}"
            except Exception as e:
                ok, detail = False, f"import {nm} failed: {e!r}"
            if ok:
                res.ok("table")
            else:
                res.failures.append(("table", {"target": [m, n, nm, nn]}, f"mapping[{m!r}][{n!r}] -> {detail}"))
    seen = set()
    for src, part in modules(tier, seed):
        if src in seen:
            continue
        seen.add(src)
        res.evaluations += 1
        fails = check_source(src)
        try:
            t = ast.parse(src)
            if any(isinstance(n, ast.ImportFrom) and n.level == 0 and n.module in mapping for n in t.body):
                res.distinct.add(src)         # non-trivial: a top-level import that has to be rewritten
        except (SyntaxError, ValueError):
            continue
        if len(res.samples) < 8 and res.evaluations % 1499 == 3:
            res.samples.append({"source": src, "part": part})
        for clause in ("valid", "imports", "preserved", "nothing-to-do"):
            if not any(c == clause for c, _ in fails):
                res.ok(clause)
        for clause, detail in fails:
            res.failures.append((clause, {"source": src, "part": part}, detail))


def signature(case: Dict[str, Any]) -> List[str]:
    """features of a failing case that listed known findings are keyed on"""
    sig: List[str] = []
    src = case.get("source")
    if src is None:
        return sig
    if any(ch in src for ch in ODD_BREAKS):
        sig.append("non-parser-linebreak")
    try:
        t = ast.parse(src)
        lines_used: Dict[int, int] = {}
        for n in t.body:
            for ln in range(n.lineno, (n.end_lineno or n.lineno) + 1):
                lines_used[ln] = lines_used.get(ln, 0) + 1
        for n in t.body:
            if isinstance(n, ast.ImportFrom) and n.level == 0:
                if any(lines_used[ln] > 1 for ln in range(n.lineno, (n.end_lineno or n.lineno) + 1)):
                    sig.append("import-shares-a-physical-line")
                    break
    except (SyntaxError, ValueError):
        pass
    return sig


def replay_one(case: Dict[str, Any]) -> Tuple[bool, str]:
    if "target" in case:
        import importlib
        m, n, nm, nn = case["target"]
        try:
            ok = hasattr(importlib.import_module(nm), nn)
        except Exception:
            ok = False
        return (not ok), f"mapping target {nm}.{nn}"
    f = check_source(case["source"])
    return (bool(f), f[0][1] if f else "contract holds for this module")


def main(tier: str, seed: int) -> int:
    return common.run(
        "C19", tier, seed, check,
        rule="(0) every mapping target imported [exhaustive]; modules assembled from (1) every mapped name x 6 import forms "
             "(single/multi-line, parenthesised, commented, backslash, aliased) x 3 contexts, (2) mixed mapped/unmapped "
             "names, (3) 6 imports x 18x10 neighbouring statements, several statements on one physical line, CR/CRLF, "
             "characters str.splitlines treats as line breaks, missing trailing newline, (4) seeded random assembly; "
             "non-trivial = has a top-level from-import of a mapped module; distinct = distinct source text",
        bound="modules of <= 5 segments from a pool of 18 statement kinds and 6+ import forms; all mapped names",
        functions=["d42/migration/migrate_v1_to_v2.py:rewrite_imports", "d42/migration/migrate_v1_to_v2.py:mapping"],
        assumptions=["bounded stand-in, not a proof: nothing is claimed beyond the enumerated modules",
                     "ast.parse / ast.dump of the running interpreter are the reference for `same statement`",
                     "comments are not statements: their loss is not counted"],
        signature=signature, replay_one=replay_one, exhaustive=False)
