"""Record canary mutants:  python3-vt tools_canary.py <prop> <relpath> <qualname> <desc-substring> [...]"""
import json, os, sys
sys.path.insert(0, "/verif")
from pyvc import cli, mutants
repo, ct = cli.load_all()
path = "/verif/canaries.json"
data = json.load(open(path)) if os.path.exists(path) else {}
prop, relpath, qualname, want = sys.argv[1:5]
info = repo.func(relpath, qualname)
for k in range(mutants.count_sites(info.node)):
    m, desc = mutants.mutant(info, k)
    if want in desc:
        data.setdefault(prop, [])
        data[prop] = [c for c in data[prop] if not (c["qualname"] == qualname and c["site"] == k)]
        data[prop].append({"relpath": relpath, "qualname": qualname, "site": k, "desc": desc, "sha256": info.sha256})
        print("recorded", prop, qualname, k, desc)
        break
else:
    print("no such mutant", want)
json.dump(data, open(path, "w"), indent=1)
