"""Development tool: mutation score of the contracts.  python3-vt tools_mutate.py <qualname>|all [module...]"""
import sys, time, importlib, multiprocessing as mp
sys.path.insert(0,'/verif')
from pyvc.source import Repo
from pyvc import model as M
from pyvc.contracts import REG, verify_function
from pyvc.solve import discharge
from pyvc import mutants, cli
def run(task):
    rp,q,k=task
    repo,ct=cli.load_all()
    REG.active_regions={k["region"] for k in cli.load_known()}
    con=REG.contracts[(rp,q)]
    info=repo.func(rp,con.func or q)
    m,desc=mutants.mutant(info,k)
    if not desc: return None
    fr=verify_function(repo,ct,REG,con,mutate=lambda i:m)
    if fr.unsupported: return (q,k,desc,'UNSUPPORTED',fr.unsupported[:80])
    from pyvc import solve
    solve.SHORT_BUDGET=True
    for ob in fr.obligations:
        v=discharge(ob, (fr.ex.base+fr.ex.extra_axioms), use_cvc5=False)
        if v.status not in ('PROVED','COVERED'):
            return (q,k,desc,'KILLED',ob.name)
    return (q,k,desc,'SURVIVED','')
if __name__=='__main__':
    repo,ct=cli.load_all()
    names=sys.argv[1:]
    tasks=[]
    for (rp,q),con in REG.contracts.items():
        if names!=['all'] and q not in names: continue
        info=repo.func(rp,con.func or q)
        for k in range(mutants.count_sites(info.node)): tasks.append((rp,q,k))
    with mp.get_context('fork').Pool(16) as pool:
        res=[r for r in pool.map(run,tasks,chunksize=1) if r]
    surv=[r for r in res if r[3]=='SURVIVED']
    print(len(res),'mutants; killed',sum(r[3]=='KILLED' for r in res),'unsupported',sum(r[3]=='UNSUPPORTED' for r in res),'survived',len(surv))
    for r in surv: print('  SURVIVED',r[0],r[2])
    for r in res:
        if r[3]=='UNSUPPORTED': print('  UNSUPPORTED',r[0],r[2],r[4])
