#!/bin/bash
# tools_seedwt.sh <seed-name> <prop...>: run the checks against a scratch worktree of /repo with the seeded change applied
# (leaves /repo untouched, so several can run at once); the worktree is removed afterwards.
name=$1; shift
wt=/tmp/sw_$name
git -C /repo worktree add --detach -q $wt HEAD || exit 1
(cd $wt && git apply /verif/seeded/$name/patch.diff) || { echo "$name patch-does-not-apply"; git -C /repo worktree remove --force $wt; exit 1; }
cd /verif
for p in "$@"; do
  out=$(PYVC_REPO=$wt PYVC_EVIDENCE_DIR=/tmp/sw_ev_$name ./check $p --tier quick 2>&1); rc=$?
  line=$(echo "$out" | grep -E "^VIOLATION|^UNDECIDED|CHECKER" | head -2 | cut -c1-150 | tr '\n' ' ')
  sumline=$(echo "$out" | tail -1 | cut -c1-120)
  echo "$name $p exit=$rc $line | $sumline"
done
git -C /repo worktree remove --force $wt
rm -rf /tmp/sw_ev_$name
