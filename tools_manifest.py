"""Regenerates MANIFEST.json from the table below (run: python3 tools_manifest.py)."""
import json
PROPS = [json.loads(l)["id"] for l in open("properties.jsonl")]
BASE = "cd /repo && /venv/bin/python -m pytest -ra -q -p no:cacheprovider --timeout=900 --continue-on-collection-errors"
TECH = "contract-based deductive verification: sidecar contracts on the real functions, VCs generated from /repo's AST by pyvc, discharged by z3 (cvc5 fallback); counter-models replayed natively"
CLAIMED = {
 "C16": dict(text="The real dispatch chain Validator/Generator/Representor/Substitutor.visit -> CustomSchema.__d42_*__ -> user hook is proved to hand the hook exactly the arguments it received, so custom.__accept__(V, **kw) satisfies the Accept[V] contract of the wrapped schema (verdict, error location, generated value, printed text as a function of (schema, indent, kwargs), substitution result); container visits use a member only as the receiver of __accept__ (any other use leaves the executor's subset) and forward their **kwargs unchanged (call-site obligations).",
             note="Assumed contract of the user code: the four hooks forward to the inner schema with the same arguments (that is the property's premise). Schema.__accept__ itself (one forwarding line) is inlined, not separately specified.", ref="DESIGN.md 4.16"),
 "C15": dict(text="eq (the Schema.__eq__ override), Schema.__ne__, Props.__eq__ (two loops with invariants) and optional.__eq__ are proved to compute the specification relations struct_eq / props_eq / gen_eq (schema-vs-value = conforms, from either side; != is the negation); reflexivity, symmetry and transitivity are lemmas over those definitions with the members' laws as induction hypothesis. The Validator verdict contract is re-proved in this check.",
             note="Laws proved for schemas of the same class (a strict-subclass operand makes == asymmetric: not covered); congruence/discrimination clauses of the statement are not separate obligations. Known findings: transitivity through a missing (Nil) schema-valued parameter; NaN parameters.", ref="DESIGN.md 4.15"),
 "C13": dict(text="Contracts proved against the real bodies: union / AnySchema.__call__ / _flatten_schemas (recursive, loop invariant: the flattened alternatives accept exactly what the given ones accept), DictSchema.__add__ (right-biased merge of the key tables), __getitem__, keys, SchemaFacade.alias, make_required (two loops; same keys and members, optional flag cleared iff listed); the statement's equivalences are lemmas over those contracts and the definition of conforms. The Validator verdict contract is re-proved in this check.",
             note="DictSchema.__iter__ / AnySchema.__iter__ (generator functions) are outside the executor's subset and not under contract; reachable-schema precondition on operands. ", ref="DESIGN.md 4.13"),
 "C14": dict(text="from_native is proved (recursive contract, comprehension rule per element) to return a well-formed schema R with conforms(R, w) <=> denotes(x, w) for every w, where denotes is the specification of `the same plain value` written from the statement; to raise only ValueError on the plain-value domain; reflexivity (R accepts x) is a lemma over that contract by structural induction. The Validator verdict contract it composes with is re-proved in this check.",
             note="DictSchema.__call__ is an assumed contract (its loop is not yet verified); ListSchema.__call__ and the scalar __call__ contracts are proved. Domain: dicts with plain keys (no ... / optional keys). Known finding: NaN.", ref="DESIGN.md 4.14"),
 "C04": dict(text="Exact contracts of Substitutor.visit_<scalar> (raises SubstitutionError iff the value does not conform; otherwise the result is the schema with value := v) proved against the real bodies, then lemmas over those contracts and the specification functions: S % v accepts v, is reachable/self-consistent, and every value it accepts is pinned to v. The Validator verdict contract it composes with is re-proved in this check.",
             note="Scalar schema types only so far: list / dict / any / alias substitution and from_native are pending (not yet under contract). Known finding: NaN.", ref="DESIGN.md 4.4"),
 "C05": dict(text="Lemma over the exact scalar substitution contracts: every value accepted by S % v is accepted by S (all clauses of S stay in the result registry).",
             note="Scalar schema types only so far; containers pending. Known finding: float isclose tolerance is not transitive.", ref="DESIGN.md 4.5"),
 "C12": dict(text="Exceptional postcondition (only SubstitutionError, exactly when the value does not conform) of the scalar Substitutor visits and make_substitution_error proved against the bodies for arbitrary value objects; idempotence as a lemma over the exact contracts.",
             note="Scalar schema types only so far; containers and from_native pending. Known finding: NaN.", ref="DESIGN.md 4.12"),
 "C01": dict(text="Every Generator.visit_* and Random.* under contract is proved, for a symbolic reachable and satisfiable schema of its class and for unconstrained symbolic RNG draws (so both extremes of every draw are covered), to raise nothing and to return a value satisfying the specification function conforms; composed with the C02 verdict contract this gives validate(S, fake(S)) has no errors.",
             note="RegexGenerator.generate is an assumed contract until C09 is built (pattern within the supported grammar is a stated precondition); stdlib random = assumed contracts; floats as reals. Six known findings (regions excluded, witnesses replayed each run). Generator.visit for custom types pending.",
             ref="DESIGN.md 4.1"),
 "C02": dict(text="Every Validator.visit_* under contract is proved, for all schemas of its class (symbolic registry) and all Python values (symbolic object), to return no errors exactly when the value conforms to the specification function written from the statement.",
             note="Trusted: pyvc encodings; z3/cvc5; builtin contracts (isinstance, len, ==, re.search as an uninterpreted predicate, math.isclose); floats as reals+specials. Known finding: NaN in float min/max (region excluded, witness replayed each run).",
             ref="DESIGN.md 4.2"),
 "C03": dict(text="Located/true-error postcondition and the PathHolder frame condition are proved for every Validator.visit_* under contract against an explicit heap model of th.PathHolder (in-place append, deepcopy allocates).",
             note="Trusted: th.PathHolder / copy.deepcopy contracts; pyvc; z3.", ref="DESIGN.md 4.3"),
 "C08": dict(text="Exception freedom: every primitive operation with a raise condition inside the functions under contract yields an obligation that the condition is excluded by the path condition, for arbitrary symbolic values (any kind, incl. nan/inf/huge/opaque).",
             note="Objects whose own special methods raise are outside the domain (as the property says). Trusted: raise conditions of the builtin models.", ref="DESIGN.md 4.8"),
 "C10": dict(text="Every declaration method under contract has an exact contract (raises DeclarationError iff RAISE(view, args); otherwise returns a schema whose registry is the receiver's updated by UPDATE) proved against its real body for arbitrary argument objects, plus the class invariant Reach_T (well-formed kinds, mutual exclusions, the fixed value conforms to the schema itself) - which covers chains of any length.",
             note="Under contract so far: Bool/Int/Float/Str/Bytes/UUID4/DateTime/Date declaration methods; List/Dict/Any pending. make_*_error helpers are assumed (trusted) to return a DeclarationError. Known finding: NaN in float declarations.",
             ref="DESIGN.md 4.10"),
 "C11": dict(text="Pairwise commutation lemma over the exact contracts of the refinement methods (each proved against its body): both orders raise, or both yield the same registry, from every reachable state; adjacent transpositions generate all permutations, so no bound on the number of refinements.",
             note="Int/Float/Str refinements; ListSchema.len pending. The adjacent-transposition argument is a paper argument over machine-checked pairwise obligations.",
             ref="DESIGN.md 4.11"),
}
PENDING = "contracts for this property are not built yet (build in progress; see DESIGN.md section 8)"
m = {"version": 1, "setup_cmd": "true",
     "hooks": {"guard": "D42_VERIF", "enable": "no repository hook is needed: contracts, invariants and ghost definitions are sidecar files under /verif/contracts (source_commits is empty)",
               "baseline_off_cmd": BASE, "source_commits": [], "add_only": True},
     "engines": [{"name": "pyvc", "path": "/verif/pyvc", "serves_properties": sorted(CLAIMED),
                  "kind_free_text": "self-built deductive verifier for a Python subset: AST symbolic executor + sidecar contracts + z3/cvc5"}],
     "checks": [], "notes": "see DESIGN.md; exit codes 0 held / 1 VIOLATION / 2 undecided / 3 checker error",
     "not_applicable": []}
for p in PROPS:
    if p in CLAIMED:
        c = CLAIMED[p]
        m["checks"].append({"property_id": p, "quick_cmd": f"./check {p} --tier quick", "thorough_cmd": f"./check {p} --tier thorough",
                            "evidence_file": f"/verif/evidence/{p}.json", "replay_cmd_template": "./check --replay {path}",
                            "engine": "pyvc", "level_claimed": {"category": "proof", "text": c["text"], "design_ref": c["ref"]},
                            "level_note": c["note"], "technique": TECH})
    else:
        m["not_applicable"].append({"property_id": p, "reason": PENDING})
json.dump(m, open("MANIFEST.json", "w"), indent=1)
print("claimed", sorted(CLAIMED))
